"""g11 helper: injectable tracked operands and the single-run driver of the E4 fault explorer (C35, C36).

Every dunder of T / TB / TI / Meta first calls tick(): it increments a global call counter, appends
(name, payload) to the call log and raises Injected(k) when the counter reaches one of the armed
targets.  Every instance is registered (weakly) in LIVE so that a leaked reference shows as a
survivor after gc.collect().  Nothing in here is random.
"""
import gc, io, sys, weakref

__all__ = ['T', 'TB', 'TI', 'TM', 'Meta', 'Base', 'Desc', 'Injected', 'S1', 'S2', 'S3', 'S4', 'mk', 'mkd', 'mks']


class Injected(Exception):
    def __init__(self, k):
        Exception.__init__(self, k)
        self.k = k


class _State:
    count = 0
    armed = False
    targets = frozenset()
    log = []
    serial = 0
    creating = None


ST = _State
LIVE = weakref.WeakValueDictionary()


def tick(name, payload=None):
    if not ST.armed:
        return
    ST.count += 1
    ST.log.append((name, payload))
    if ST.count in ST.targets:
        raise Injected(ST.count)


def _register(obj):
    ST.serial += 1
    LIVE[ST.serial] = obj
    if ST.creating is not None:
        ST.creating.append(obj)


def _val(o):
    if isinstance(o, (T, TB)):
        return o.v
    if isinstance(o, (int, float)):
        return o
    return 1


class TB:
    """Tracked truth value returned by the rich comparisons of T (so that `a < b < c` has a fallible __bool__)."""
    def __init__(self, v):
        self.v = bool(v)
        _register(self)

    def __bool__(self):
        tick('TB.bool', self.v)
        return self.v

    def __repr__(self):
        tick('TB.repr', self.v)
        return 'TB(%r)' % self.v


class TI:
    """Tracked iterator."""
    def __init__(self, items):
        self.items = list(items)
        self.pos = 0
        _register(self)

    def __iter__(self):
        tick('TI.iter')
        return self

    def __next__(self):
        tick('TI.next', self.pos)
        if self.pos >= len(self.items):
            raise StopIteration
        self.pos += 1
        return self.items[self.pos - 1]


class T:
    """Tracked operand: payload int v, optional item list, optional swallow flag for __exit__."""
    def __init__(self, v=0, items=None, swallow=False):
        self.v = v
        self.items = items
        self.swallow = swallow
        _register(self)

    # ---- conversions / protocol
    def __bool__(self):
        tick('bool', self.v)
        return self.v != 0

    def __hash__(self):
        tick('hash', self.v)
        return hash(self.v)

    def __index__(self):
        tick('index', self.v)
        return self.v

    def __int__(self):
        tick('int', self.v)
        return self.v

    def __float__(self):
        tick('float', self.v)
        return float(self.v)

    def __repr__(self):
        tick('repr', self.v)
        return 'T(%d)' % self.v

    def __str__(self):
        tick('str', self.v)
        return 't%d' % self.v

    def __format__(self, spec):
        tick('format', (self.v, spec))
        return format('t%d' % self.v, spec)

    def __len__(self):
        tick('len', self.v)
        return len(self.items or ())

    def __iter__(self):
        tick('iter', self.v)
        return TI(self.items or ())

    def __getitem__(self, i):
        tick('getitem', self.v)
        if isinstance(i, T):
            i = i.v
        return self.items[i]

    def __setitem__(self, i, x):
        tick('setitem', self.v)
        if isinstance(i, T):
            i = i.v
        self.items[i] = x

    def __delitem__(self, i):
        tick('delitem', self.v)
        if isinstance(i, T):
            i = i.v
        del self.items[i]

    def __contains__(self, x):
        tick('contains', self.v)
        for o in self.items or ():
            if o is x or (isinstance(o, T) and isinstance(x, T) and o.v == x.v):
                return True
        return False

    def __call__(self, *a, **kw):
        tick('call', (self.v, len(a), tuple(sorted(kw))))
        return T(self.v + len(a) + 10 * len(kw))

    def __enter__(self):
        tick('enter', self.v)
        return self

    def __exit__(self, et, ev, tb):
        tick('exit', (self.v, None if et is None else et.__name__))
        return self.swallow

    def __getattr__(self, name):
        if name[:2] == '__':
            raise AttributeError(name)
        tick('getattr', (self.v, name))
        return T(self.v + len(name))

    def __neg__(self):
        tick('neg', self.v)
        return T(-self.v)

    def __pos__(self):
        tick('pos', self.v)
        return T(+self.v)

    def __invert__(self):
        tick('invert', self.v)
        return T(~self.v)

    def __abs__(self):
        tick('abs', self.v)
        return T(abs(self.v))


def _mk_bin(name, fn):
    def op(self, other):
        tick(name, (self.v, _val(other)))
        return T(fn(self.v, _val(other)))

    def rop(self, other):
        tick('r' + name, (self.v, _val(other)))
        return T(fn(_val(other), self.v))

    def iop(self, other):
        tick('i' + name, (self.v, _val(other)))
        return T(fn(self.v, _val(other)))
    setattr(T, '__%s__' % name, op)
    setattr(T, '__r%s__' % name, rop)
    setattr(T, '__i%s__' % name, iop)


for _n, _f in (('add', lambda a, b: a + b), ('sub', lambda a, b: a - b), ('mul', lambda a, b: a * b),
               ('floordiv', lambda a, b: a // (b or 1)), ('truediv', lambda a, b: a // (b or 1)),
               ('mod', lambda a, b: a % (b or 1)), ('and', lambda a, b: a & b), ('or', lambda a, b: a | b),
               ('xor', lambda a, b: a ^ b), ('lshift', lambda a, b: a << (b & 7)), ('rshift', lambda a, b: a >> (b & 7)),
               ('matmul', lambda a, b: a * b + 1), ('pow', lambda a, b: a ** (b & 3))):
    _mk_bin(_n, _f)


def _mk_cmp(name, fn):
    def op(self, other):
        tick(name, (self.v, _val(other)))
        return TB(fn(self.v, _val(other)))
    setattr(T, '__%s__' % name, op)


for _n, _f in (('eq', lambda a, b: a == b), ('ne', lambda a, b: a != b), ('lt', lambda a, b: a < b),
               ('le', lambda a, b: a <= b), ('gt', lambda a, b: a > b), ('ge', lambda a, b: a >= b)):
    _mk_cmp(_n, _f)


class TM(T):
    """Tracked non-dict mapping: items()/keys()/values() return tracked iterables of tracked pairs (reaches the
    generic branches of the dict-iteration helpers)."""
    def __init__(self, v=0):
        # no instance attribute 'items': it would shadow the items() method
        self.v = v
        self.swallow = False
        _register(self)

    def items(self):
        tick('items', self.v)
        return T(50, items=[T(60 + i, items=[T(i), T(i * 10)]) for i in range(1, self.v + 1)])

    def keys(self):
        tick('keys', self.v)
        return T(51, items=[T(i) for i in range(1, self.v + 1)])

    def values(self):
        tick('values', self.v)
        return T(52, items=[T(i * 10) for i in range(1, self.v + 1)])


class Meta(type):
    """Tracked metaclass: __prepare__/__new__/__init__/__call__ are fallible."""
    @classmethod
    def __prepare__(mcs, name, bases, **kw):
        tick('Meta.prepare', name)
        return {}

    def __new__(mcs, name, bases, ns, **kw):
        tick('Meta.new', name)
        cls = type.__new__(mcs, name, bases, dict(ns))
        _register(cls)
        return cls

    def __init__(cls, name, bases, ns, **kw):
        tick('Meta.init', name)
        type.__init__(cls, name, bases, ns)

    def __call__(cls, *a, **kw):
        tick('Meta.call', cls.__name__)
        return type.__call__(cls, *a, **kw)


class Base:
    """Base class whose __init_subclass__ is fallible."""
    def __init_subclass__(cls, **kw):
        tick('init_subclass', (cls.__name__, tuple(sorted(kw))))
        _register(cls)


class Desc:
    """Descriptor with fallible __set_name__/__get__/__set__."""
    def __init__(self, v=0):
        self.v = v
        _register(self)

    def __set_name__(self, owner, name):
        tick('set_name', name)

    def __get__(self, obj, tp=None):
        tick('desc.get', self.v)
        return T(self.v)

    def __set__(self, obj, val):
        tick('desc.set', self.v)


# long-lived sentinels (never in LIVE accounting: created before any run, never mutated by the portfolio)
S1 = T(7)
S2 = T(0)
S3 = ('sent', 12345678901234567890, 2.5)
S4 = ''.join(['sen', 'tinel', '-', 'key'])
SENTINELS = [S1, S2, S3, S4]
_PRE_LIVE = set(LIVE.keys())


def mk(*vs):
    """T container: T(100, items=[T(v) for v in vs])"""
    return T(100 + len(vs), items=[T(v) for v in vs])


def mkd(*vs):
    """dict with tracked keys and values"""
    return {T(v): T(v * 10) for v in vs}


def mks(*vs):
    return {T(v) for v in vs}


def namespace():
    ns = {k: globals()[k] for k in __all__}
    return ns


# ------------------------------------------------------------------------------------------ canonical outcomes
def canon(v, depth=0):
    """Structural description of a result; never calls a tracked dunder (the counter is disarmed anyway)."""
    if depth > 6:
        return '...'
    t = type(v)
    if t is TM:
        return ('TM', v.v)
    if t is T:
        return ('T', v.v, None if v.items is None else canon(v.items, depth + 1))
    if t is TB:
        return ('TB', v.v)
    if t is TI:
        return ('TI', v.pos)
    if t in (list, tuple):
        return (t.__name__, tuple(canon(x, depth + 1) for x in v))
    if t in (set, frozenset):
        return (t.__name__, tuple(sorted((canon(x, depth + 1) for x in v), key=repr)))
    if t is dict:
        return ('dict', tuple((canon(k, depth + 1), canon(x, depth + 1)) for k, x in v.items()))
    if t in (int, float, str, bytes, bool, type(None), complex, bytearray, range, slice):
        return (t.__name__, repr(v))
    if isinstance(v, type):
        return ('class', v.__name__)
    if isinstance(v, BaseException):
        return ('excobj', type(v).__name__, getattr(v, 'k', None))
    if callable(v) and hasattr(v, '__name__'):
        return ('callable', v.__name__)
    if isinstance(v, (int, float, str)):
        return (t.__name__, repr(v))
    return ('obj', t.__name__)


def exc_outcome(e):
    chain = []
    cur, n = e, 0
    while cur is not None and n < 8:
        link = 'cause' if cur.__cause__ is not None else ('ctx' if cur.__context__ is not None and not cur.__suppress_context__ else None)
        chain.append((type(cur).__name__, getattr(cur, 'k', None)))
        cur = cur.__cause__ if cur.__cause__ is not None else cur.__context__
        if link == 'cause':
            chain.append('<-cause')
        n += 1
    return ('exc', type(e).__name__, getattr(e, 'k', None), tuple(chain))


_MEASURED = (T, TB, TI, list, dict, set, tuple, str, bytes, bytearray, float)


def _call(f, args):
    """The armed region: run f(*args); returns the outcome (no reference to result/exception survives)."""
    ST.armed = True
    try:
        try:
            r = f(*args)
        finally:
            ST.armed = False
        return ('ok', canon(r))
    except BaseException as e:
        ST.armed = False
        if isinstance(e, (KeyboardInterrupt, SystemExit, MemoryError)):
            raise
        return exc_outcome(e)


def run_one(f, mkargs, targets=()):
    """One run of f over freshly built operands with the given injection targets.

    Returns dict(outcome, n, log, out, deltas, live_mid, live_end)."""
    gc.collect()
    ST.count = 0
    ST.log = []
    ST.targets = frozenset(targets)
    ST.armed = False
    for s in (S1, S2):
        for k in [k for k in s.__dict__ if k not in ('v', 'items', 'swallow')]:
            del s.__dict__[k]
    live_start = len(LIVE)
    ST.creating = []
    args = mkargs()
    ops = ST.creating
    ST.creating = None
    tracked = list(ops) + SENTINELS + [a for a in args if type(a) in _MEASURED and not isinstance(a, (T, TB, TI))]
    base = [sys.getrefcount(o) for o in tracked]
    live0 = len(LIVE)
    cap = io.StringIO()
    old = sys.stdout, sys.stderr
    sys.stdout = sys.stderr = cap
    try:
        outcome = _call(f, args)
    finally:
        sys.stdout, sys.stderr = old
    gc.collect()
    deltas = tuple(sys.getrefcount(o) - b for o, b in zip(tracked, base))
    live_mid = len(LIVE) - live0
    n = ST.count
    log = ST.log
    ST.log = []
    del args, ops, tracked
    gc.collect()
    live_end = len(LIVE) - live_start
    return {'outcome': outcome, 'n': n, 'log': log, 'out': cap.getvalue(), 'deltas': deltas,
            'live_mid': live_mid, 'live_end': live_end}
