"""C37 - prange gives sequential results and a safe exit on every schedule.

Three layers, all bound to the C emitted by the staged compiler (Nodes.py ParallelStatNode / ParallelRangeNode):

Layer 1 (model checking).  A family of 12 prange programs (props/_g10_family.py) is compiled; models/c37_extract.py
parses the emitted C of every parallel region and translates the exit-trapping section, the per-iteration guard and
the post-region hand-off statement by statement into a protocol skeleton; models/c37_model.py renders it into a
Promela model (T worker processes, K iterations each, static or dynamic claiming, every iteration outcome
nondeterministic in {normal, break, return, raise}, every shared access its own atomic step, the GIL a lock only
where the extracted code brackets it, exception objects as tokens with an owner).  spin checks exhaustively:
S1 no saved exception overwritten / restored twice / left undropped, S2 raised => error arm with a token raised by an
executed iteration, S3 return/break/else arms (documented best effort: break vs return undefined), S4 no body after the
thread observed why >= 2, S5 no deadlock, S6 thread-state exception only touched with the GIL held.  A Python explorer of
the same thread program must reach the same verdict.
Layer 2 (conformance).  The same programs built with gcc -fopenmp run on real OpenMP threads (schedule(static,1),
num_threads=T); `with gil` hooks at iteration entry/leave block on events and a driver thread imposes every
interleaving of the per-thread leave sequences x every outcome assignment with <= 2 non-normal iterations; the
model (driver included) predicts the set of allowed observables and the real outcome must be in it; absolute oracles:
no hang (5 s horizon, confirmed with 20 s), no crash, raised => one of the raised exceptions propagates, every other
exception object is dead afterwards, all-normal runs equal the sequential loop.
Layer 3 (sequential equivalence).  Reduction / lastprivate / disjoint-write bodies x threads x schedule x chunk x
ranges: results, lastprivates and the final index equal CPython's range loop and the non-OpenMP build; the
extractor asserts every variable or temporary assigned in a body is lastprivate/reduction/private.
"""
import os, re, sys, json, time, itertools, subprocess, hashlib
from vlib import farm, runner
from props import _g10_family as F
from props import _g10_replay as RP

LEVEL = 'model_checking'
ENGINE = 'E5 schedexplore'
TECHNIQUE = 'spin on a Promela model extracted from the emitted C; every leave-order linearisation replayed on real OpenMP threads'
LEVEL_TEXT = ('The exit/exception hand-off protocol of every parallel region of 12 prange programs (10 distinct protocols) is '
              'extracted statement by statement from the C the staged compiler emits and model-checked exhaustively with spin for '
              'S1-S6 over every interleaving and every per-iteration outcome in {normal,break,return,raise}: quick (T,K) in '
              '{(2,2) static+dynamic, (3,1) static}, thorough adds (3,1) dynamic, (2,3), (3,2), (4,1); a Python explorer of the same '
              'thread program must agree.  Every interleaving of per-thread leave orders x every outcome assignment with <= 2 '
              'non-normal iterations (quick T=2 x 2 iterations for all programs, T=3 x 1 for three; thorough also 2x3 and 3x2) is '
              'imposed on real OpenMP threads and must land in the model-predicted set, with no hang, crash, lost or leaked '
              'exception.  Reduction/lastprivate/disjoint-write bodies are swept over threads {1,2,3,16} (thorough 1..16) x 4 '
              'schedules x chunk {none,1,2,7} x 13 ranges against CPython range semantics and the non-OpenMP build.')
LEVEL_NOTE = ('Sequentially consistent memory assumed (flush positions only checked structurally); regular GIL build only '
              '(free-threading mutex not modelled); real threads are driven at iteration granularity (entry/leave gates, entries '
              'released eagerly because the body between the gates touches only private data; the full two-gate interleavings '
              'and a dynamic-schedule replay are left out); break-vs-return races are documented as undefined and accepted either '
              'way; conditional assignment to a lastprivate is outside the property; Layer 3 schedules are whatever libgomp does; '
              'nested (parallel()+prange) protocols are not model-checked at (3,2) dynamic / (4,1) (> 2e7 states). No TSan.  '
              'The test programs read the address of the emitted exit-reason variable (observation only).')

KN = {'N': 'normal', 'B': 'break', 'R': 'return', 'X': 'error'}
FAM = 'g10fam'
SPIN_TIMEOUT = 900


# ============================================================================================ helpers
def _cpu():
    import resource
    a = resource.getrusage(resource.RUSAGE_CHILDREN)
    b = resource.getrusage(resource.RUSAGE_SELF)
    return a.ru_utime + a.ru_stime + b.ru_utime + b.ru_stime


def _models():
    import importlib
    X = importlib.import_module('models.c37_extract')
    M = importlib.import_module('models.c37_model')
    return X, M


def _template():
    with open(os.path.join(os.path.dirname(os.path.dirname(os.path.abspath(__file__))), 'models', 'c37_template.pml')) as f:
        return f.read()


def kernel_cname(c_text, modname, name):
    m = re.search(r'\b(__pyx_f_\w*?%s_k_%s)\(' % (re.escape(modname), re.escape(name)), c_text)
    return m.group(1) if m else '__pyx_f_%d%s_k_%s' % (len(modname), modname, name)


def build_family(workdir, modname=FAM):
    return farm.build(modname, F.module_source(), workdir, cflags=['-fopenmp'], ldflags=['-fopenmp'])


def extract_family(c_text, modname=FAM):
    X, M = _models()
    from Cython.Compiler import Naming
    out = {}
    for p in F.PROGRAMS:
        try:
            tops, info = X.extract(c_text, kernel_cname(c_text, modname, p['name']), Naming)
            if len(tops) != 1:
                raise X.ExtractError('expected one top-level parallel region, found %d' % len(tops))
            out[p['name']] = (tops[0], None)
        except X.ExtractError as e:
            out[p['name']] = (None, str(e))
    return out


def structural_findings(region, parent=None):
    """Clause / flush checks the design lists as structural.  Returns list of (key, text)."""
    res = []
    labels = region['labels']
    kinds = [k for _, k, _ in labels]
    if region['kind'] == 'prange':
        breaking = any(k in ('break', 'return', 'error') for k in kinds)
        if breaking and region['guard'] is None:
            res.append(('no-guard', 'prange with trapped exits has no `if (why < 2)` guard around the body'))
        if breaking and ('FL', 'why') not in [tuple(o) for o in region['end_ops']]:
            res.append(('no-flush-why', 'no `#pragma omp flush(why)` at the end of the iteration'))
        fc = region['for_clauses'] or {}
        pc = (region['par_clauses'] if region['own_parallel'] else (parent or {}).get('par_clauses')) or {}
        red = {a.split(':')[1] for a in fc.get('reduction', []) + pc.get('reduction', [])}
        last = set(fc.get('lastprivate', []))
        priv = set(pc.get('private', [])) | set(pc.get('firstprivate', [])) | set(fc.get('private', []))
        for v in region['assigned_vars']:
            if v not in red and v not in last and v not in priv:
                res.append(('shared-assigned:' + ('var' if v in set(fc.get('firstprivate', [])) else 'var'),
                            'variable %s assigned in the prange body is neither lastprivate nor reduction nor private '
                            '(firstprivate=%s)' % (v, v in fc.get('firstprivate', []))))
        for t in region['assigned_temps']:
            if t not in priv and t != region.get('loop_temp'):
                res.append(('shared-assigned:temp', 'temporary %s assigned in the prange body is not private' % t))
        if region['why_scope'] == 'shared' and region['own_parallel'] and breaking:
            sh = set((region['par_clauses'] or {}).get('shared', []))
            if not any('parallel_why' in s for s in sh):
                res.append(('why-not-shared', 'exit reason variable not in the shared() clause'))
    for name, kind, ops in labels:
        if kind == 'error':
            flat = [tuple(o[:1]) if o[0] in ('IFNX',) else tuple(o) for o in ops]
            names = [o[0] for o in ops]
            if 'IFNX' in names and ('FL', 'exc') in flat:
                if flat.index(('FL', 'exc')) > names.index('IFNX'):
                    res.append(('flush-exc-late', 'flush(exc_type) comes after the first-exception test'))
            elif 'IFNX' in names:
                res.append(('no-flush-exc', 'no flush(exc_type) before the first-exception test'))
    for ch in region['children']:
        res.extend(structural_findings(ch, region))
    return res


# ============================================================================================ Layer 1: spin
def _spin_job(job):
    d, text, tag, big = job
    os.makedirs(d, exist_ok=True)
    with open(os.path.join(d, 'm.pml'), 'w') as f:
        f.write(text)
    t0 = time.time()
    try:
        p = subprocess.run('spin -a m.pml 2>&1 && gcc %s -w -DSAFETY -DNOBOUNDCHECK -o pan pan.c 2>&1 '
                           '&& ./pan -m50000 %s 2>&1' % (('-O1', '-w23') if big else ('-O0', '-w19')),
                           shell=True, cwd=d, stdout=subprocess.PIPE, text=True, errors='replace', timeout=SPIN_TIMEOUT)
        out = p.stdout
    except subprocess.TimeoutExpired:
        return {'tag': tag, 'ok': False, 'error': 'spin/pan timeout', 'out': ''}
    r = {'tag': tag, 'ok': True, 'secs': round(time.time() - t0, 1), 'out': out[-3000:]}
    m = re.search(r'errors:\s*(\d+)', out)
    ms = re.search(r'^\s*(\d+) states, stored', out, re.M)
    mt = re.search(r'^\s*(\d+) transitions \(', out, re.M)
    md = re.search(r'depth reached (\d+)', out)
    if not (m and ms and mt and md):
        r['ok'] = False
        r['error'] = 'could not parse pan output'
        return r
    r.update(errors=int(m.group(1)), states=int(ms.group(1)), transitions=int(mt.group(1)), depth=int(md.group(1)))
    r['incomplete'] = 'max search depth too small' in out or 'out of memory' in out
    if r['errors']:
        ma = re.search(r'assertion violated \(?([\w_]+)', out)
        if ma:
            r['invariant'] = ma.group(1)
        elif 'invalid end state' in out:
            r['invariant'] = 'S5_no_deadlock'
        else:
            r['invariant'] = 'unknown'
    return r


def _py_job(job):
    X, M = _models()
    region, T, K, sched, limit = job
    prog = M.Program(region, T, K, sched)
    ex = M.Explorer(prog)
    try:
        res = ex.explore(limit=limit)
    except MemoryError:
        return None
    obs = {ex.observable(f)[:5] for f in res['finals']}
    return {'states': res['states'], 'transitions': res['transitions'], 'viol': M.viol_names(res['viol']),
            'observables': len(obs), 'finals': len(res['finals'])}


def layer1(ctx, regions, workdir):
    X, M = _models()
    tmpl = _template()
    if ctx.quick:
        configs = [(2, 2, 'static'), (2, 2, 'dynamic'), (3, 1, 'static')]
        big = []
        py_limit = 400000
    else:
        configs = [(2, 2, 'static'), (2, 2, 'dynamic'), (3, 1, 'static'), (3, 1, 'dynamic'), (2, 3, 'static'),
                   (2, 3, 'dynamic'), (3, 2, 'static')]
        big = [(3, 2, 'dynamic'), (4, 1, 'static')]        # flat protocols only (nested: > 2e7 states)
        py_limit = 3000000
    # group programs by skeleton: identical emitted protocol -> one model
    groups = {}
    for name, (reg, err) in regions.items():
        if reg is None:
            continue
        sk = X.skeleton(reg)
        proto = json.dumps({k: v for k, v in sk.items() if k != 'clauses'}, sort_keys=True)
        proto = re.sub(r'"clauses": \{.*?\}\}, ', '', proto)
        groups.setdefault(proto, []).append(name)
    jobs, pyjobs, meta = [], [], []
    for proto, names in groups.items():
        rep = names[0]
        reg = regions[rep][0]
        cfgs = list(configs)
        if not reg['labels'] and not reg['children']:
            cfgs = cfgs[:1]         # no trapped exit at all: nothing to interleave
        if not reg['children']:
            cfgs += big
        for (T, K, sched) in cfgs:
            try:
                prog = M.Program(reg, T, K, sched)
                text = M.render_promela(prog, tmpl)
            except Exception as e:
                ctx.violation('L1|model-build|%s' % type(e).__name__,
                              'cannot build the thread program for %s: %s' % (names, e),
                              {'layer': 1, 'prog': rep, 'T': T, 'K': K, 'sched': sched})
                continue
            tag = '%s_%d_%d_%s' % (rep, T, K, sched)
            jobs.append((os.path.join(workdir, tag), text, tag, T * K >= 6))
            meta.append((names, T, K, sched))
            pyjobs.append((reg, T, K, sched, py_limit if T * K <= 4 or (T, K, sched) == (2, 3, 'static') else 0))
    ctx.log('layer 1: %d distinct protocols, %d spin models' % (len(groups), len(jobs)))
    res = farm.pmap(_spin_job, jobs)
    pres = farm.pmap(_py_job, [j for j in pyjobs if j[4]])
    pit = iter(pres)
    tot = {'states': 0, 'transitions': 0, 'depth': 0, 'models': 0, 'py_states': 0, 'py_models': 0, 'py_agree': 0}
    table = []
    for r, (names, T, K, sched), pj in zip(res, meta, pyjobs):
        pr = next(pit) if pj[4] else None
        case = {'layer': 1, 'prog': names[0], 'T': T, 'K': K, 'sched': sched}
        if not r['ok']:
            ctx.violation('L1|spin-failed', 'spin run failed for %s: %s %s' % (r['tag'], r.get('error'), r['out'][-400:]), case)
            continue
        tot['models'] += 1
        tot['states'] += r['states']
        tot['transitions'] += r['transitions']
        tot['depth'] = max(tot['depth'], r['depth'])
        row = {'programs': names, 'T': T, 'K': K, 'sched': sched, 'states': r['states'],
               'transitions': r['transitions'], 'depth': r['depth'], 'errors': r['errors']}
        if r.get('incomplete'):
            ctx.violation('L1|spin-incomplete', 'pan search incomplete for %s' % r['tag'], case)
        if r['errors']:
            inv = r.get('invariant', 'unknown')
            row['invariant'] = inv
            ctx.violation('L1|%s' % inv.replace('ok_', ''),
                          'spin: invariant %s violated in the model extracted from the emitted C (programs %s, T=%d K=%d %s)'
                          % (inv, ','.join(names), T, K, sched), dict(case, invariant=inv))
        if pr is not None:
            tot['py_models'] += 1
            tot['py_states'] += pr['states']
            row['py'] = pr
            agree = bool(pr['viol']) == bool(r['errors'])
            tot['py_agree'] += agree
            if not agree:
                ctx.violation('L1|engines-disagree', 'spin (%d errors) and the Python explorer (%s) disagree on %s'
                              % (r['errors'], pr['viol'], r['tag']), case)
            elif pr['viol']:
                for v in pr['viol']:
                    ctx.violation('L1|' + v, 'explorer: %s violated in the extracted model (programs %s, T=%d K=%d %s)'
                                  % (v, ','.join(names), T, K, sched), dict(case, invariant=v))
        table.append(row)
    return tot, table, groups


# ============================================================================================ Layer 2
def leave_orders(T, K):
    seqs = [[t + T * k for k in range(K)] for t in range(T)]

    def rec(pos):
        if all(pos[t] == K for t in range(T)):
            yield []
            return
        for t in range(T):
            if pos[t] < K:
                p2 = list(pos)
                p2[t] += 1
                for rest in rec(p2):
                    yield [seqs[t][pos[t]]] + rest
    return list(rec([0] * T))


def assignments(alpha, n, max_nonnormal=2):
    out = []
    for a in itertools.product(alpha, repeat=n):
        if sum(1 for x in a if x != 'N') <= max_nonnormal:
            out.append(''.join(a))
    return out


def _plan_job(job):
    """All cases of one (program, T, K): plan scripts, dedupe, predict."""
    X, M = _models()
    region, pname, T, K = job
    prog = M.Program(region, T, K, 'static')
    n = T * K
    p = F.BY_NAME[pname]
    why_addr = ['b', 'a'] if p['par'] else ['a']
    cases = {}
    raw = 0
    for o in leave_orders(T, K):
        for a in assignments(p['outcomes'], n):
            raw += 1
            oc = [KN[x] for x in a]
            sc = M.plan_script(prog, oc, o)
            entered = sorted(e[2] for e in sc if e[0] == 'arr' and e[1] == 'E')
            key = (tuple(sc), tuple(a[j] for j in entered))
            if key in cases:
                cases[key]['raw'] += 1
                continue
            ex = M.Explorer(prog, outcome=oc, script=sc)
            res = ex.explore(limit=200000)
            pred = sorted({ex.observable(f)[:5] for f in res['finals']})
            cases[key] = dict(prog=pname, T=T, n=n, K=K, outcome=a, order=o, script=[list(e) for e in sc],
                              why_addr=why_addr, pred=pred, stall=res['deadlocks'], mstates=res['states'],
                              mtrans=res['transitions'], raw=1)
    return list(cases.values()), raw


def clause_info(region):
    """Which of s / lp / i are reduction / lastprivate in the (inner) prange of this program."""
    loop = region if region['kind'] == 'prange' else region['children'][0]
    fc = loop['for_clauses'] or {}
    pc = (region['par_clauses'] or {})
    red = {a.split(':')[1] for a in fc.get('reduction', []) + pc.get('reduction', [])}
    last = set(fc.get('lastprivate', []))
    first = set(fc.get('firstprivate', [])) | set(pc.get('firstprivate', [])) | set(pc.get('private', []))
    return {'s_red': '__pyx_v_s' in red, 'lp_last': '__pyx_v_lp' in last, 'i_last': '__pyx_v_i' in last,
            'lp_first': '__pyx_v_lp' in first, 'i_first': '__pyx_v_i' in first}


def expected_vars(p, ci, entered, n, T):
    """(s, lp, i) after the loop when it falls through; None = not predicted (racy under the extracted clauses)."""
    s = sum(j + 1 for j in entered) if ci['s_red'] else None
    owner = (n - 1) % T
    mine = [j for j in entered if j % T == owner]
    lastj = max(mine) if mine else None

    def lastpriv(is_last, is_first, init, f):
        if is_last:
            return f(lastj) if lastj is not None else init
        if is_first:
            return init
        return None
    lp = lastpriv(ci['lp_last'], ci['lp_first'], F.LP_INIT, lambda j: j * 10) if p['lp'] else F.LP_INIT
    i = lastpriv(ci['i_last'], ci['i_first'], F.I_INIT, lambda j: j)
    return s, lp, i


def judge(case, v, p, ci):
    """Compare one real run with the model prediction and the absolute oracles.  Returns list of (key, text)."""
    bad = []
    n, T = case['n'], case['T']
    rr = v['res']
    if rr[0] == 'exc':
        obs = ('error', None, rr[1])
    elif rr[0] == 'ok' and rr[1] >= 1000:
        obs = ('return', rr[1] - 1000, None)
    elif rr[0] == 'ok':
        obs = ('fall', None, None)
    else:
        obs = ('other', None, None)
        bad.append(('other-exception', 'unexpected exception escaped the region: %s' % (rr[1],)))
    if v['hung']:
        bad.append(('deadlock', 'region did not finish within the horizon'))
    if v['divergence']:
        bad.append(('divergence|wait', v['divergence']))
    if v['anomalies']:
        bad.append(('unexpected-body', '; '.join(v['anomalies'])))
    if v['alive']:
        bad.append(('leak', 'exception objects of iterations %s still alive after the region' % v['alive']))
    if v['raised'] and not (rr[0] == 'exc' and rr[1] in v['raised']):
        bad.append(('raise-lost', 'iterations %s raised but the region ended with %s' % (v['raised'], rr[:2])))
    if n >= T and v['nthreads'] != T and not v['hung'] and not v['anomalies']:
        bad.append(('harness|threads', 'OpenMP gave %d threads instead of %d' % (v['nthreads'], T)))
    if p['par']:
        els = tuple(sorted([1, t] for k, t in v['notes'] if k == 2))
    else:
        els = ((0, 0),) if (rr[0] == 'ok' and rr[5] == 1) else ()
    full = (obs[0], obs[1], obs[2], tuple(v['entered']), tuple(tuple(e) for e in els))
    pred = {(a, b, c, tuple(d), tuple(tuple(x) for x in e)) for a, b, c, d, e in case['pred']}
    if obs[0] != 'fall' and not p['par']:
        # the else flag is only observable through a variable read after falling through
        pred = {x[:4] + ((),) for x in pred}
        full = full[:4] + ((),)
    if not p['els']:
        pred = {x[:4] + ((),) for x in pred}
        full = full[:4] + ((),)
    if full not in pred and not bad:
        bad.append(('divergence|outcome', 'real outcome %r not in the model-predicted set %r' % (full, sorted(pred))))
    if obs[0] == 'fall' and not bad:
        es, elp, ei = expected_vars(p, ci, v['entered'], n, T)
        got = rr[2:5]
        for nm, e, g in zip(('reduction s', 'lastprivate lp', 'index i'), (es, elp, ei), got):
            if e is not None and e != g:
                bad.append(('divergence|vars', '%s = %r after the loop, model derives %r (entered %s)' % (nm, g, e, v['entered'])))
        if set(case['outcome'][j] for j in v['entered']) <= {'N'} and len(v['entered']) == n:
            seq = (sum(j + 1 for j in range(n)), (n - 1) * 10 if p['lp'] else F.LP_INIT, n - 1)
            if tuple(got) != seq or (p['els'] and not p['par'] and rr[5] != 1):
                bad.append(('seq-equiv', 'all-normal run gives (s, lp, i, else) = %r, sequential loop gives %r' % (rr[2:6], seq)))
    return bad, full


def _child_class(r):
    if r[0] == 'crash':
        return 'deadlock' if r[1] == -1 else 'crash'      # exit status 1 = the in-child watchdog fired
    return 'deadlock' if r[0] == 'timeout' else 'child-' + r[0]


def run_real(so, cases, horizon, procs=None):
    RP.HORIZON = horizon
    payload = [{k: c[k] for k in ('prog', 'T', 'n', 'outcome', 'script', 'why_addr')} for c in cases]
    return runner.run_cases(_child_case, payload, setup=_child_setup, setup_args=(so, FAM, horizon),
                            timeout=max(240, int(horizon * 12)), procs=procs)


def _child_setup(so, modname, horizon):
    RP.HORIZON = horizon
    return RP.child_setup(so, modname)


def _child_case(h, case):
    return RP.child_case(h, case)


def layer2(ctx, regions, so):
    if ctx.quick:
        plan = [(p['name'], 2, 2) for p in F.PROGRAMS if p.get('sched', 'static') == 'static']
        plan += [('all', 3, 1), ('par', 3, 1), ('brkret', 3, 1)]
    else:
        plan = [(p['name'], T, K) for p in F.PROGRAMS if p.get('sched', 'static') == 'static'
                for (T, K) in ((2, 2), (3, 1), (2, 3))]
        plan += [('all', 3, 2), ('par', 3, 2)]
    plan = [(nm, T, K) for nm, T, K in plan if regions.get(nm, (None,))[0] is not None]
    jobs = [(regions[nm][0], nm, T, K) for nm, T, K in plan]
    planned = farm.pmap(_plan_job, jobs)
    cases = []
    raw = 0
    for cs, r in planned:
        cases.extend(cs)
        raw += r
    order = sorted(range(len(cases)), key=lambda k: hashlib.sha1(('%d/%d' % (ctx.seed, k)).encode()).hexdigest())
    cases = [cases[k] for k in order]
    ctx.log('layer 2: %d raw (linearisation x outcome) cases -> %d distinct scripts' % (raw, len(cases)))
    stalls = [c for c in cases if c['stall']]
    for c in stalls[:3]:
        ctx.violation('L2|model-stall|%s' % c['prog'], 'in the model the replay script can block forever (outcome %s order %s)'
                      % (c['outcome'], c['order']), dict(layer=2, **{k: c[k] for k in ('prog', 'T', 'K', 'outcome', 'order')}))
    # canary stage: a tree whose emitted code crashes everywhere must not cost a child restart per case
    CAN = 64
    res = run_real(so, cases[:CAN], 5.0)
    ncrash = sum(1 for r in res if r[0] != 'ok')
    storm = ncrash * 4 >= max(4, len(res))
    if storm:
        ctx.notes.append('layer 2 cut short: %d of the first %d runs killed their child process' % (ncrash, len(res)))
        cases = cases[:CAN]
    else:
        res += run_real(so, cases[CAN:], 5.0)
    cis = {nm: clause_info(regions[nm][0]) for nm, _, _ in plan}
    stats = {'raw_cases': raw, 'scripts': len(cases), 'validated': 0, 'retried': 0, 'flaky': 0, 'storm': storm,
             'model_states': sum(c['mstates'] for c in cases), 'model_transitions': sum(c['mtrans'] for c in cases)}
    outcomes = set()
    suspects = []
    for c, r in zip(cases, res):
        if r[0] != 'ok':
            suspects.append((c, [(_child_class(r), 'child process: %s' % (r[1:],))]))
            continue
        bad, full = judge(c, r[1], F.BY_NAME[c['prog']], cis[c['prog']])
        outcomes.add((c['prog'],) + full[:3])
        if bad:
            suspects.append((c, bad))
        else:
            stats['validated'] += 1
    # "the same schedule must fail every time": re-run suspects twice with a long horizon, few at a time
    if suspects:
        ctx.log('layer 2: %d suspect runs, replaying twice with a 20 s horizon' % len(suspects))
        sus = suspects[:60]
        stats['retried'] = len(sus)
        again = [run_real(so, [c for c, _ in sus], 20.0, procs=4) for _ in range(2)]
        for k, (c, bad) in enumerate(sus):
            keys = [set(b[0] for b in bad)]
            texts = {b[0]: b[1] for b in bad}
            for rr in again:
                r = rr[k]
                if r[0] != 'ok':
                    kk = {_child_class(r)}
                    texts.setdefault(next(iter(kk)), 'child process: %s' % (r[1:],))
                else:
                    b2, _ = judge(c, r[1], F.BY_NAME[c['prog']], cis[c['prog']])
                    kk = set(b[0] for b in b2)
                    for b in b2:
                        texts.setdefault(b[0], b[1])
                keys.append(kk)
            common = keys[1] & keys[2]
            crashy = [x for x in ('crash', 'deadlock') if sum(x in s for s in keys) >= 2]
            if not common and not crashy:
                stats['flaky'] += 1
                stats['validated'] += 1 if not keys[1] and not keys[2] else 0
                ctx.notes.append('unreproduced: %s %s order %s first gave %s' % (c['prog'], c['outcome'], c['order'], sorted(keys[0])))
                continue
            for key in sorted(common | set(crashy)):
                ctx.violation('L2|%s|%s' % (key, c['prog'] if key.startswith('divergence') else '*'),
                              '%s T=%d outcome=%s leave-order=%s: %s' % (c['prog'], c['T'], c['outcome'], c['order'], texts.get(key)),
                              dict(layer=2, prog=c['prog'], T=c['T'], K=c['K'], outcome=c['outcome'], order=c['order']))
    stats['distinct_real_outcomes'] = len(outcomes)
    return stats, cases, sorted(outcomes)


# ============================================================================================ Layer 3
RANGES = [(0, 0, 1), (0, 1, 1), (0, 2, 1), (0, 7, 1), (0, 64, 1), (10, 0, -1), (7, -3, -2), (5, 2, 1), (0, 5, -1),
          (0, 20, 3), (2, 65, 3), (-5, 9, 4), (63, -1, -1)]
SEQO = 'g10seqo'
SEQN = 'g10seqn'


def _build_job(job):
    which, wd = job
    if which == 'fam':
        return farm.build(FAM, F.module_source(), wd, cflags=['-fopenmp'], ldflags=['-fopenmp'])
    if which == 'seqo':
        return farm.build(SEQO, F.seq_module_source(), wd, cflags=['-fopenmp'], ldflags=['-fopenmp'])
    return farm.build(SEQN, F.seq_module_source(), wd)


def _l3_setup(so_o, so_n):
    os.environ['OMP_WAIT_POLICY'] = 'passive'
    os.environ['OMP_DYNAMIC'] = 'false'
    os.environ.pop('OMP_NUM_THREADS', None)
    os.environ.pop('OMP_SCHEDULE', None)
    import ctypes
    mo = farm.load(so_o, SEQO)
    mn = farm.load(so_n, SEQN)
    gomp = ctypes.CDLL('libgomp.so.1')
    return mo, mn, gomp


def _l3_case(state, case):
    mo, mn, gomp = state
    kind, sched, chunked, rt, nth, chunk = case
    fn = F.seq_kernel_name(kind, sched, chunked)
    out = []
    if sched == 'runtime':
        gomp.omp_set_schedule({'static': 1, 'dynamic': 2, 'guided': 3}[rt], chunk)
    for (a, b, st) in RANGES:
        got = getattr(mo, fn)(a, b, st, nth, chunk if chunk else 1)
        ref = F.seq_reference(kind, a, b, st)
        seq = getattr(mn, fn)(a, b, st, nth, chunk if chunk else 1)
        out.append((repr(got) == repr(ref), repr(seq) == repr(ref), repr(got)[:300], repr(ref)[:300], repr(seq)[:300]))
    return out


def layer3(ctx, so_o, so_n, c_text):
    threads = [1, 2, 3, 16] if ctx.quick else list(range(1, 17))
    chunks = [1, 2, 7]
    cases = []
    for kind in F.SEQ_BODIES:
        for nth in threads:
            for sched in ('static', 'dynamic', 'guided'):
                cases.append((kind, sched, 0, None, nth, 0))
                for ch in chunks:
                    cases.append((kind, sched, 1, None, nth, ch))
            for rt in ('static', 'dynamic', 'guided'):
                for ch in [0] + chunks:
                    cases.append((kind, 'runtime', 0, rt, nth, ch))
    res = runner.run_cases(_l3_case, cases, setup=_l3_setup, setup_args=(so_o, so_n), timeout=600)
    evals = 0
    distinct = set()
    for c, r in zip(cases, res):
        kind, sched, chunked, rt, nth, chunk = c
        if r[0] != 'ok':
            ctx.violation('L3|%s|%s' % (kind, r[0]), 'child %s running %s' % (r[:2], c), dict(layer=3, case=list(c)))
            continue
        for (rng, (ok_o, ok_n, got, ref, seq)) in zip(RANGES, r[1]):
            evals += 1
            distinct.add((kind, rng, ref))
            if not ok_n:
                ctx.violation('L3|%s|noomp-build' % kind, 'non-OpenMP build of %s%r gives %s, CPython range gives %s'
                              % (kind, rng, seq, ref), dict(layer=3, case=list(c), range=list(rng)))
            if not ok_o:
                cls = 'empty' if len(range(*rng)) == 0 else 'nonempty'
                ctx.violation('L3|%s|%s|%s' % (kind, cls, 'index' if got.rstrip(')').split(', ')[-1] != ref.rstrip(')').split(', ')[-1] else 'value'),
                              '%s%r threads=%d schedule=%s%s chunk=%s: got %s, sequential %s'
                              % (kind, rng, nth, sched, '/' + rt if rt else '', chunk or 'none', got, ref),
                              dict(layer=3, case=list(c), range=list(rng)))
    return {'evaluations': evals, 'configs': len(cases), 'distinct_results': len(distinct)}


def l3_structural(ctx, c_text):
    X, M = _models()
    from Cython.Compiler import Naming
    n = 0
    for kind in F.SEQ_BODIES:
        for sched, chunked in F.SCHEDS:
            fn = F.seq_kernel_name(kind, sched, chunked)
            m = re.search(r'\b(__pyx_pf_\w*?%s)\(' % re.escape(fn), c_text)
            if not m:
                ctx.violation('L3|extract|missing', 'kernel %s not found in emitted C' % fn, dict(layer=3, kernel=fn))
                continue
            try:
                tops, _ = X.extract(c_text, m.group(1), Naming)
            except X.ExtractError as e:
                ctx.violation('L3|extract|error', 'extraction failed for %s: %s' % (fn, e), dict(layer=3, kernel=fn))
                continue
            for t in tops:
                n += 1
                for key, text in structural_findings(t):
                    ctx.violation('struct|%s' % key, '%s: %s' % (fn, text), dict(layer=3, kernel=fn, structural=key))
    return n


# ============================================================================================ run / replay
def run(ctx):
    X, M = _models()
    wd = ctx.workdir('c37')
    t0 = time.time()
    builds = farm.pmap(_build_job, [('fam', wd), ('seqo', wd), ('seqn', wd)])
    for b in builds:
        if not b.ok:
            ctx.violation('build|%s|%s' % (b.name, b.stage), 'family module does not build: %s' % b.errors[-800:],
                          dict(layer=0, module=b.name))
    fam, seqo, seqn = builds
    ctx.log('built 3 modules in %.1fs (cpu so far %.0fs)' % (time.time() - t0, _cpu()))
    cov = {'programs': len(F.PROGRAMS), 'modules_built': sum(b.ok for b in builds)}
    regions = {}
    if fam.ok:
        c_text = fam.c_text()
        regions = extract_family(c_text)
        for name, (reg, err) in regions.items():
            if reg is None:
                ctx.violation('extract|%s' % re.sub(r"[\d']+|__pyx\w+", '', err)[:60], 'program %s: %s' % (name, err),
                              dict(layer=1, prog=name, extract_error=err))
                continue
            for key, text in structural_findings(reg):
                ctx.violation('struct|%s' % key, 'program %s: %s' % (name, text), dict(layer=1, prog=name, structural=key))
        # ---- layer 1
        tot, table, groups = layer1(ctx, regions, os.path.join(wd, 'spin'))
        cov.update(states=tot['states'], transitions=tot['transitions'], max_depth=tot['depth'],
                   spin_models=tot['models'], distinct_protocols=len(groups),
                   py_explorer_models=tot['py_models'], py_explorer_states=tot['py_states'],
                   py_explorer_agrees=tot['py_agree'])
        cov['model_table'] = table[:40]
        ctx.log('layer 1 done: %d models, %d states, %d transitions (cpu so far %.0fs)' % (tot['models'], tot['states'], tot['transitions'], _cpu()))
        # ---- layer 2
        st2, cases, outcomes = layer2(ctx, regions, fam.so)
        cov.update(traces_validated_against_impl=st2['validated'], l2_raw_cases=st2['raw_cases'], l2_scripts=st2['scripts'],
                   l2_retried=st2['retried'], l2_unreproduced=st2['flaky'], l2_model_states=st2['model_states'],
                   distinct_outcomes=st2['distinct_real_outcomes'])
        if st2['storm']:
            cov['exhaustive_layer2'] = False
            cov['cap'] = 'layer 2 stopped after the canary stage (crash storm); layers 1 and 3 complete'
        cov['states'] += st2['model_states']
        cov['transitions'] += st2['model_transitions']
        cov['l2_outcome_classes'] = [list(o) for o in outcomes[:40]]
        ctx.log('layer 2 done: %d real runs validated, %d distinct outcomes (cpu so far %.0fs)' % (st2['validated'], len(outcomes), _cpu()))
        reach = {}
        for mark in ('__pyx_parallel_why', '__pyx_parallel_exc_type', '#pragma omp flush', '__Pyx_ErrFetchWithState',
                     '__Pyx_ErrRestoreWithState', 'lastprivate(', 'reduction(', '#pragma omp critical(__pyx_returning)'):
            reach[mark] = c_text.count(mark)
        cov['reach'] = reach
        cov['reach_gaps'] = [k for k, v in reach.items() if not v]
        sk = X.skeleton(regions['all'][0]) if regions.get('all', (None,))[0] else {}
        cov['samples'] = [{'extracted_skeleton_of_program_all': sk},
                          {'layer2_case': {k: cases[0][k] for k in ('prog', 'T', 'outcome', 'order', 'script', 'pred')}} if cases else {}]
    else:
        cov.update(states=1, transitions=1, traces_validated_against_impl=0, samples=['family build failed'])
    # ---- layer 3
    if seqo.ok and seqn.ok:
        nreg = l3_structural(ctx, seqo.c_text())
        st3 = layer3(ctx, seqo.so, seqn.so, None)
        cov.update(l3_evaluations=st3['evaluations'], l3_configs=st3['configs'], l3_distinct_results=st3['distinct_results'],
                   l3_regions_checked=nreg)
        ctx.log('layer 3 done: %d evaluations (cpu so far %.0fs)' % (st3['evaluations'], _cpu()))
    if cov.get('distinct_outcomes', 0) < 4 and fam.ok:
        ctx.notes.append('vacuous: fewer than 4 distinct real outcomes')
    cov['cpu_seconds'] = round(_cpu(), 1)
    cov['exhaustive'] = not cov.get('cap')
    return cov, ['sequentially consistent shared memory (OpenMP flush positions are only checked structurally)',
                 'the body between the entry and leave hooks touches only thread-private data, so entry gates may be released eagerly',
                 'libgomp gives exactly num_threads threads and static,1 assigns iteration j to thread j mod T (checked per run)',
                 'token model: one owned reference per raised exception object']


def replay(ctx, case):
    X, M = _models()
    wd = ctx.workdir('c37r')
    layer = case.get('layer')
    if layer == 3 and 'case' in case:
        b = farm.build_many([dict(name=SEQO, source=F.seq_module_source(), workdir=wd, cflags=['-fopenmp'], ldflags=['-fopenmp']),
                             dict(name=SEQN, source=F.seq_module_source(), workdir=wd)])
        if not (b[0].ok and b[1].ok):
            return 'build failed'
        c = tuple(case['case'])
        r = runner.run_cases(_l3_case, [c], setup=_l3_setup, setup_args=(b[0].so, b[1].so))[0]
        if r[0] != 'ok':
            return 'child %s' % (r[:2],)
        for rng, (ok_o, ok_n, got, ref, seq) in zip(RANGES, r[1]):
            if not ok_o or not ok_n:
                return '%s range %r: openmp %s, non-openmp %s, sequential %s' % (c, rng, got, seq, ref)
        return False
    if layer == 3:
        b = farm.build(SEQO, F.seq_module_source(), wd, cflags=['-fopenmp'], ldflags=['-fopenmp'])
        if not b.ok:
            return 'build failed'
        class _C:
            found = []
            def violation(self, key, what, case):
                self.found.append(what)
        c = _C()
        l3_structural(c, b.c_text())
        return '; '.join(c.found[:3]) if c.found else False
    fam = build_family(wd)
    if not fam.ok:
        return 'family module does not build: %s' % fam.errors[-300:]
    regions = extract_family(fam.c_text())
    reg, err = regions.get(case.get('prog'), (None, 'unknown program'))
    if reg is None:
        return 'extraction failed: %s' % err
    if 'structural' in case:
        f = [t for k, t in structural_findings(reg) if k == case['structural']]
        return f[0] if f else False
    if layer == 1:
        prog = M.Program(reg, case['T'], case['K'], case['sched'])
        r = _spin_job((os.path.join(wd, 'spin'), M.render_promela(prog, _template()), 'replay', True))
        if not r['ok']:
            return 'spin failed: %s' % r.get('error')
        return ('spin: %s violated (%d states)' % (r.get('invariant'), r['states'])) if r['errors'] else False
    if layer == 2:
        T, K = case['T'], case['K']
        cs, _ = _plan_job((reg, case['prog'], T, K))
        sel = None
        prog = M.Program(reg, T, K, 'static')
        sc = M.plan_script(prog, [KN[x] for x in case['outcome']], case['order'])
        for c in cs:
            if c['script'] == [list(e) for e in sc]:
                sel = c
                break
        if sel is None:
            return 'case not found'
        sel = dict(sel, outcome=case['outcome'])
        ci = clause_info(reg)
        for _ in range(2):
            r = run_real(fam.so, [sel], 20.0, procs=1)[0]
            if r[0] != 'ok':
                return 'child %s' % (r[:2],)
            bad, _ = judge(sel, r[1], F.BY_NAME[case['prog']], ci)
            if bad:
                return '; '.join('%s: %s' % b for b in bad)
        return False
    return 'unknown case'
