"""C04 - overflowcheck reports exactly the overflowing C arithmetic.

Programs: every operator of the property's list {+, -, *, unary -, <<, //, /} on every integer C type as
var o var, var o const, const o var (literal and typed <T> constants) plus nested side-effect-free expressions
(the complete depth-2 family over {+,-,*,<<}: (a i b) o c, a o (b i c), (a*b) o (c i d), (a i b) o (c*d) for all
operators i, o - every operator in every position, i.e. also evaluated after a child/sibling that already overflowed -
plus (a+b)*(c-d), -(a*b), (a*b)//c, a+b*<T>3) and one expression with an impure leaf (a*b + noisy(c*d)), compiled as sweep functions with overflowcheck=True, overflowcheck.fold in {True, False},
in two C configurations (compiler overflow builtins; the manual #else branch of Overflow.c, selected with
-D__ibmxl__ -D__INTEL_COMPILER=1700).  Inputs: all 65536 operand pairs for 8-bit types, all pairs of the
boundary grid for 16/32/64-bit types, all triples/quadruples of the reduced grid for nested expressions.
Oracle (exact Python integers): every operator node has result type T by the promotion model; if any node's exact
result does not fit its T the call must raise (returning a value = wrapped result = violation, being killed =
violation); otherwise it must return the exact value, or raise OverflowError (tolerated, counted as spurious).
"""
from props import _g3_cint as g

LEVEL = 'exploration'
ENGINE = 'E2 diffexplore'
TECHNIQUE = 'exhaustive (operator x operand form x C type x fold x C config) programs x complete operand alphabets, compiled sweep vs exact-integer model with per-node result types'
LEVEL_TEXT = ('Every operator of {+, -, *, unary -, <<, //, /} x operand form (var o var, var o const, const o var, the complete '
              'depth-2 family over {+,-,*,<<} with every operator in outer / left-child / right-child position, 5 further nested '
              'shapes incl. one impure leaf) x integer C type (10 standard types + mixed pairs) is compiled with '
              'overflowcheck=True, fold on/off, with compiler overflow builtins and with the manual branch of Overflow.c, and run '
              'on all 65536 pairs (8-bit), all pairs of the boundary grid (16/32/64-bit) and all triples/quadruples of the reduced '
              'grid (nested).  Exact-integer model: a result that does not fit its node type must raise; a fitting result must be '
              'returned exactly or raise OverflowError (spurious, counted); a killed process is attributed to its operands.')
LEVEL_NOTE = ('16/32/64-bit operands are boundary grids.  Results computed from operands that do not fit the promoted node type '
              '(mixed signedness conversions) are not judged.  "/" is C-integer division only with language_level=2, which is how it '
              'is compiled here.  a // <T>0 (typed constant zero divisor) is left to C03.  Spurious OverflowError is tolerated as the property says.  '
              'The manual (#else) branch of Overflow.c is exercised in situ (selected by -D__ibmxl__ -D__INTEL_COMPILER=1700) for the '
              'types Cython instantiates (int and wider); the stand-alone 8/16-bit instantiation of the template proposed in the design '
              'is left out (never occurs in generated code); in the quick tier the manual branch runs + - * and the nested shapes only.  '
              'Trusted: the exact-integer model, gcc, LP64.')

JUDGE = 'props.C04_overflowcheck:judge'

BIN = ['+', '-', '*', '<<', '//', '/']
MIXED = [('int', 'uint'), ('uint', 'int'), ('long', 'ulong'), ('int', 'long'), ('short', 'int'), ('schar', 'uchar'),
         ('uint', 'long'), ('ssize_t', 'ssize_t'), ('size_t', 'size_t'), ('longlong', 'ulong')]


# ------------------------------------------------------------------------------ expression trees (JSON-able lists)
def V(n): return ['v', n]
def K(text, cast=None): return ['k', text, cast]
def B(op, l, r): return [op, l, r]
def N(x): return ['neg', x]
def CALL(x, tkey): return ['call', x, tkey]


def ctext(v):
    if -2**31 <= v < 2**31:
        return str(v)
    if v == -2**63:
        return '(-9223372036854775807LL - 1)'
    if v < 2**63:
        return '%dLL' % v
    return '%dULL' % v


def src(n):
    k = n[0]
    if k == 'v':
        return n[1]
    if k == 'k':
        return '<%s>(%s)' % (g.TYPES[n[2]].decl, n[1]) if n[2] else '(%s)' % n[1]
    if k == 'neg':
        return '(-%s)' % src(n[1])
    if k == 'call':
        return 'noisy_%s(%s)' % (n[2], src(n[1]))
    return '(%s %s %s)' % (src(n[1]), k, src(n[2]))


class _Zero(Exception):
    pass


class St:
    __slots__ = ('events', 'conv', 'calls', 'arg_ovf')

    def __init__(self):
        self.events, self.conv, self.calls, self.arg_ovf = [], False, 0, False


def _kval(text):
    t = text.strip()
    if t.startswith('('):
        return eval(t.replace('LL', '').replace('U', ''))
    return g.literal_value(t)


def ev(n, env, vt, st):
    """Exact evaluation; returns (value as the C code holds it, node type).  Records every node whose exact result
    does not fit its type in st.events as (op, T, operands)."""
    k = n[0]
    if k == 'v':
        return env[n[1]], g.TYPES[vt[n[1]]]
    if k == 'k':
        if n[2]:
            return _kval(n[1]), g.TYPES[n[2]]
        return g.literal_value(n[1]), g.literal_type(n[1])
    if k == 'call':
        before = len(st.events)
        x, tx = ev(n[1], env, vt, st)
        if len(st.events) > before:
            st.arg_ovf = True
        st.calls += 1
        T = g.TYPES[n[2]]
        if not T.fits(x):           # narrowing conversion of the argument (8/16-bit parameter): not arithmetic
            st.conv = True
            x = T.wrap(x)
        return x, T
    if k == 'neg':
        x, tx = ev(n[1], env, vt, st)
        T = g.promote(tx)
        R = -x
        if not T.fits(R):
            st.events.append(('neg', T, (x,)))
            R = T.wrap(R)
        return R, T
    l, tl = ev(n[1], env, vt, st)
    r, tr = ev(n[2], env, vt, st)
    T = g.promote(tl, tr)
    if not (T.fits(l) and T.fits(r)):
        st.conv = True
        l, r = T.wrap(l), T.wrap(r)
    if k == '+':
        R = l + r
    elif k == '-':
        R = l - r
    elif k == '*':
        R = l * r
    elif k == '<<':
        if r < 0:
            R = None
        elif r > 130:
            R = 0 if l == 0 else None
        else:
            R = l << r
    else:
        if r == 0:
            raise _Zero()
        R = l // r
    if R is None or not T.fits(R):
        st.events.append((k, T, (l, r)))
        R = 0 if R is None else T.wrap(R)
    return R, T


def expect(tag, t):
    """-> (st, R or None, zero) for one operand tuple."""
    vt = dict(tag['vars'])
    env = {name: val for (name, _), val in zip(tag['vars'], t)}
    st = St()
    zero = False
    R = None
    try:
        R, T = ev(tag['tree'], env, vt, st)
    except _Zero:
        zero = True
    return st, R, zero


def _evkey(ev_):
    """Normalised description of the first node whose exact result does not fit: operator, result type, operand
    classes.  Unary minus has no per-type helper (it is simply not checked): keyed by signedness only."""
    op, T, operands = ev_
    if op == 'neg':
        return 'neg|%s|a:%s' % ('signed' if T.signed else 'unsigned', 'MIN' if T.signed else 'nonzero')
    names = 'ab'
    return '%s|T=%s|%s' % (op, T.decl, ','.join('%s:%s' % (names[i], g.vclass(x, T)) for i, x in enumerate(operands)))


def judge(tag, tuples, got):
    v = g.Verdict()
    ident = tag['id']
    impure = tag.get('impure')
    for t, r in zip(tuples, got):
        v.evals += 1
        st, R, zero = expect(tag, t)
        calls = None
        if impure:
            r, calls = r
        if st.conv:
            v.count('operand_converted_not_judged')
            continue
        if st.events or zero:
            ok = set()
            if st.events:
                ok.add('OverflowError')
            if zero:
                ok.add('ZeroDivisionError')
            exp = '|'.join(sorted(ok))
            v.outcomes.add(hash((ident, exp)))
            v.count('must_raise')
            if not isinstance(r, str):
                first = st.events[0] if st.events else ('//', g.TYPES['int'], (0, 0))
                v.bad(t, exp, r, 'unchecked|%s|wrapped' % _evkey(first) if st.events else 'missing-exc:ZeroDivisionError')
            elif r not in ok:
                v.bad(t, exp, r, 'exc-type:%s->%s' % (exp, r))
            elif impure and st.arg_ovf and calls != 0:
                v.bad(t, 'no call after inner overflow', (r, calls), 'wrapped-value-passed-to-call')
            continue
        v.outcomes.add(hash((ident, R)))
        if isinstance(r, str):
            if r == 'OverflowError':
                v.count('spurious')
                v.count('spurious:' + tag['shape'])
            else:
                v.bad(t, R, r, 'extra-exc:' + r)
        elif r != R or type(r) is not int:
            v.bad(t, R, r, 'value')
        else:
            v.count('exact')
    return v.pack()


def _inclasses(tag, inp):
    vt = dict(tag['vars'])
    return ','.join('%s:%s' % (name, g.vclass(val, g.TYPES[tk])) for (name, tk), val in zip(tag['vars'], inp))


def keyfn(tag, inp, exp, got, div):
    if div.startswith('unchecked|'):
        return div                       # first unchecked node: op | type | operand classes (program independent)
    return '%s|%s|%s|%s' % (tag['shape'], '/'.join(tk for _, tk in tag['vars']), _inclasses(tag, inp), div)


def crashfn(tag, inp):
    st, R, zero = expect(tag, inp)
    if st.events:
        return 'unchecked|%s|crash' % _evkey(st.events[0])
    return '%s|%s|%s|crash' % (tag['shape'], '/'.join(tk for _, tk in tag['vars']), _inclasses(tag, inp))


# ------------------------------------------------------------------------------ program families
def programs(tier):
    """-> list of dict(shape, tree, vars, small, impure, lang, folds)"""
    P = []
    quick = tier == 'quick'

    def add(shape, tree, vars_, small=False, impure=False, folds=(True,), core=False, depth2=False):
        lang = 2 if '/' in repr(tree).replace('//', '') else 3
        P.append(dict(shape=shape, tree=tree, vars=[list(x) for x in vars_], small=small, impure=impure, lang=lang,
                      folds=folds, core=core, depth2=depth2))

    both = (True, False)
    a, b, c, d = V('a'), V('b'), V('c'), V('d')
    # var o var, homogeneous and mixed
    pairs = [(k, k) for k in g.TEN] + MIXED
    for ka, kb in pairs:
        for op in BIN:
            add('a%sb' % op, B(op, a, b), [('a', ka), ('b', kb)], folds=(True,) if quick else both,
                core=op in ('+', '-', '*') and ka == kb)
    # unary minus
    for k in g.TEN + ['ssize_t', 'size_t']:
        add('-a', N(a), [('a', k)])
    # var o const, const o var
    ctypes = ['schar', 'short', 'int', 'uint', 'long', 'ulong', 'longlong', 'ulonglong'] if quick else g.TEN + ['ssize_t']
    for k in ctypes:
        T = g.TYPES[k]
        lits = ['1', '-1', '2', '3'] if quick else ['1', '-1', '2', '3', '-3', '7', '0', '2147483647', '-2147483648']
        cvals = [0, 2, T.hi, T.hi // 2 + 1] + ([-1, -2, T.lo] if T.signed else []) + ([] if quick else [1, 3, T.hi - 1])
        consts = [K(x) for x in lits] + [K(ctext(x), k) for x in cvals]
        for op in ['+', '-', '*', '<<', '//']:
            for kn in consts:
                if op == '<<' and kn[2] is None and kn[1] not in ('1', '2', '3', '7'):
                    continue
                nm = kn[1] if kn[2] is None else '<T>%s' % kn[1]
                if not (op == '//' and kn[2] and kn[1] == '0'):     # a // <T>0: missing zero check, reported by C03
                    add('a%s%s' % (op, nm), B(op, a, kn), [('a', k)], core=op in '+*')
                add('%s%sa' % (nm, op), B(op, kn, a), [('a', k)], core=op in '+*')
    # nested
    ntypes = ['schar', 'short', 'int', 'uint', 'long', 'ulong'] if quick else g.TEN
    # complete depth-2 family over {+, -, *, <<}: every operator in every position (outer / left child / right child),
    # so that every checked helper is also evaluated AFTER a child or sibling that already overflowed (the shared
    # overflow bit of a folded expression must be OR-ed, never assigned) and before one that overflows later
    dtypes = ['int', 'long'] if quick else ['int', 'uint', 'long', 'ulong', 'longlong', 'short']
    OPS4 = ['+', '-', '*', '<<']
    for k in dtypes:
        three = [('a', k), ('b', k), ('c', k)]
        four = three + [('d', k)]
        for o in OPS4:
            for i in OPS4:
                add('(a%sb)%sc' % (i, o), B(o, B(i, a, b), c), three, small=True, folds=both, core=True, depth2=True)
                add('a%s(b%sc)' % (o, i), B(o, a, B(i, b, c)), three, small=True, folds=both, core=True, depth2=True)
                add('(a*b)%s(c%sd)' % (o, i), B(o, B('*', a, b), B(i, c, d)), four, small=2, folds=both, core=True,
                    depth2=True)
                if i != '*':
                    add('(a%sb)%s(c*d)' % (i, o), B(o, B(i, a, b), B('*', c, d)), four, small=2, folds=both, core=True,
                        depth2=True)
    for k in ntypes:
        three = [('a', k), ('b', k), ('c', k)]
        four = three + [('d', k)]
        if k not in dtypes:     # (for dtypes these four are members of the depth-2 family above)
            add('a*b+c', B('+', B('*', a, b), c), three, small=True, folds=both, core=True)
            add('a*b*c', B('*', B('*', a, b), c), three, small=True, folds=both, core=True)
            add('(a<<b)+c', B('+', B('<<', a, b), c), three, small=True, folds=both, core=True)
            add('a*b-c*d', B('-', B('*', a, b), B('*', c, d)), four, small=2, folds=both, core=True)
        add('(a+b)*(c-d)', B('*', B('+', a, b), B('-', c, d)), four, small=2, folds=both, core=True)
        add('-(a*b)', N(B('*', a, b)), [('a', k), ('b', k)], folds=both, core=True)
        add('(a*b)//c', B('//', B('*', a, b), c), three, small=True, folds=both, core=True)
        add('a+b*<T>3', B('+', a, B('*', b, K('3', k))), [('a', k), ('b', k)], folds=both, core=True)
        add('a*b+noisy(c*d)', B('+', B('*', a, b), CALL(B('*', c, d), k)), four, small=2, impure=True, folds=both, core=True)
    return P


PRELUDE = 'cdef int calls = 0\n' + ''.join(
    'cdef %s noisy_%s(%s x):\n    global calls\n    calls += 1\n    return x\n' % (t.decl, k, t.decl)
    for k, t in g.TYPES.items())

CONFIGS = [('builtin', ()), ('manual', ('-D__ibmxl__', '-D__INTEL_COMPILER=1700'))]


def modules(tier):
    P = programs(tier)
    mods = []
    for cname, cflags in CONFIGS:
        for fold in (True, False):
            for lang in (3, 2):
                fns = []
                for i, p in enumerate(P):
                    if p['lang'] != lang or fold not in p['folds']:
                        continue
                    if cname == 'manual' and tier == 'quick' and (not p['core'] or (p['depth2'] and not fold)):
                        continue
                    name = 'f%d' % i
                    tag = {'id': '%s/%s/fold%d/%s' % (p['shape'], '.'.join(tk for _, tk in p['vars']), fold, cname),
                           'shape': p['shape'], 'tree': p['tree'], 'vars': p['vars'], 'impure': p['impure']}
                    decls = [(n, g.TYPES[tk].decl) for n, tk in p['vars']]
                    gen = {'types': [tk for _, tk in p['vars']], 'small': p['small'], 'dense': tier == 'thorough' and not p['small']}
                    e = src(p['tree'])
                    if p['impure']:
                        s = g.sweep_func(name, decls, ['calls = 0'], '(%s, calls)' % e, '(type(e).__name__, calls)',
                                         head=['global calls'])
                    else:
                        s = g.sweep_func(name, decls, [], e)
                    fns.append(g.Fn(name, s, tag, gen))
                if fns:
                    mods += g.pack('c04%s_f%d_l%d' % (cname, fold, lang), fns, 60, prelude=PRELUDE,
                                   directives={'overflowcheck': True, 'overflowcheck.fold': fold}, cflags=cflags,
                                   options={'language_level': lang}, cfg='%s fold=%s language_level=%d' % (cname, fold, lang))
    return mods


REACH = ['__Pyx_add_int_checking_overflow', '__Pyx_sub_int_checking_overflow', '__Pyx_mul_int_checking_overflow',
         '__Pyx_mul_const_int_checking_overflow', '__Pyx_add_const_long_checking_overflow', '__Pyx_lshift_int_checking_overflow',
         '__Pyx_lshift_const_long_checking_overflow', '__Pyx_mul_unsigned_int_checking_overflow',
         '__Pyx_sub_unsigned_long_checking_overflow', '__Pyx_mul_long_long_checking_overflow',
         '__Pyx_add_unsigned_long_long_checking_overflow', '__Pyx_mul_Py_ssize_t_checking_overflow',
         '__Pyx_add_size_t_checking_overflow', '"value too large"', 'value too large to perform division',
         '__PYX_HAVE_BUILTIN_OVERFLOW']


def run(ctx):
    mods = modules(ctx.tier)
    built = g.build(ctx, mods, ctx.workdir('c04'))
    ctx.log('built %d/%d modules' % (len(built), len(mods)))
    reach = g.reach(built, REACH)
    gaps = sorted(k for k, n in reach.items() if not n)
    for k in gaps:
        ctx.log('WARN reach gap: %s' % k)
    st = g.run_sweeps(ctx, built, JUDGE, keyfn, crashfn, slice_size=8192)
    allf = [f for m in mods for f in m.fns]
    cnt = st['counters']
    cov = {
        'evaluations': st['evaluations'], 'distinct_nontrivial': st['distinct_outcomes'],
        'rule': 'complete product (program, fold, C config) x operand alphabet; counted once per distinct (function, expected '
                'outcome) pair where the expected outcome is the exact value or the set of admissible exceptions',
        'programs': st['functions'], 'modules_built': st['modules_built'], 'mismatches': st['mismatches'],
        'crashes': st['crashes'], 'must_raise_cases': cnt.get('must_raise', 0), 'exact_cases': cnt.get('exact', 0),
        'spurious_overflow_errors_tolerated': cnt.get('spurious', 0),
        'spurious_by_shape': {k[9:]: n for k, n in sorted(cnt.items()) if k.startswith('spurious:')},
        'not_judged_operand_conversion': cnt.get('operand_converted_not_judged', 0),
        'crash_refinement_rounds': st['crash_refinement_rounds'], 'reach': reach, 'reach_gaps': gaps,
        'configs': sorted(set(m.cfg for m in mods)),
        'samples': [{'function': allf[0].src, 'operands': [127, 1]},
                    {'function': allf[len(allf) // 2].src, 'operands': list(g.expand(allf[len(allf) // 2].gen)[7])},
                    {'function': allf[-1].src, 'operands': list(g.expand(allf[-1].gen)[11])}],
        'exhaustive': not st['storm_skipped'], 'crash_storms': st['storms'],
        'not_run_after_crash_storm': st['storm_skipped'], 'refinement_forks': st['refinement_forks'],
    }
    if st['storm_skipped']:
        cov['cap'] = ('crash storm: after %d crashes with one normalised key in a slice (%d in the run) the rest of that slice '
                      'is not run' % (g.STORM_PER_SLICE, g.STORM_PER_KEY))
    return cov, ['16/32/64-bit operand values outside the boundary grids are not covered',
                 'the exact-integer model with per-node promotion is trusted']


def replay(ctx, case):
    return g.replay(ctx, case)
