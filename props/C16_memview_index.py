"""C16 - typed memoryview indexing and slicing give NumPy's elements, shape and strides.

Enumerated (complete products, no sampling):
  arrays   int32 NumPy arrays, 1-D extents {0,1,2,3,5} x layouts {C, strided a[::2], reversed a[::-1],
           reversed+strided a[::-2]}; 2-D extents {0,1,2,3}^2 (thorough adds 5) x layouts {C, Fortran,
           strided, reversed, transposed-strided} (quick: 2 layouts per path, see LEVEL_TEXT); thorough: 3-D extents
           {0,1,2}^3 and a double dtype.
  indices  per dimension of extent n: every integer in [-2n-1, 2n+1] and every slice(start, stop, step),
           start/stop in {None} U [-2n-1, 2n+1], step in {None,-3,-2,-1,1,2,3,0} (complete for 1-D); for
           2-D/3-D the per-dimension *class* alphabet (start/stop in {None,-2n-1,-n-1,-n,-n+1,-1,0,1,n-1,n,
           n+1,2n+1}, step in {None,-2,-1,1,2,0}, all integers) in full product; Ellipsis / None (newaxis) at
           every position of the index.
  paths    rt  = typed view, run-time Py_ssize_t indices, one compiled function per (have_start, have_stop,
                 have_step) mask combination  (declarations int[:], int[::1], int[:, :], int[:, ::1], int[::1, :]);
           ct  = typed view, indices as compile-time constants, one compiled function per index text
                 (complete for |c| <= 5 quick / 7 thorough);
           obj = the Python-level memoryview object, mv[index_built_at_run_time].
Oracle: NumPy.  np.asarray(view[idx]) must equal arr[idx] in values, .shape and .strides (array elements are
pairwise distinct, so values+shape+strides also fix the data pointer); IndexError / ValueError types.
"""
import itertools, os, sys, hashlib
import numpy as np
from vlib import farm, runner

LEVEL = 'exploration'
ENGINE = 'E2 diffexplore'
TECHNIQUE = 'exhaustive product (array extent x layout) x complete per-dimension index/slice alphabet x 3 code paths, compiled typed memoryviews vs NumPy'
LEVEL_TEXT = ('Every int32 array of 1-2 dims (3 thorough) with extents {0,1,2,3,5} in C/Fortran/strided/reversed/transposed '
              'layout is indexed with every integer in [-2n-1,2n+1] and every slice (start/stop in None U [-2n-1,2n+1], step in '
              '{None,-3..3,0}) - complete for 1-D; for 2-D/3-D the full product of per-dimension boundary-class alphabets (start/stop '
              'in {None,-2n-1,-n-1,-n,-1,0,n-1,n,n+1} (+{-n+1,1,2n+1} thorough), step in {None,-2,-1,1,2,0}, all integers) - with '
              'Ellipsis/None at every position, through three paths: typed view with run-time Py_ssize_t indices (one compiled '
              'function per have_start/stop/step mask combination), typed view with compile-time constant indices (complete for '
              '|c|<=5, thorough 7), and the Python-level memoryview object with a run-time built index; values, shape, strides and '
              'IndexError/ValueError must equal NumPy.  Quick tier, 2-D: typed path on layouts C and transposed-strided for '
              'extents {0,1,2,3}^2+(5,1)+(1,5), object path on reversed and strided and the contiguous declarations int[:, ::1] / '
              'int[::1, :] on extents {0,2,3}^2+(1,1); thorough: all 5 layouts x extents {0,1,2,3,5}^2 on every path, 3-D, double.')
LEVEL_NOTE = ('Bounded extents (<=5) and dims (<=3); 2-D/3-D use the boundary-class alphabet per dimension, not every integer. '
              'Removed as by-design: None (newaxis) on the memoryview *object* path (TypeError by design, checked as such), '
              'index tuples with more integer/slice items than dimensions and with several Ellipsis (NumPy-specific errors), '
              'index tuples that contain both an out-of-range integer and a zero step (which error wins is unspecified), '
              'the stride reported for a result axis of extent 0 or 1 and all strides when the source array is empty, boundscheck=False / wraparound=False code.  Indirect (suboffset) dimensions are not covered. Trusted: NumPy, gcc.')

STEPS_FULL = (None, -3, -2, -1, 1, 2, 3, 0)
STEPS_CLASS = (None, -2, -1, 1, 2, 0)
REACH = ['__pyx_memoryview_slice_memviewslice', '__pyx_memview_slice', '_unellipsify', 'Index out of bounds (axis',
         '__pyx_pybuffer_index', '__Pyx_is_valid_index']


# ------------------------------------------------------------------------------------------ alphabets
def ints(n):
    return list(range(-2 * n - 1, 2 * n + 2))


def full_alpha(n):
    b = [None] + ints(n)
    return ints(n) + [slice(a, s, c) for a in b for s in b for c in STEPS_FULL]


RICH = False      # set per work unit from the tier (thorough = True)


def class_bounds(n):
    if RICH:
        return [None] + sorted({-2 * n - 1, -n - 1, -n, -n + 1, -1, 0, 1, n - 1, n, n + 1, 2 * n + 1})
    return [None] + sorted({-2 * n - 1, -n - 1, -n, -1, 0, n - 1, n, n + 1})


def class_alpha(n):
    b = class_bounds(n)
    return ints(n) + [slice(a, s, c) for a in b for s in b for c in STEPS_CLASS]


def mini_alpha(n):
    """ints + fully specified slices (mask 7) over a small boundary set: used for Ellipsis/None position templates."""
    st = sorted({-n - 1, 0, 1, n})
    sp = sorted({-n - 1, -1, n - 1, n + 1})
    return ints(n) + [slice(a, s, c) for a in st for s in sp for c in (-1, 2, 0)]


def alpha3(n):
    """3-D per-dimension alphabet: mini alphabet + one slice of each other compiled mask (s0, s3, s5)."""
    return mini_alpha(n) + [slice(None), slice(1, -1), slice(-n - 1, n), slice(-1, None, -2), slice(n, None, -1), slice(1, None, 2)]


def kind(item):
    if isinstance(item, slice):
        return 's%d' % ((item.start is not None) * 1 + (item.stop is not None) * 2 + (item.step is not None) * 4)
    return 'i'


def item_args(item):
    if isinstance(item, slice):
        return (item.start or 0, item.stop or 0, item.step or 0)
    return (item,)


def item_text(item):
    if item is Ellipsis:
        return '...'
    if item is None:
        return 'None'
    if isinstance(item, slice):
        f = lambda x: '' if x is None else str(x)
        t = '%s:%s' % (f(item.start), f(item.stop))
        if item.step is not None:
            t += ':%s' % item.step
        return t
    return str(item)


def item_err(item, n):
    if isinstance(item, slice):
        return 'V' if item.step == 0 else None
    return 'I' if not (-n <= item < n) else None


def item_class(item, n):
    if item is None:
        return 'newaxis'
    if item is Ellipsis:
        return '...'
    if isinstance(item, slice):
        st = item.step
        s = 'none' if st is None else ('0' if st == 0 else ('+' if st > 0 else '-'))
        given = [x for x in (item.start, item.stop) if x is not None]
        below = any(x < -n for x in given)
        above = any(x > n for x in given) or item.start == n
        return 'slice(step%s%s%s)' % (s, ',below' if below else '', ',above' if above else '')
    if 0 <= item < n:
        return 'int(in)'
    if -n <= item < 0:
        return 'int(neg)'
    return 'int(below)' if item < 0 else 'int(above)'


def benign(cls):
    return cls in ('int(in)', 'slice(step+)', 'slice(stepnone)', 'slice(step-)', '...', 'newaxis')


# ------------------------------------------------------------------------------------------ arrays
LAYOUTS = {1: ('C', 'strided', 'reversed', 'rstrided'),
           2: ('C', 'F', 'strided', 'reversed', 'tstrided'),
           3: ('C', 'F', 'strided', 'mixed')}


def make_array(shape, layout, dtype='int32'):
    """The array handed to both sides.  Its .strides are made equal to what NumPy *exports* through the buffer
    protocol (NumPy recomputes the strides of contiguous arrays with extent-0/1 dimensions on export), so that
    NumPy's own result strides are derived from the same numbers the typed view sees."""
    a = _make_array(tuple(shape), layout, dtype)
    a = np.lib.stride_tricks.as_strided(a, a.shape, memoryview(a).strides) if a.ndim else a
    assert memoryview(a).strides == a.strides, (shape, layout)
    return a


def _make_array(shape, layout, dtype='int32'):
    nd = len(shape)
    dt = np.dtype(dtype)

    def fill(shp):
        a = np.arange(100, 100 + int(np.prod(shp, dtype=np.int64)), dtype=np.int64).astype(dt)
        return a.reshape(shp)
    if layout == 'C':
        return fill(shape)
    if layout == 'F':
        return np.asfortranarray(fill(shape))
    if layout == 'strided':
        mult = (2, 3, 2)[:nd]
        base = fill(tuple(max(1, s * m) for s, m in zip(shape, mult)))
        return base[tuple(slice(0, s * m, m) for s, m in zip(shape, mult))]
    if layout == 'reversed':
        return fill(shape)[(slice(None, None, -1),) * nd]
    if layout == 'rstrided':
        base = fill(tuple(max(1, 2 * s) for s in shape))
        return base[tuple(slice(None, None, -2) for s in shape)][tuple(slice(0, s) for s in shape)]
    if layout == 'tstrided':
        base = fill(tuple(max(1, 2 * s) for s in shape[::-1]))
        return base[tuple(slice(0, 2 * s, 2) for s in shape[::-1])].T
    if layout == 'mixed':
        perm = (0, 2, 1)
        pshape = tuple(shape[i] for i in perm)
        base = fill(tuple(max(1, 2 * s) for s in pshape))
        sl = [slice(0, 2 * s, 2) for s in pshape]
        r = base[tuple(sl)][::-1]
        return r.transpose(perm)
    raise ValueError(layout)


def array_specs(tier, ndim):
    if ndim == 1:
        ext = (0, 1, 2, 3, 5)
        return [((n,), l) for n in ext for l in LAYOUTS[1]]
    if ndim == 2:
        ext = (0, 1, 2, 3) if tier == 'quick' else (0, 1, 2, 3, 5)
        shapes = [(a, b) for a in ext for b in ext]
        if tier == 'quick':
            shapes += [(5, 1), (1, 5)]
        else:
            shapes = [s for s in shapes if not (s[0] == 5 and s[1] == 5)] + [(5, 5)]
        return [(s, l) for s in shapes for l in LAYOUTS[2]]
    ext = (0, 1, 2)
    return [((a, b, c), l) for a in ext for b in ext for c in ext for l in LAYOUTS[3]]


def decl_accepts(decl, layout, shape):
    if decl in ('int[::1]', 'int[:, ::1]'):
        return layout == 'C'
    if decl == 'int[::1, :]':
        return layout == 'F'
    return True


# ------------------------------------------------------------------------------------------ source generation
HEADER = '# cython: boundscheck=True, wraparound=True\n'


def tmpl_name(tokens):
    return 'r_' + '_'.join(t.replace('...', 'E').replace('None', 'N') for t in tokens)


def tmpl_source(decl, tokens, name=None):
    args, parts = [], []
    k = 0
    for t in tokens:
        if t in ('...', 'None'):
            parts.append(t)
        elif t == 'i':
            args.append('a%d' % k); parts.append('a%d' % k); k += 1
        else:
            m = int(t[1:])
            a, b, c = 'a%d' % k, 'b%d' % k, 'c%d' % k
            args += [a, b, c]
            txt = '%s:%s' % (a if m & 1 else '', b if m & 2 else '')
            if m & 4:
                txt += ':' + c
            parts.append(txt); k += 1
    sig = ''.join(', Py_ssize_t %s' % a for a in args)
    return 'def %s(%s v%s):\n    return v[%s]\n' % (name or tmpl_name(tokens), decl, sig, ', '.join(parts))


KINDS = ['i'] + ['s%d' % m for m in range(8)]


def templates(ndim):
    """(main templates: one slot per dim, every kind combination), (extra templates with Ellipsis/None positions)."""
    main = [list(t) for t in itertools.product(KINDS, repeat=ndim)] if ndim <= 2 else \
           [list(t) for t in itertools.product(['i', 's0', 's3', 's5', 's7'], repeat=ndim)]
    X = ['i', 's7']
    extra = []
    if ndim == 1:
        extra = [['...'], ['...', 's7'], ['s7', '...'], ['None', 's7'], ['s7', 'None'], ['None', 'i'], ['i', 'None'],
                 ['None', '...'], ['...', 'None'], ['None', 's7', 'None'], ['...', 's7', 'None'], ['None', '...', 's7']]
    elif ndim == 2:
        extra = [['...'], ['None', '...'], ['...', 'None']]
        for x in X:
            extra += [[x], ['...', x], [x, '...'], ['None', '...', x], ['...', x, 'None'], [x, 'None'], ['None', x]]
        for x in X:
            for y in X:
                extra += [['None', x, y], [x, 'None', y], [x, y, 'None']]
                if (x, y) != ('i', 'i'):
                    extra += [[x, '...', y], ['...', x, y], [x, y, '...']]
    else:
        extra = [['...'], ['i'], ['s7'], ['i', 'i'], ['i', 's7'], ['...', 'i'], ['...', 's7'], ['i', '...'], ['s7', '...'],
                 ['i', '...', 's7'], ['s7', '...', 'i'], ['None', '...'], ['i', 'None', 's7', 'i'], ['s7', 'i', 'None', 's7']]
    return main, extra


def ez_templates():
    """Ellipsis standing for zero dimensions with every dimension integer-indexed (0-dim result)."""
    return {1: [['i', '...'], ['...', 'i']], 2: [['i', '...', 'i'], ['...', 'i', 'i'], ['i', 'i', '...']]}


def rt_module_source(decl, ndim):
    main, extra = templates(ndim)
    src = HEADER + 'def getobj(%s v):\n    return v\n' % decl
    for t in main + extra:
        src += tmpl_source(decl, t)
    return src


def ct_items_1d(K):
    b = [None] + list(range(-K, K + 1))
    return list(range(-K, K + 1)) + [slice(a, s, c) for a in b for s in b for c in STEPS_FULL]


CT2_ITEMS = [-3, -1, 0, 1, 2, slice(None, None, None), slice(1, None, None), slice(None, -1, None),
             slice(None, None, -1), slice(None, None, 2), slice(-1, None, -1), slice(None, -9, -1), slice(-9, None, -1),
             slice(1, 9, 2), slice(9, None, -2), slice(None, None, 0), slice(-9, 9, 3)]
CT2_SMALL = [-1, 0, 2, slice(1, None, None), slice(None, -9, -1), slice(-9, None, -2), slice(None, None, 0)]


def ct_index_list(ndim, K):
    """List of index tuples (items may be int/slice/None/Ellipsis) compiled as constants for `ndim`-D views."""
    if ndim == 1:
        out = [(it,) for it in ct_items_1d(K)]
        for it in CT2_ITEMS:
            if isinstance(it, slice):
                out += [(Ellipsis, it), (it, Ellipsis), (None, it), (it, None)]
            else:
                out += [(None, it), (it, None)]
        out += [(Ellipsis,), (None, Ellipsis), (Ellipsis, None)]
        return out
    out = [(x, y) for x in CT2_ITEMS for y in CT2_ITEMS]
    for x in CT2_SMALL:
        out += [(x,), (Ellipsis, x), (x, Ellipsis), (None, Ellipsis, x), (x, None)]
        for y in CT2_SMALL:
            out += [(None, x, y), (x, None, y), (x, y, None)]
            if isinstance(x, slice) or isinstance(y, slice):
                out += [(x, Ellipsis, y)]
    out += [(Ellipsis,), (None, Ellipsis), (Ellipsis, None)]
    return out


def ct_func_source(decl, name, idx):
    return 'def %s(%s v):\n    return v[%s]\n' % (name, decl, ', '.join(item_text(i) for i in idx))


CT_PER_MOD = 400


def plan_modules(tier):
    """Deterministic list of module descriptions: dict(name, kind, decl, ndim, source, [ct index slice])."""
    mods = []
    rt = [('int[:]', 1), ('int[::1]', 1), ('int[:, :]', 2), ('int[:, ::1]', 2), ('int[::1, :]', 2)]
    if tier == 'thorough':
        rt += [('double[:]', 1), ('int[:, :, :]', 3)]
    for i, (decl, nd) in enumerate(rt):
        mods.append(dict(name='c16rt%d' % i, kind='rt', decl=decl, ndim=nd, source=rt_module_source(decl, nd)))
    K = 5 if tier == 'quick' else 7
    cts = [('int[:]', 1), ('int[:, :]', 2), ('int[::1]', 1), ('int[:, ::1]', 2)]
    for j, (decl, nd) in enumerate(cts):
        idxs = ct_index_list(nd, K if decl == 'int[:]' else 2)
        for c in range(0, len(idxs), CT_PER_MOD):
            chunk = idxs[c:c + CT_PER_MOD]
            src = HEADER + ''.join(ct_func_source(decl, 'c%d' % (c + q), ix) for q, ix in enumerate(chunk))
            mods.append(dict(name='c16ct%d_%d' % (j, c // CT_PER_MOD), kind='ct', decl=decl, ndim=nd, source=src,
                             K=(K if decl == 'int[:]' else 2), lo=c, hi=c + len(chunk)))
    for nd, ts in ez_templates().items():
        decl = 'int[:]' if nd == 1 else 'int[:, :]'
        for q, t in enumerate(ts):
            mods.append(dict(name='c16ez%d_%d' % (nd, q), kind='ez', decl=decl, ndim=nd, tokens=t,
                             source=HEADER + tmpl_source(decl, t)))
    return mods


# ------------------------------------------------------------------------------------------ evaluation (child side)
_mods = {}


def _load(so, name):
    if so not in _mods:
        _mods[so] = farm.load(so, name)
    return _mods[so]


def np_outcome(arr, idx):
    try:
        e = arr[idx]
    except Exception as ex:
        return ('exc', type(ex).__name__)
    if isinstance(e, np.ndarray):
        return ('arr', e.shape, _strides(e) if arr.size else None, e.tolist())
    return ('val', e.item())


def got_outcome(f, args, nostrides=False):
    try:
        r = f(*args)
    except Exception as ex:
        return ('exc', type(ex).__name__)
    if isinstance(r, (int, float)):
        return ('val', r)
    try:
        a = np.asarray(r)
    except Exception as ex:
        return ('exc', 'asarray:' + type(ex).__name__)
    return ('arr', a.shape, None if nostrides else _strides(a), a.tolist())


def _strides(a):
    # Not compared: the stride of a result axis of extent 0 or 1 (no element is ever reached through it; NumPy resets the
    # step of an empty slice to 1 and exports different strides for extent-1 axes of one and the same array depending on
    # the contiguity flags of the request, e.g. for int[::1, :]), and all strides when the source array is empty.
    return tuple(None if n <= 1 else s for n, s in zip(a.shape, a.strides))


def divergence(exp, got):
    if exp[0] == 'exc' and got[0] == 'exc':
        return 'exc-type:%s->%s' % (exp[1], got[1])
    if exp[0] == 'exc':
        return 'missing-exc:' + exp[1]
    if got[0] == 'exc':
        return 'extra-exc:' + got[1]
    if exp[0] != got[0]:
        return 'kind:%s->%s' % (exp[0], got[0])
    if exp[0] == 'val':
        return 'value'
    if exp[1] != got[1]:
        if len(exp[1]) != len(got[1]):
            return 'ndim'
        d = [(a, b) for a, b in zip(exp[1], got[1]) if a != b]
        return 'shape:' + ','.join(sorted({'0->1' if (a, b) == (0, 1) else ('longer' if b > a else 'shorter') for a, b in d}))
    if exp[2] != got[2]:
        return 'strides'
    return 'values'


def expand(idx, ndim):
    """Index tuple -> list of (item, extent-dim or None) with Ellipsis expanded; None keeps dim None."""
    idx = idx if isinstance(idx, tuple) else (idx,)
    nreal = sum(1 for i in idx if i is not None and i is not Ellipsis)
    out, d = [], 0
    seen_e = False
    for it in idx:
        if it is Ellipsis:
            seen_e = True
            for _ in range(ndim - nreal):
                out.append((slice(None), d)); d += 1
        elif it is None:
            out.append((None, None))
        else:
            out.append((it, d)); d += 1
    while d < ndim:
        out.append((slice(None), d)); d += 1
    return out


def blame_key(path, decl, shape, idx, exp, got):
    ndim = len(shape)
    items = expand(idx, ndim)
    classes = [(item_class(it, shape[d]) if d is not None else 'newaxis') for it, d in items]
    div = divergence(exp, got)
    blamed = []
    if exp[0] == 'arr' and got[0] == 'arr' and len(exp[1]) == len(got[1]):
        axes = [k for k, (it, d) in enumerate(items) if it is None or isinstance(it, slice)]
        if len(axes) == len(exp[1]):
            for ax, k in enumerate(axes):
                if exp[1][ax] != got[1][ax] or (exp[2] is not None and exp[2][ax] != got[2][ax]):
                    blamed.append(classes[k])
    if not blamed:
        blamed = [c for c in classes if not benign(c)] or classes
    has_e = isinstance(idx, tuple) and any(i is Ellipsis for i in idx)
    has_n = isinstance(idx, tuple) and any(i is None for i in idx)
    tag = ','.join(sorted(set(blamed)))
    if div in ('kind:arr->val', 'kind:val->arr') or (not blamed):
        tag = ','.join(classes)
    extra = ('+ellipsis' if has_e and not div.startswith('shape') else '') + ('+newaxis' if has_n and not div.startswith('shape') else '')
    return '%s:%s|%s%s|%s' % (path, decl, tag, extra, div)


class Acc:
    def __init__(self):
        self.evals = 0
        self.outcomes = set()
        self.mism = []
        self.more = 0
        self.skipped = 0

    def check(self, path, decl, spec, arr, idx, fname, f, args, src=None):
        exp = np_outcome(arr, idx)
        got = got_outcome(f, args, not arr.size)
        self.evals += 1
        self.outcomes.add((path, exp[0], exp[1:3] if exp[0] == 'arr' else exp[1]))
        if exp != got:
            if len(self.mism) < 60:
                self.mism.append(dict(path=path, decl=decl, spec=spec, idx=idx_json(idx), fname=fname,
                                      exp=exp, got=got, key=blame_key(path, decl, spec[0], idx, exp, got), src=src))
            else:
                self.more += 1

    def result(self):
        return dict(evals=self.evals, outcomes=list(self.outcomes), mism=self.mism, more=self.more, skipped=self.skipped)


def idx_json(idx):
    def one(i):
        if i is Ellipsis:
            return '...'
        if i is None:
            return None
        if isinstance(i, slice):
            return ['s', i.start, i.stop, i.step]
        return int(i)
    if isinstance(idx, tuple):
        return ['t'] + [one(i) for i in idx]
    return one(idx)


def idx_unjson(j):
    def one(i):
        if i == '...':
            return Ellipsis
        if i is None:
            return None
        if isinstance(i, list):
            return slice(i[1], i[2], i[3])
        return i
    if isinstance(j, list) and j and j[0] == 't':
        return tuple(one(i) for i in j[1:])
    return one(j)


def build_idx(tokens, items):
    out, k = [], 0
    for t in tokens:
        if t == '...':
            out.append(Ellipsis)
        elif t == 'None':
            out.append(None)
        else:
            out.append(items[k]); k += 1
    return tuple(out)


def conflicting(items, exts):
    errs = {item_err(it, n) for it, n in zip(items, exts)}
    return 'I' in errs and 'V' in errs


def _rt_work(case):
    """All run-time-index evaluations of one (module, array, part)."""
    so, name, decl, spec, part, nparts, dtype = case
    mod = _load(so, name)
    shape, layout = spec
    ndim = len(shape)
    arr = make_array(shape, layout, dtype)
    acc = Acc()
    main, extra = templates(ndim)
    if ndim == 1:
        al = full_alpha(shape[0])
        for q, it in enumerate(al):
            if q % nparts != part:
                continue
            t = [kind(it)]
            fn = tmpl_name(t)
            acc.check('rt', decl, spec, arr, (it,), fn, getattr(mod, fn), (arr,) + item_args(it))
        if part == 0:
            mini = class_alpha(shape[0])
            for t in extra:
                fn = tmpl_name(t)
                f = getattr(mod, fn)
                slots = [x for x in t if x not in ('...', 'None')]
                if not slots:
                    acc.check('rt', decl, spec, arr, build_idx(t, ()), fn, f, (arr,))
                    continue
                for it in mini:
                    if kind(it) != slots[0]:
                        continue
                    acc.check('rt', decl, spec, arr, build_idx(t, (it,)), fn, f, (arr,) + item_args(it))
        return acc.result()
    alphas = [class_alpha(n) for n in shape] if ndim == 2 else [alpha3(n) for n in shape]
    names = {tuple(t): tmpl_name(t) for t in main}
    for q, x in enumerate(alphas[0]):
        if q % nparts != part:
            continue
        kx = kind(x)
        ax = item_args(x)
        for rest in itertools.product(*alphas[1:]):
            items = (x,) + rest
            if conflicting(items, shape):
                acc.skipped += 1
                continue
            t = (kx,) + tuple(kind(r) for r in rest)
            fn = names.get(t)
            if fn is None:
                continue
            args = (arr,) + ax
            for r in rest:
                args += item_args(r)
            acc.check('rt', decl, spec, arr, items, fn, getattr(mod, fn), args)
    if part == 0:
        minis = [mini_alpha(n) for n in shape]
        for t in extra:
            fn = tmpl_name(t)
            f = getattr(mod, fn)
            slots = [x for x in t if x not in ('...', 'None')]
            # which dimension does each slot index?  slots before an Ellipsis count from the left, after it from the right
            pos = []
            if '...' in t:
                e = t.index('...')
                left = [x for x in t[:e] if x not in ('None',)]
                right = [x for x in t[e + 1:] if x not in ('None',)]
                pos = list(range(len(left))) + list(range(ndim - len(right), ndim))
            else:
                pos = list(range(len(slots)))
            for items in itertools.product(*[[it for it in minis[d] if kind(it) == s] for s, d in zip(slots, pos)]):
                if conflicting(items, [shape[d] for d in pos]):
                    acc.skipped += 1
                    continue
                args = (arr,)
                for it in items:
                    args += item_args(it)
                acc.check('rt', decl, spec, arr, build_idx(t, items), fn, f, args)
    return acc.result()


def _ct_work(case):
    so, name, decl, ndim, K, lo, hi, specs, dtype = case
    mod = _load(so, name)
    idxs = ct_index_list(ndim, K)[lo:hi]
    acc = Acc()
    for spec in specs:
        shape, layout = spec
        arr = make_array(shape, layout, dtype)
        for q, idx in enumerate(idxs):
            real = [i for i in idx if i is not None and i is not Ellipsis]
            if Ellipsis in idx:
                e = idx.index(Ellipsis)
                nl = len([i for i in idx[:e] if i is not None])
                nr = len([i for i in idx[e + 1:] if i is not None])
                exts = list(shape[:nl]) + list(shape[ndim - nr:])
            else:
                exts = list(shape[:len(real)])
            if conflicting(real, exts):
                acc.skipped += 1
                continue
            fn = 'c%d' % (lo + q)
            acc.check('ct', decl, spec, arr, idx, fn, getattr(mod, fn), (arr,), src=ct_func_source(decl, fn, idx))
    return acc.result()


class IndexOnly:
    def __init__(self, v):
        self.v = v

    def __index__(self):
        return self.v


def _getitem(mv, idx):
    return mv[idx]


def _obj_work(case):
    so, name, decl, spec, part, nparts, dtype = case
    mod = _load(so, name)
    shape, layout = spec
    ndim = len(shape)
    arr = make_array(shape, layout, dtype)
    mv = mod.getobj(arr)
    acc = Acc()

    def chk(idx, real=None):
        acc.check('obj', decl, spec, arr, idx, None, _getitem, (mv, real if real is not None else idx))
    if ndim == 1:
        for q, it in enumerate(full_alpha(shape[0])):
            if q % nparts != part:
                continue
            chk(it)
            chk((it,))
            chk((it, Ellipsis))
            chk((Ellipsis, it))
            if not isinstance(it, slice):
                chk(it, IndexOnly(it))
                chk((it,), (np.int64(it),))
                chk((it,), (IndexOnly(it),))
            else:
                chk(it, slice(*[None if x is None else np.int64(x) for x in (it.start, it.stop, it.step)]))
        if part == 0:
            chk(Ellipsis)
            chk(())
            chk((Ellipsis,))
            # None is rejected by design on the object path: must be a clean TypeError
            for idx in (None, (None, 0), (slice(None), None)):
                got = got_outcome(_getitem, (mv, idx))
                acc.evals += 1
                if got != ('exc', 'TypeError'):
                    acc.mism.append(dict(path='obj', decl=decl, spec=spec, idx=idx_json(idx), fname=None, exp=('exc', 'TypeError'),
                                         got=got, key='obj:%s|newaxis-rejection|%s' % (decl, divergence(('exc', 'TypeError'), got)), src=None))
        return acc.result()
    alphas = [class_alpha(n) for n in shape] if ndim == 2 else [alpha3(n) for n in shape]
    for q, x in enumerate(alphas[0]):
        if q % nparts != part:
            continue
        for rest in itertools.product(*alphas[1:]):
            items = (x,) + rest
            if conflicting(items, shape):
                acc.skipped += 1
                continue
            chk(items)
        chk(x)
        chk((x,))
        chk((x, Ellipsis))
    if part == 0:
        for y in alphas[-1]:
            chk((Ellipsis, y))
        minis = [mini_alpha(n) for n in shape]
        for items in itertools.product(*minis):
            if conflicting(items, shape):
                continue
            for e in range(ndim + 1):
                chk(items[:e] + (Ellipsis,) + items[e:])
            for e in range(1, ndim):
                sub = items[:e] + (Ellipsis,) + items[e + 1:]
                if conflicting(items[:e] + items[e + 1:], shape[:e] + shape[e + 1:]):
                    continue
                chk(sub)
        chk(Ellipsis)
        chk(())
    return acc.result()


def _ez_work(case):
    so, name, decl, tokens, specs = case
    mod = _load(so, name)
    acc = Acc()
    fn = tmpl_name(tokens)
    f = getattr(mod, fn)
    for spec in specs:
        shape, layout = spec
        arr = make_array(shape, layout)
        for items in itertools.product(*[ints(n) for n in shape]):
            args = (arr,) + tuple(items)
            acc.check('rt', decl, spec, arr, build_idx(tokens, items), fn, f, args)
    return acc.result()


def _dispatch(case):
    global RICH
    RICH = case[2]
    return {'rt': _rt_work, 'ct': _ct_work, 'obj': _obj_work, 'ez': _ez_work}[case[0]](case[1])


# ------------------------------------------------------------------------------------------ parent side
def run(ctx):
    tier = ctx.tier
    wd = ctx.workdir('c16')
    plan = plan_modules(tier)
    only = os.environ.get('VERIF_C16_ONLY')      # development aid: restrict to module name prefixes (evidence then says exhaustive=False)
    if only:
        plan = [m for m in plan if m['name'].startswith(tuple(only.split(',')))]
    res = farm.build_many([dict(name=m['name'], source=m['source'], workdir=wd, ext='.pyx') for m in plan])
    built = []
    reach = {k: 0 for k in REACH}
    rejected = []
    for m, r in zip(plan, res):
        if r.ok:
            m['so'] = r.so
            built.append(m)
            txt = r.c_text()
            for k in REACH:
                if k in txt:
                    reach[k] += 1
        elif m['kind'] == 'ez' and r.stage == 'cython' and 'Compiler crash' not in r.errors:
            rejected.append((m['name'], r.errors[-300:]))
        else:
            crash = r.stage == 'internal' or 'Compiler crash' in r.errors
            what = 'internal compiler error' if crash else 'does not build (%s)' % r.stage
            r.stage = 'internal' if crash else r.stage
            tag = 'ellipsis-for-zero-dims,all-int' if m['kind'] == 'ez' else m['kind']
            ctx.violation('build-%s|%s:%s|%s' % (r.stage, m['kind'], m['decl'], tag),
                          '%s for %s: %s' % (what, m['source'][-200:] if m['kind'] == 'ez' else m['name'],
                                             r.errors.strip().splitlines()[-1] if r.errors.strip() else ''),
                          {'kind': 'build', 'source': m['source'], 'stage': r.stage, 'errors': r.errors[-3000:]})
    ctx.log('built %d/%d modules' % (len(built), len(plan)))
    cases, meta = [], []
    rich = tier == 'thorough'
    for m in built:
        dtype = 'float64' if m['decl'].startswith('double') else 'int32'
        specs = [s for s in array_specs(tier, m['ndim']) if decl_accepts(m['decl'], s[1], s[0])]
        generic = m['decl'] in ('int[:]', 'int[:, :]', 'int[:, :, :]', 'double[:]', 'double[:, :]')
        if m['kind'] == 'rt':
            for s in specs:
                # quick tier, 2-D: the typed path runs on 3 of the 5 layouts and the object path on 2 (all 5 thorough)
                small = 1 not in s[0] or s[0] == (1, 1)      # secondary families (quick): extents {0,2,3}^2 + (1,1)
                do_rt = rich or m['ndim'] != 2 or (generic and s[1] in ('C', 'tstrided')) or (not generic and small)
                do_obj = generic and (rich or m['ndim'] != 2 or (s[1] in ('reversed', 'strided') and small))
                big = int(np.prod([max(1, n) for n in s[0]]))
                nparts = 1 if m['ndim'] == 1 else (4 if big >= 6 else 1)
                for p in range(nparts):
                    if do_rt:
                        cases.append(('rt', (m['so'], m['name'], m['decl'], s, p, nparts, dtype), rich))
                        meta.append(m)
                    if do_obj:
                        cases.append(('obj', (m['so'], m['name'], m['decl'], s, p, nparts, dtype), rich))
                        meta.append(m)
        elif m['kind'] == 'ct':
            for i in range(0, len(specs), 10):
                cases.append(('ct', (m['so'], m['name'], m['decl'], m['ndim'], m['K'], m['lo'], m['hi'], specs[i:i + 10], dtype), rich))
                meta.append(m)
        else:
            cases.append(('ez', (m['so'], m['name'], m['decl'], m['tokens'], specs), rich))
            meta.append(m)
    order = list(range(len(cases)))
    if ctx.seed:
        import random
        random.Random(ctx.seed).shuffle(order)
    cases = [cases[i] for i in order]
    meta = [meta[i] for i in order]
    ctx.log('%d work units' % len(cases))
    results = runner.run_cases(_dispatch, cases, chunk=1, timeout=900, scratch=ctx.scratch)
    tot = dict(evals=0, more=0, skipped=0, crashes=0)
    outcomes = set()
    per_path = {}
    samples = []

    def report(mm, m):
        src = mm.get('src') or m['source']
        ctx.violation(mm['key'], '%s %s array%s %s, index [%s]: expected %s got %s' % (
            mm['path'], mm['decl'], tuple(mm['spec'][0]), mm['spec'][1],
            ', '.join(item_text(i) for i in (lambda x: x if isinstance(x, tuple) else (x,))(idx_unjson(mm['idx']))),
            _short(mm['exp']), _short(mm['got'])),
            {'kind': 'eval', 'path': mm['path'], 'decl': mm['decl'], 'spec': mm['spec'], 'idx': mm['idx'], 'fname': mm['fname'],
             'source': src, 'expected': mm['exp'], 'got': mm['got']})
    for c, m, r in zip(cases, meta, results):
        if r[0] == 'ok':
            v = r[1]
            tot['evals'] += v['evals']; tot['more'] += v['more']; tot['skipped'] += v['skipped']
            outcomes.update(v['outcomes'])
            per_path[c[0]] = per_path.get(c[0], 0) + v['evals']
            for mm in v['mism']:
                report(mm, m)
            tot['more'] += 0
        elif r[0] in ('crash', 'timeout'):
            tot['crashes'] += 1
            ctx.violation('%s:%s|%s' % (c[0], m['decl'], r[0]), 'work unit %s %s: %s %s; tail: %s' % (c[0], c[1][2:5], r[0], r[1], (r[2] or '')[-300:]),
                          {'kind': 'unit', 'case': [c[0], list(c[1][1:])], 'source': m['source']})
        else:
            ctx.violation('harness-exc|%s' % c[0], 'driver exception: %s' % r[1][-1500:], {'kind': 'harness', 'trace': r[1][-3000:]})
    gaps = sorted(k for k, v in reach.items() if not v)
    cov = {
        'evaluations': tot['evals'], 'distinct_nontrivial': len(outcomes),
        'rule': 'distinct (path, NumPy outcome) where the outcome is the result shape+strides, the scalar value or the exception type; '
                'indices giving the same shape/strides/exception collapse',
        'modules_built': len(built), 'programs': sum(m['source'].count('\ndef ') for m in built),
        'work_units': len(cases), 'evaluations_by_path': per_path, 'skipped_two_error_kinds': tot['skipped'],
        'mismatches_beyond_cap': tot['more'], 'crashes': tot['crashes'], 'reach': reach, 'reach_gaps': gaps,
        'rejected_templates': rejected,
        'samples': [{'path': 'rt', 'decl': 'int[:]', 'array': 'arange(5)[::-1]', 'function': tmpl_source('int[:]', ['s5']), 'args': [4, 0, -2]},
                    {'path': 'ct', 'function': ct_func_source('int[:, :]', 'c7', (slice(None, -9, -1), None, 2))},
                    {'path': 'obj', 'array': 'shape (3, 2) Fortran', 'index': 'mv[(slice(-4, None, -1), Ellipsis)]'}],
        'exhaustive': not only, 'cpu_s': round(_cpu(), 1),
    }
    return cov, ['extents <= 5, dims <= 3; 2-D/3-D per-dimension alphabets are the stated boundary-class sets']


def _cpu():
    import resource
    a, b = resource.getrusage(resource.RUSAGE_SELF), resource.getrusage(resource.RUSAGE_CHILDREN)
    return a.ru_utime + a.ru_stime + b.ru_utime + b.ru_stime


def _short(o):
    s = repr(o)
    return s if len(s) < 160 else s[:160] + '...'


def replay(ctx, case):
    if case.get('kind') == 'build':
        r = farm.build('c16replay', case['source'], ctx.workdir('replay'), ext='.pyx')
        return False if r.ok else 'still does not build (%s): %s' % (r.stage, r.errors[-400:])
    if case.get('kind') != 'eval':
        return 'not replayable generically'
    r = farm.build('c16replay', case['source'], ctx.workdir('replay'), ext='.pyx')
    if not r.ok:
        return 'does not build (%s): %s' % (r.stage, r.errors[-400:])
    res = runner.run_cases(_replay_one, [(r.so, case)], timeout=120, scratch=ctx.scratch)[0]
    if res[0] == 'ok':
        return res[1]
    return '%s: %r' % (res[0], res[1:])


def _replay_one(arg):
    so, case = arg
    mod = farm.load(so, 'c16replay')
    shape, layout = case['spec']
    dtype = 'float64' if case['decl'].startswith('double') else 'int32'
    arr = make_array(tuple(shape), layout, dtype)
    idx = idx_unjson(case['idx'])
    exp = np_outcome(arr, idx)
    if case['path'] == 'obj':
        got = got_outcome(_getitem, (mod.getobj(arr), idx), not arr.size)
    else:
        items = [i for i in (idx if isinstance(idx, tuple) else (idx,)) if i is not None and i is not Ellipsis]
        args = (arr,)
        if case['path'] == 'rt':
            for it in items:
                args += item_args(it)
        got = got_outcome(getattr(mod, case['fname']), args, not arr.size)
    if exp != got:
        return 'expected %s got %s' % (_short(exp), _short(got))
    return False
