"""C37 Layer 2: replay driver.  Runs in a forked child that loads the OpenMP-built family module; imposes a
script of gate releases / waits on REAL OpenMP threads through the `with gil` hooks of the loop body.

Script entries (produced by models.c37_model.plan_script from the extracted model):
  ('arr', 'E'|'L', j)        wait until iteration j arrived at its entry / leave gate
  ('rel', 'E'|'L', j)        open that gate
  ('why', r, slot, k, j)     wait until the exit-reason variable of region r (instance of the thread running
                             iteration j) holds k  -- observation only, through the address the body passed
"""
import os, sys, gc, time, threading, weakref, ctypes, faulthandler

HORIZON = 5.0
CODE = {'N': 0, 'B': 1, 'R': 2, 'X': 0}


class Boom(Exception):
    def __init__(self, it):
        Exception.__init__(self, it)
        self.it = it


class Harness:
    def __init__(self, mod):
        self.mod = mod
        mod.set_hooks(self.hook, self.note)
        self.lock = threading.Lock()
        self._null = open(os.devnull, 'w')

    def reset(self, n, outcome, script, why_addr):
        self.n = n
        self.outcome = outcome
        self.gate = {(k, j): threading.Event() for k in 'EL' for j in range(n)}
        self.arr = {(k, j): threading.Event() for k in 'EL' for j in range(n)}
        self.expected = {(e[1], e[2]) for e in script if e[0] == 'arr'}
        self.addr = {}
        self.log = []
        self.notes = []
        self.anomalies = []
        self.divergence = None
        self.hung = False
        self.draining = False
        self.registry = []
        self.tids = {}
        self.finished = threading.Event()
        self.why_addr = why_addr

    def drain(self):
        self.draining = True
        for g in self.gate.values():
            g.set()

    def _arrive(self, kind, i):
        with self.lock:
            self.log.append((kind, i))
            if (kind, i) not in self.expected and not self.draining:
                self.anomalies.append('unexpected arrival %s%d' % (kind, i))
                self.drain()
        self.arr[(kind, i)].set()
        if not self.gate[(kind, i)].wait(HORIZON):
            self.hung = True
            self.drain()

    def hook(self, phase, i, a, b):
        if phase == 0:
            self.addr[i] = (a, b)
            self.tids[i] = threading.get_ident()
            self._arrive('E', i)
            return CODE[self.outcome[i]]
        self._arrive('L', i)
        if self.outcome[i] == 'X':
            e = Boom(i)
            self.registry.append((i, weakref.ref(e)))
            raise e
        return 0

    def note(self, k, v):
        with self.lock:
            self.notes.append((k, v))

    def driver(self, script):
        for e in script:
            if self.draining:
                return
            if e[0] == 'rel':
                self.gate[(e[1], e[2])].set()
            elif e[0] == 'arr':
                if not self.arr[(e[1], e[2])].wait(HORIZON):
                    self.divergence = 'iteration %d did not arrive at gate %s within %.0f s' % (e[2], e[1], HORIZON)
                    self.drain()
                    return
            elif e[0] == 'why':
                _, r, slot, k, j = e
                which = self.why_addr[r]
                ad = self.addr.get(j, (0, 0))[0 if which == 'a' else 1]
                if not ad:
                    continue
                cell = ctypes.c_int.from_address(ad)
                dl = time.time() + HORIZON
                while cell.value != k:
                    if self.finished.is_set():
                        break
                    if time.time() > dl:
                        self.divergence = 'exit reason of region %d never became %d after releasing iteration %d' % (r, k, j)
                        self.drain()
                        return
                    time.sleep(0)

    def run(self, name, T, n, outcome, script, why_addr):
        self.reset(n, outcome, script, why_addr)
        # C-level watchdog (needs no GIL): a case that is stuck beyond every horizon kills the child with status 1,
        # which the parent attributes to this case
        faulthandler.dump_traceback_later(3 * HORIZON + 10, exit=True, file=self._null)
        try:
            return self._run(name, T, n, script)
        finally:
            faulthandler.cancel_dump_traceback_later()

    def _run(self, name, T, n, script):
        drv = threading.Thread(target=self.driver, args=(script,))
        drv.start()
        t0 = time.time()
        try:
            r = getattr(self.mod, 'run_' + name)(n, T)
            res = ('ok',) + tuple(r)
        except Boom as e:
            res = ('exc', e.it)
            e = None
        except BaseException as e:
            res = ('other', type(e).__name__ + ': ' + str(e)[:200])
            e = None
        self.finished.set()
        drv.join()
        gc.collect()
        alive = [i for i, w in self.registry if w() is not None]
        raised = [i for i, w in self.registry]
        entered = sorted(i for k, i in self.log if k == 'E')
        return {'res': res, 'entered': entered, 'log': self.log, 'notes': sorted(self.notes),
                'anomalies': self.anomalies, 'divergence': self.divergence, 'hung': self.hung,
                'alive': alive, 'raised': raised, 'nthreads': len(set(self.tids.values())),
                'secs': round(time.time() - t0, 4)}


def child_setup(so_path, modname):
    os.environ['OMP_WAIT_POLICY'] = 'passive'
    os.environ['OMP_DYNAMIC'] = 'false'
    os.environ.pop('OMP_NUM_THREADS', None)
    os.environ.pop('OMP_THREAD_LIMIT', None)
    sys.setswitchinterval(1e-4)
    try:
        import resource
        resource.setrlimit(resource.RLIMIT_CORE, (0, 0))
    except Exception:
        pass
    from vlib import farm
    mod = farm.load(so_path, modname)
    h = Harness(mod)
    gc.collect()
    gc.freeze()         # the forked heap (compiler, case lists) is irrelevant to the per-case leak check
    return h


def child_case(h, case):
    return h.run(case['prog'], case['T'], case['n'], case['outcome'], [tuple(e) for e in case['script']],
                 case['why_addr'])
