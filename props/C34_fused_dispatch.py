"""C34 - fused functions dispatch to the matching specialisation.

Enumerated: every subset of size 2 (thorough: plus every 3-subset of 9 of them) of the 15 member types {short, int, long, long long, float,
double, double complex, object, str, bytes, list, int[:], double[:], double[:, :], a cdef class} is one fused type
with one compiled `def f(F x): return (cython.typeof(x), value)`; each is called through every call form - plain
f(x), keyword f(x=x), explicit string index f['T'](x) for every member T, explicit type-object index f[T](x) for
every member T, wrong indices - on the complete argument alphabet (boundary ints of every C width, bool, floats,
complex, str, bytes, list, tuple, dict, None, object(), int/float/str subclasses, cdef class and subclass instances,
NumPy arrays of every listed dtype / ndim / contiguity, array.array, memoryview, NumPy scalars).  A second family
calls functions with two parameters (same fused type, two different fused types) on all argument pairs, in an
order that revisits signatures (signature-index cache).
Oracle (props.C34_fused_dispatch:model): membership model - the argument's Python class selects the group (int ->
C integers, float -> C floats, complex, str, bytes, list, cdef class, exact buffer dtype+ndim, else object) - plus
the documented preference (biggest int / float of the group), TypeError iff no member can take the argument,
explicit indexing runs exactly the named specialisation; the result value equals the generic conversion.
"""
import itertools, os, struct
from vlib import e2, support

LEVEL = 'exploration'
ENGINE = 'E2 diffexplore'
TECHNIQUE = 'exhaustive (fused subset x call form x argument class alphabet), compiled fused def functions vs membership+preference dispatch model'
LEVEL_TEXT = ('All 105 two-member subsets of 15 member types (thorough: plus all 84 three-member subsets of 9 of them) are compiled as fused def '
              'functions and called as f(x), f(x=x), f["T"](x) and f[T](x) for every member, and with wrong indices, on a ~60-value '
              'argument alphabet covering every Python class and buffer dtype/ndim the dispatcher distinguishes; two-parameter '
              'functions (same fused type, two fused types) are called on all argument pairs.  The specialisation that ran '
              '(cython.typeof), the returned value and the exception type must equal the membership + documented-preference model.')
LEVEL_NOTE = ('Only def functions (cpdef/cdef dispatch at compile time is not covered); <= 2 fused parameters.  By-design behaviour '
              'that is modelled, not questioned: a Python int is not offered to float members (exact class match), None selects the '
              'first buffer member (kept for backwards compatibility; subsets with two buffer members skip None), typed builtin '
              'and buffer parameters accept None, float -> C int truncates.  Read-only buffers and pythran types are not covered.')

MEMBERS = ['short', 'int', 'long', 'long long', 'float', 'double', 'double complex', 'object', 'str', 'bytes', 'list',
           'int[:]', 'double[:]', 'double[:, :]', 'Cls']
MEMBERS3 = ['short', 'long long', 'float', 'double', 'object', 'str', 'int[:]', 'double[:, :]', 'Cls']     # three-member subsets (thorough)
TYPEOF = {'object': 'Python object', 'str': 'str object', 'bytes': 'bytes object', 'list': 'list object'}
INT_RANK = {'short': (1, 16), 'int': (2, 32), 'long': (3, 64), 'long long': (4, 64)}
FLOAT_RANK = {'float': 1, 'double': 2}
BUFS = {'int[:]': ('i', 4, 1), 'double[:]': ('f', 8, 1), 'double[:, :]': ('f', 8, 2)}
PYOBJ = {'short': '_cy.short', 'int': '_cy.int', 'long': '_cy.long', 'long long': '_cy.longlong', 'float': '_cy.float',
         'double': '_cy.double', 'double complex': '_cy.doublecomplex', 'object': 'object', 'str': 'str', 'bytes': 'bytes', 'list': 'list',
         'int[:]': '_cy.int[:]', 'double[:]': '_cy.double[:]', 'double[:, :]': '_cy.double[:, :]', 'Cls': 'Cls'}

PRELUDE = '''
cimport cython
_cy = __import__('cython')
import numpy as _np

cdef class Cls:
    pass

class Sub(Cls):
    pass

def _arg(x):
    if isinstance(x, str) and x == '@CLS':
        return Cls()
    if isinstance(x, str) and x == '@SUB':
        return Sub()
    return x

def _out(x):
    if x is None or type(x) in (int, float, complex, str, bytes, list, tuple, dict, bool):
        return x
    if isinstance(x, Cls):
        return '@instance'
    if isinstance(x, (int, float, str)):
        return (type(x).__name__, repr(x))
    try:
        return ('buffer', _np.asarray(x).tolist())
    except Exception:
        return ('obj', type(x).__name__)
'''

NP = "__import__('numpy')"
ARR = "__import__('array').array"
ARGS = ['0', '1', '-1', 'True', '32767', '32768', '-32769', '2147483647', '2147483648', '-2147483649', '2**63-1', '2**63', '-2**63-1', '2**70',
        '0.5', '-1.5', '3.0', "float('inf')", '1e300', '1+2j', '0j', "'ab'", "''", "b'ab'", '[1, 2]', '[]', '(1, 2)', '{}', 'None',
        "'@CLS'", "'@SUB'", 'IntSub(5)', 'FloatSub(1.5)', 'StrSub("s")', 'IndexOnly(3)', "type('L', (list,), {})([1])", "type('B', (bytes,), {})(b'z')",
        NP + ".arange(3, dtype='int32')", NP + ".arange(6, dtype='int32')[::2]", NP + ".arange(3, dtype='int64')", NP + ".arange(3, dtype='uint32')",
        NP + ".arange(3, dtype='int16')", NP + ".zeros(3)", NP + ".arange(6.0)[::-2]", NP + ".zeros((2, 2))", NP + ".asfortranarray(" + NP + ".arange(6.0).reshape(2, 3))",
        NP + ".zeros(3, dtype='float32')", NP + ".zeros((2, 2), dtype='int32')", NP + ".zeros((1, 1, 1))", NP + ".zeros(2, dtype='complex128')", NP + ".zeros(0, dtype='int32')",
        ARR + "('i', [1, 2])", ARR + "('d', [1.5])", ARR + "('f', [1.5])", ARR + "('I', [1])", "memoryview(" + ARR + "('i', [7]))", "memoryview(b'ab')", "bytearray(b'ab')",
        NP + ".float64(1.5)", NP + ".int32(4)", NP + ".int64(4)", NP + ".float32(0.5)"]
ARGS2 = ['1', '2**40', '1.5', "'ab'", '[1]', 'None', '1j', '(1,)', NP + ".arange(3, dtype='int32')", NP + ".zeros(3)", "'@CLS'", "b'x'"]


# ------------------------------------------------------------------------------------------ model
def classify_arg(x):
    """-> dict describing the argument the way the dispatcher can see it."""
    import numpy as np
    d = {'buf': None}
    if isinstance(x, np.ndarray):
        d['buf'] = (x.dtype.kind if x.dtype.kind != 'u' else 'u', x.dtype.itemsize, x.ndim)
    else:
        try:
            mv = memoryview(x)
            fmt = mv.format.lstrip('@=<')
            kind = {'i': 'i', 'l': 'i', 'q': 'i', 'h': 'i', 'b': 'i', 'I': 'u', 'L': 'u', 'Q': 'u', 'H': 'u', 'B': 'u', 'f': 'f', 'd': 'f', 'c': 'c',
                    'Zd': 'c', 'Zf': 'c'}.get(fmt, '?')
            d['buf'] = (kind, mv.itemsize, mv.ndim)
        except TypeError:
            pass
    return d


def is_cls(x):
    return isinstance(x, str) and x in ('@CLS', '@SUB')


def dispatch(S, x):
    ints = [t for t in S if t in INT_RANK]
    if ints and isinstance(x, int) and not is_cls(x):
        return max(ints, key=lambda t: INT_RANK[t][0])
    floats = [t for t in S if t in FLOAT_RANK]
    if floats and isinstance(x, float):
        return max(floats, key=lambda t: FLOAT_RANK[t])
    if 'double complex' in S and isinstance(x, complex):
        return 'double complex'
    if is_cls(x):
        if 'Cls' in S:
            return 'Cls'
    else:
        for t, cls in (('str', str), ('bytes', bytes), ('list', list)):
            if t in S and type(x) is cls:        # str/bytes/list parameters take the exact type only (membership model)
                return t
    bufs = [t for t in S if t in BUFS]
    if bufs:
        if x is None:
            return bufs[0] if len(bufs) == 1 else '?none'
        b = classify_arg(x)['buf'] if not is_cls(x) else None
        if b is not None:
            for t in bufs:
                if BUFS[t] == b:
                    return t
    if 'object' in S:
        return 'object'
    raise TypeError('No matching signature found')


def convert(t, x):
    """Value returned by specialisation t for argument x (after _out), or raises."""
    if t in INT_RANK:
        bits = INT_RANK[t][1]
        if is_cls(x):
            raise TypeError
        if isinstance(x, int):
            v = int(x)
        elif hasattr(type(x), '__int__'):
            v = type(x).__int__(x)            # nb_int: floats truncate, NumPy scalars / size-1 arrays convert
            if not isinstance(v, int):
                raise TypeError
            v = int(v)
        elif hasattr(type(x), '__index__'):
            v = int(type(x).__index__(x))     # objects that only implement __index__ are integers too
        else:
            raise TypeError
        if not -2 ** (bits - 1) <= v < 2 ** (bits - 1):
            raise OverflowError
        return v
    if t in FLOAT_RANK:
        if is_cls(x):
            raise TypeError
        if isinstance(x, (int, float)):
            v = float(x)
        elif hasattr(type(x), '__float__') or hasattr(type(x), '__index__'):
            v = float(x) if hasattr(type(x), '__float__') else float(x.__index__())
        else:
            raise TypeError
        if t == 'float':
            try:
                v = struct.unpack('f', struct.pack('f', v))[0]
            except OverflowError:
                v = float('inf') if v > 0 else float('-inf')
        return v
    if t == 'double complex':
        if is_cls(x):
            raise TypeError
        if isinstance(x, (int, float, complex)):
            return complex(x)
        if hasattr(type(x), '__complex__') or hasattr(type(x), '__float__') or hasattr(type(x), '__index__'):
            return complex(x)
        raise TypeError
    if t in ('str', 'bytes', 'list'):
        cls = {'str': str, 'bytes': bytes, 'list': list}[t]
        if x is None:
            return None
        if is_cls(x) or type(x) is not cls:
            raise TypeError
        return out(x)
    if t == 'Cls':
        if x is None:
            return None
        if is_cls(x):
            return '@instance'
        raise TypeError
    if t in BUFS:
        if x is None:
            return None
        b = classify_arg(x)['buf'] if not is_cls(x) else None
        if b is None:
            raise TypeError
        if memoryview(x).readonly:
            raise BufferError
        if b != BUFS[t]:
            raise ValueError
        import numpy as np
        return ('buffer', np.asarray(x).tolist())
    if t == 'object':
        return out(x)
    raise KeyError(t)


def out(x):
    import numpy as np
    if is_cls(x):
        return '@instance'
    if x is None or type(x) in (int, float, complex, str, bytes, list, tuple, dict, bool):
        return x
    if isinstance(x, (int, float, str)):
        return (type(x).__name__, repr(x))
    try:
        return ('buffer', np.asarray(x).tolist())
    except Exception:
        return ('obj', type(x).__name__)


class Skip(Exception):
    pass


def run_spec(t, x):
    return (TYPEOF.get(t, t), convert(t, x))


def model(tag, *args):
    parts = tag.split('/')
    form = parts[0]
    if form in ('plain', 'kw'):
        S = parts[1].split(';')
        t = dispatch(S, args[0])
        if t == '?none':
            return 'skipped'
        return run_spec(t, args[0])
    if form in ('sidx', 'tidx'):
        return run_spec(parts[2], args[0])
    if form == 'badidx':
        raise KeyError
    if form == 'same2':              # def g(F x, F y): the first argument decides, the second is converted to the same type
        S = parts[1].split(';')
        t = dispatch(S, args[0])
        a = run_spec(t, args[0])
        b = run_spec(t, args[1])
        return a + b
    if form == 'two':                # def h(F x, G y): independent dispatch
        S1, S2 = parts[1].split(';'), parts[2].split(';')
        errs = []
        ts = []
        for S, x in ((S1, args[0]), (S2, args[1])):
            try:
                ts.append(dispatch(S, x))
            except TypeError:
                ts.append(None)
        # a parameter nobody matches is left open (None) and every signature is tried: ambiguity / no match -> TypeError
        if None in ts:
            raise TypeError
        return run_spec(ts[0], args[0]) + run_spec(ts[1], args[1])
    raise ValueError(tag)


# ------------------------------------------------------------------------------------------ programs
def subsets(tier):
    subs = [list(c) for c in itertools.combinations(MEMBERS, 2)]
    if tier == 'thorough':
        subs += [list(c) for c in itertools.combinations(MEMBERS3, 3)]
    return subs


def args_for(S):
    nb = sum(1 for t in S if t in BUFS)
    return [(a,) for a in ARGS if not (a == 'None' and nb >= 2)]


def fused_decl(name, S):
    return 'ctypedef fused %s:\n%s\n' % (name, ''.join('    %s\n' % t for t in S))


def part_for(n, S):
    F = 'F%d' % n
    f = 'f%d' % n
    key = ';'.join(S)
    src = fused_decl(F, S)
    src += 'def %s(%s x):\n    return (cython.typeof(x), _out(x))\n' % (f, F)
    funcs = []
    src += 'def p%d(x):\n    return %s(_arg(x))\n' % (n, f)
    funcs.append(e2.Func('p%d' % n, 'plain/' + key, 'a:' + key))
    src += 'def k%d(x):\n    return (<object>%s)(x=_arg(x))\n' % (n, f)
    funcs.append(e2.Func('k%d' % n, 'kw/' + key, 'a:' + key))
    for j, t in enumerate(S):
        src += 'def s%d_%d(x):\n    return (<object>%s)[%r](_arg(x))\n' % (n, j, f, t)
        funcs.append(e2.Func('s%d_%d' % (n, j), 'sidx/%s/%s' % (key, t), 'all'))
        src += 'def t%d_%d(x):\n    return (<object>%s)[%s](_arg(x))\n' % (n, j, f, PYOBJ[t])
        funcs.append(e2.Func('t%d_%d' % (n, j), 'tidx/%s/%s' % (key, t), 'all'))
    other = [m for m in MEMBERS if m not in S][0]
    src += 'def b%d(x):\n    return (<object>%s)[%r](_arg(x))\n' % (n, f, other)
    funcs.append(e2.Func('b%d' % n, 'badidx/' + key, 'few'))
    return e2.Part(src, funcs)


TWO_A = [['int', 'double'], ['int', 'str'], ['double', 'int[:]'], ['short', 'long', 'object']]
TWO_B = [['short', 'double complex'], ['float', 'list'], ['Cls', 'double[:]']]


def two_param_parts(base):
    parts = []
    n = base
    for S in TWO_A + TWO_B:
        key = ';'.join(S)
        src = fused_decl('F%d' % n, S) + 'def g%d(F%d x, F%d y):\n    return (cython.typeof(x), _out(x), cython.typeof(y), _out(y))\n' % (n, n, n)
        src += 'def q%d(x, y):\n    return g%d(_arg(x), _arg(y))\n' % (n, n)
        parts.append(e2.Part(src, [e2.Func('q%d' % n, 'same2/' + key, 'pairs')]))
        n += 1
    for A in TWO_A:
        for B in TWO_B:
            src = fused_decl('FA%d' % n, A) + fused_decl('FB%d' % n, B)
            src += 'def h%d(FA%d x, FB%d y):\n    return (cython.typeof(x), _out(x), cython.typeof(y), _out(y))\n' % (n, n, n)
            src += 'def r%d(x, y):\n    return h%d(_arg(x), _arg(y))\n' % (n, n)
            parts.append(e2.Part(src, [e2.Func('r%d' % n, 'two/%s/%s' % (';'.join(A), ';'.join(B)), 'pairs')]))
            n += 1
    return parts


def keyfn(tag, inp, exp, got):
    parts = tag.split('/')
    cls = ','.join(arg_class(e) for e in inp)
    div = e2.divclass(exp, got)
    sub = {'StrSub': 'str', 'B': 'bytes', 'L': 'list'}.get(cls)
    if sub and div == 'extra-exc:TypeError' and parts[0] in ('plain', 'kw') and 'object' in parts[1].split(';') and sub in parts[1].split(';'):
        # one root cause: isinstance() in the dispatcher vs exact-type argument test in the specialisation
        return 'builtin-subclass-not-offered-to-object|%s' % sub
    return '%s|%s|%s|%s' % (parts[0], '/'.join(parts[1:]), cls, e2.divclass(exp, got))


def arg_class(e):
    if e.startswith(NP):
        return 'np:' + e[len(NP) + 1:].split('(')[0] + (':' + e.split("dtype='")[1].split("'")[0] if 'dtype=' in e else '')
    if e.startswith(ARR):
        return 'array:' + e.split("'")[1]
    if e.startswith("'@"):
        return e.strip("'")
    return support.classify(e)


REACH = ['__pyx_fused_cpdef', '__pyx_ff_match_signatures_single', '__pyx_ff_match_signatures', '__pyx_ff_map_fused_', 'No matching signature found',
         '__Pyx_ImportNumPyArrayTypeIfAvailable', '__pyx_FusedFunction']
PER_MOD = 12


def run(ctx):
    subs = subsets(ctx.tier)
    parts = [part_for(n, S) for n, S in enumerate(subs)]
    mods = []
    only = os.environ.get('VERIF_C34_ONLY')          # development aid: module name prefixes
    ref = ('model', 'props.C34_fused_dispatch:model')
    for i in range(0, len(parts), PER_MOD):
        chunk = parts[i:i + PER_MOD]
        sets = {'all': [(a,) for a in ARGS], 'few': [('1',), ("'ab'",), ('None',)]}
        for S in subs[i:i + PER_MOD]:
            sets['a:' + ';'.join(S)] = args_for(S)
        mods.append(e2.Mod('c34m%d' % (i // PER_MOD), PRELUDE, chunk, sets, ext='.pyx', ref=ref))
    pairs = [(a, b) for a in ARGS2 for b in ARGS2]
    pairs = pairs + pairs[::-1][::3]            # revisit signatures: exercises the signature-index cache with a different history
    mods.append(e2.Mod('c34two', PRELUDE, two_param_parts(1000), {'pairs': pairs}, ext='.pyx', ref=ref))
    if only:
        mods = [m for m in mods if m.name.startswith(tuple(only.split(',')))]
    st = e2.run_diff(ctx, mods, keyfn=keyfn, on_build_failure='reject', reach=REACH)
    for tags, stage_, err in st['rejected']:
        ctx.violation('build-failure|%s|%s' % (stage_, tags[0]), 'fused program does not build (%s): %s' % (stage_, err[-400:]),
                      {'kind': 'note', 'tags': tags[:5], 'errors': err})
    cov = {
        'evaluations': st['evaluations'], 'distinct_nontrivial': st['pairs'],
        'rule': 'distinct (call-form function, model outcome) pairs: arguments that select the same specialisation with the same value or the same exception collapse',
        'fused_subsets': len(subs), 'programs': st['programs'], 'modules_built': st['modules_built'], 'arguments': len(ARGS), 'argument_pairs': len(pairs),
        'mismatches': st['mismatches'], 'crashes': st['crashes'], 'build_failures': st['build_failures'],
        'reach': st.get('reach'), 'reach_gaps': st.get('reach_gaps'),
        'samples': [{'fused': 'short, long long', 'call': 'f(2**63)', 'model': 'dispatch long long -> OverflowError'},
                    {'fused': 'float, double', 'call': 'f(1)', 'model': 'TypeError (no int member)'},
                    {'fused': 'int[:], object', 'call': "f(numpy.arange(3, dtype='int64'))", 'model': "('Python object', buffer)"},
                    {'fused': 'int, str', 'call': "f['int']('ab')", 'model': 'TypeError'}],
        'exhaustive': not only,
    }
    return cov, ['def functions only; <= 2 fused parameters; subset size <= 2 (quick) / 3 (thorough)']


def replay(ctx, case):
    return e2.replay(ctx, case)
