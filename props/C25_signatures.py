"""C25 - compiled functions report faithful names and signatures.

(a) E2: pure-Python modules of generated `def` functions, compiled with binding=True and compared with CPython executing the same
    source: __name__, __qualname__, __module__, __doc__, inspect.signature (names, kinds, default values), __defaults__,
    __kwdefaults__.  Enumerated: every signature shape with <= 3 parameters (positional-only, positional-or-keyword, *args,
    keyword-only, **kw; every legal default placement) in 9 scopes (module, method, static/class method, nested function,
    function-in-function-in-function, class in class, method of a class in a function, lambda); every default expression of the
    expression family (literals of many shapes + operator-precedence matrix over symbolic operands) as positional and as
    keyword-only default.  Each module is compiled under embedsignature off / python / c (binding=True) and clinic
    (binding=False): the embedded first docstring line must parse to the same parameter names and kinds, and every default's
    text must denote the source default (same AST modulo redundant parentheses, or same value for literal-only expressions).
(b) E1: ExpressionWriter alone on the full precedence matrix (every (outer operator slot, inner operator form) combination):
    parse with the staged parser, print, and require ast.dump(ast.parse(printed)) == ast.dump(ast.parse(original)).
"""
import os, ast, itertools, inspect
from vlib import farm, runner
from vlib.diff import short

LEVEL = 'exploration'
ENGINE = 'E2 diffexplore'
TECHNIQUE = 'exhaustive signature shapes x scopes x default-expression family compiled under 4 signature-embedding configurations vs CPython on identical source; ExpressionWriter precedence matrix round trip through ast'
LEVEL_TEXT = ('All signature shapes with <= 3 parameters in 9 scopes and every default expression of a ~800-member family (literal shapes '
              'and the outer-slot x inner-form operator precedence matrix over symbolic operands) are compiled with binding=True and '
              'compared with CPython on the same source for __name__/__qualname__/__module__/__doc__/inspect.signature/__defaults__/'
              '__kwdefaults__; under embedsignature python/c/clinic the embedded signature line must parse to the same names, kinds and '
              'defaults; ExpressionWriter is round-tripped through ast on the complete matrix (~2200 expressions).')
LEVEL_NOTE = ('Nodes the writer prints as the documented placeholder "..." (lambda, f-strings, unknown nodes) are counted, not reported.  '
              'Lambdas are named "lambda" by Cython (not def functions: __name__ not compared); functions defined inside functions get no embedded signature (only their plain __doc__ is compared).  Subscripts with a `not` expression (C integer index typing) are left out of the compiled family.  Annotations (stringified by design), cdef/cpdef signatures, __init__ in format c (documented on the class), fused functions '
              'and __text_signature__ of special methods are not covered.  Trusted: CPython 3.12 inspect/ast, gcc.')

PRELUDE = ('from props._g4_sig import Sym\n'
           'A, B, C, D, E = Sym("A"), Sym("B"), Sym("C"), Sym("D"), Sym("E")\n')

# ------------------------------------------------------------------------------------------------ expression family
BIN = [('or', ['or']), ('and', ['and']), ('cmp', ['<', '==', 'in', 'not in', 'is', 'is not', '!=', '>=']), ('bor', ['|']), ('xor', ['^']),
       ('band', ['&']), ('shift', ['<<', '>>']), ('add', ['+', '-']), ('mul', ['*', '/', '//', '%', '@']), ('pow', ['**'])]
UN = [('not', ['not ']), ('unary', ['-', '+', '~'])]
OTHER_SLOTS = [('cond', '{} if A else E', 'body'), ('cond', 'A if {} else E', 'test'), ('cond', 'A if E else {}', 'orelse'),
               ('attr', '{}.x', 'base'), ('index', '{}[A]', 'base'), ('index', 'A[{}]', 'index'), ('call', '{}(A)', 'func'),
               ('call', 'A({})', 'arg'), ('slice', 'A[{}:E]', 'start'), ('tuple', '({}, A)', 'elt'), ('list', '[{}]', 'elt'),
               ('dict', '{{A: {}}}', 'value'), ('call', 'A(k={})', 'kwarg'), ('call', 'A(*{})', 'star')]
OTHER_INNER = [('cond', 'B if C else D'), ('attr', 'B.y'), ('index', 'B[C]'), ('call', 'B(C)'), ('tuple1', 'B,'), ('tuple', 'B, C'),
               ('list', '[B]')]


def matrix(full):
    """-> [(tag, text)]  tag = mx/<outer class>/<inner class>/<side>"""
    def ops(lst):
        return [(c, o) for c, os_ in lst for o in (os_ if full else os_[:1])]
    slots = []
    for c, o in ops(BIN):
        slots.append((c, '{} %s A' % o, 'left'))
        slots.append((c, 'A %s {}' % o, 'right'))
    for c, o in ops(UN):
        slots.append((c, o + '{}', 'operand'))
    slots += OTHER_SLOTS
    inners = [(c, 'B %s C' % o) for c, o in ops(BIN)] + [(c, o + 'B') for c, o in ops(UN)] + OTHER_INNER
    out, seen = [], set()
    for oc, tmpl, side in slots:
        for ic, itext in inners:
            text = tmpl.format('(' + itext + ')')
            if text not in seen:
                seen.add(text)
                out.append(('mx/%s/%s/%s' % (oc, ic, side), text))
    return out


EXTRA = ['A < B < C', 'A < (B < C)', '(A < B) < C', 'A < B == C', 'not A < B', 'A if B else C if D else E', '(A if B else C) if D else E',
         'A ** B ** C', '(A ** B) ** C', '-A ** B', '(-A) ** B', 'A ** -B', 'A - B - C', 'A - (B - C)', 'A[B:C]', 'A[B:C:D]', 'A[::B]', 'A[B, C]',
         'A[(B,)]', 'A[()]', 'A(B, C)', 'A(*B)', 'A(**B)', 'A(B, k=C)', 'A(B)(C)', 'A.b.c', 'A[B][C]', '[X for X in B]', '[X for X in B if C]',
         '{X: B for X in C}', '{X for X in B}', 'list(X for X in B)', '[*A, B]', '{**A, "k": B}', '(A, B)', '(A,)', '[A, (B,)]', '{A: (B,)}',
         '{A, B}', 'not not A', '- -A', '-+~A', 'A and B or C', 'A or B and C', '(A or B) and C', 'A and (B or C)', 'not (A and B)',
         'A if (B if C else D) else E', 'A.x(B)[C]', '(A + B).x', '(A, B)[C]', '(lambda: A)', '(lambda x, y=B: x)', 'A @ B @ C', 'A @ (B @ C)',
         'A // B / C', 'A // (B / C)', 'A << B >> C', 'A << (B >> C)', 'A | B ^ C & D', '(A | B) ^ C', 'A ^ (B & C)', '(A ^ B) & C',
         'A == B != C', 'A in B not in C', 'A is B is not C', 'A if B else (C, D)', '(A if B else C), D', '[A, B][C:D]', '~A ** B', '(~A) ** B']
LITERALS = ['-1', '0', '1', '-0.0', '0.0', '1e100', '-1e-100', '2.5', '1e400', '10**30', '123456789012345678901234567890', '-123456789012345678901234567890',
            '0x10', '0o17', '0b101', '1_000', '1_0.0_1', 'None', 'True', 'False', '...', "'s'", "''", "'it\\'s'", '"q\\"uote"', "'\\n\\t\\\\'", "'\\x00'",
            "'\\xe9\\u20ac\\U0001f600'", "'a' 'b'", "b'ab'", "b''", "b'\\x00\\xff'", "b\"q'\"", '1j', '-1j', '1.5j', '(1+2j)', '(1, 2)', '(1,)', '()', '((1,),)',
            '[]', '[1]', '[1, [2, (3,)]]', '{}', "{'a': 1, 'b': [2]}", '{1, 2}', '{1}', 'set()', 'frozenset()', '-(1)', '2**100', '(1, 2)[0]', '1 + 2', '1 - 2 - 3',
            '1 - (2 - 3)', '2 ** 3 ** 2', '(2 ** 3) ** 2', '-2 ** 2', '(-2) ** 2', "'a' * 3", '(1, 2) * 2', '[1] * 2', '1 if 0 else 2', '(1 if 0 else 2) + 3', '1 < 2 < 3',
            'not 1', '1 and 2', '0 or ()', '1 / 2', '7 // 2', '-7 % 3', '1 << 40', '~5', "'%s' % 5", "f'{1}x'", "f'a'", 'int', 'len', 'print', 'abs(-1)', 'int("5")']


def expression_family(full):
    def wrap(t):    # a bare top-level tuple cannot stand in a parameter list
        return '(' + t + ')' if isinstance(ast.parse(t, mode='eval').body, ast.Tuple) and not (t.startswith('(') and t.endswith(')')) else t
    fam = [('lit/%d' % i, wrap(t)) for i, t in enumerate(LITERALS)] + [('extra/%d' % i, wrap(t)) for i, t in enumerate(EXTRA)]
    return fam + matrix(full)


# ------------------------------------------------------------------------------------------------ signature family
def signatures(maxn=3):
    """-> list of parameter lists [(name, kind, has_default)] covering every shape with <= maxn parameters"""
    kinds = ['po', 'pk', 'var', 'ko', 'kw']
    res = []
    for n in range(maxn + 1):
        for ks in itertools.product(kinds, repeat=n):
            idx = [kinds.index(k) for k in ks]
            if idx != sorted(idx) or ks.count('var') > 1 or ks.count('kw') > 1:
                continue
            slots = [i for i, k in enumerate(ks) if k in ('po', 'pk', 'ko')]
            for flags in itertools.product((0, 1), repeat=len(slots)):
                fl = dict(zip(slots, flags))
                posd = [fl[i] for i in slots if ks[i] in ('po', 'pk')]
                if posd != sorted(posd):
                    continue
                res.append([('p%d' % i, k, bool(fl.get(i))) for i, k in enumerate(ks)])
    return res


KIND = {'po': 'POSITIONAL_ONLY', 'pk': 'POSITIONAL_OR_KEYWORD', 'var': 'VAR_POSITIONAL', 'ko': 'KEYWORD_ONLY', 'kw': 'VAR_KEYWORD'}
SIG_DEFAULTS = ['-1', "'s'", '(1,)']


def render_params(params, first=None):
    """params: [(name, kind, default text or None)] -> source text of the parameter list"""
    out = [first] if first else []
    kinds = [k for _, k, _ in params]
    for i, (name, kind, dflt) in enumerate(params):
        if kind == 'ko' and 'var' not in kinds and (i == 0 or kinds[i - 1] != 'ko'):
            out.append('*')
        pre = {'var': '*', 'kw': '**'}.get(kind, '')
        out.append(pre + name + ('=' + dflt if dflt is not None else ''))
        if kind == 'po' and (i + 1 == len(params) or kinds[i + 1] != 'po'):
            out.append('/')
    return ', '.join(out)


DOCS = [None, 'one line', 'First line.\n\n        Indented body line.\n          deeper\n        ', 'non-ascii ' + chr(0xe9) + chr(0x20ac)]
SCOPES = ['mod', 'meth', 'smeth', 'cmeth', 'nfn', 'nfn3', 'ccl', 'ncl', 'lam']


def make_target(tid, scope, params, doc):
    """-> (source, accessor expression, expected parameter list incl. self/cls [(name, KIND, default text)])"""
    name = 't%d' % tid
    body = ('    %r\n' % doc if doc is not None else '') + '    return 1\n'
    first = {'meth': 'self', 'ccl': 'self', 'ncl': 'self', 'cmeth': 'cls'}.get(scope)
    plist = render_params(params, first)
    exp = ([(first, 'POSITIONAL_OR_KEYWORD' if not any(k == 'po' for _, k, _ in params) else 'POSITIONAL_ONLY', None)] if first else []) \
        + [(n, KIND[k], d) for n, k, d in params]
    d = 'def %s(%s):\n%s' % (name, plist, body)

    def ind(text, n):
        return ''.join(' ' * n + line + '\n' if line.strip() else line + '\n' for line in text.splitlines())
    if scope == 'mod':
        return d, name, exp
    if scope == 'meth':
        return 'class K%d:\n%s' % (tid, ind(d, 4)), 'K%d.%s' % (tid, name), exp
    if scope == 'smeth':
        return 'class K%d:\n    @staticmethod\n%s' % (tid, ind(d, 4)), 'K%d.%s' % (tid, name), exp
    if scope == 'cmeth':
        return 'class K%d:\n    @classmethod\n%s' % (tid, ind(d, 4)), 'K%d.__dict__[%r].__func__' % (tid, name), exp
    if scope == 'nfn':
        return 'def o%d():\n%s    return %s\n' % (tid, ind(d, 4), name), 'o%d()' % tid, exp
    if scope == 'nfn3':
        return ('def o%d():\n    def mid():\n%s        return %s\n    return mid()\n' % (tid, ind(d, 8), name)), 'o%d()' % tid, exp
    if scope == 'ccl':
        return 'class K%d:\n    class In:\n%s' % (tid, ind(d, 8)), 'K%d.In.%s' % (tid, name), exp
    if scope == 'ncl':
        return 'def o%d():\n    class L:\n%s    return L.%s\n' % (tid, ind(d, 8), name), 'o%d()' % tid, exp
    if scope == 'lam':
        return '%s = lambda %s: 1\n' % (name, plist), name, exp
    raise ValueError(scope)


def targets(tier):
    """-> list of dict(tid, tag, source, acc, exp)"""
    out = []
    tid = 0
    for params in signatures(3):
        for scope in SCOPES:
            k = 0
            ps = []
            for n, kind, has in params:
                ps.append((n, kind, SIG_DEFAULTS[k % 3] if has else None))
                k += has
            src, acc, exp = make_target(tid, scope, ps, DOCS[tid % 4] if scope != 'lam' else None)
            out.append({'tid': tid, 'tag': 'sig/%s/%s' % (scope, '-'.join(k_ for _, k_, _ in params) or 'none'), 'source': src, 'acc': acc,
                        'exp': exp, 'scope': scope})
            tid += 1
    ns = {}
    exec(PRELUDE, ns)
    for tag, text in expression_family(tier != 'quick'):
        if tag.startswith(('mx/index/not/index', 'mx/slice/not/start')):
            continue        # A[not B]: the subscript is typed as a C integer and arrives as 0/1, not False/True (index typing, not C25)
        try:
            with __import__('warnings').catch_warnings():
                __import__('warnings').simplefilter('ignore')
                eval(text, dict(ns))
        except Exception:
            continue        # not evaluable at def time (e.g. a tuple indexed by a symbolic operand): only in the E1 part
        for pos, scope in ((('pk', 'mod'), ('ko', 'meth')) if tier == 'quick' else (('pk', 'mod'), ('ko', 'mod'), ('pk', 'meth'), ('ko', 'nfn'))):
            ps = [('a', 'pk', None), ('b', 'pk', text)] if pos == 'pk' else [('k', 'ko', text)]
            src, acc, exp = make_target(tid, scope, ps, DOCS[tid % 4])
            out.append({'tid': tid, 'tag': 'dflt/%s/%s' % (pos, tag), 'source': src, 'acc': acc, 'exp': exp, 'scope': scope, 'expr': text})
            tid += 1
    return out


CONFIGS = [('plain', {'binding': True, 'embedsignature': False}),
           ('python', {'binding': True, 'embedsignature': True, 'embedsignature.format': 'python'}),
           ('c', {'binding': True, 'embedsignature': True, 'embedsignature.format': 'c'}),
           ('clinic', {'binding': False, 'embedsignature': True, 'embedsignature.format': 'clinic'})]
PER_MODULE = 200


# ------------------------------------------------------------------------------------------------ child side
def check_module(case):
    """child: load the compiled module, exec the reference, compare every target -> list of (tid, field, expected, got)"""
    so, name, source, cfg, tgts = case
    import warnings
    from props import _g4_sig as S
    warnings.simplefilter('ignore')
    mod = farm.load(so, name)
    ref = {'__name__': name + '_ref', '__builtins__': __builtins__}
    exec(compile(source, '<ref:%s>' % name, 'exec'), ref)
    out = []
    placeholders = 0
    checked = 0
    not_embedded = 0
    for t in tgts:
        tid = t['tid']
        try:
            fc = eval(t['acc'], vars(mod))
            fr = eval(t['acc'], ref)
        except Exception as e:
            out.append((tid, 'access', 'ok', '%s: %s' % (type(e).__name__, e)))
            continue
        dc = S.describe(fc, (name, name + '_ref'))
        dr = S.describe(fr, (name, name + '_ref'))
        checked += 1
        if cfg == 'clinic':
            # binding=False: a builtin; only the signature recovered from __text_signature__ is comparable
            if isinstance(dc['params'], tuple):
                out.append((tid, 'text_signature', dr['params'], dc['params']))
            elif [(n, k) for n, k, _ in dc['params']] != [(n, k) for n, k, _ in dr['params']]:
                out.append((tid, 'text_signature:names-kinds', [(n, k) for n, k, _ in dr['params']], [(n, k) for n, k, _ in dc['params']]))
            else:
                for (n, k, d1), (_, _, d2) in zip(dr['params'], dc['params']):
                    if (d1 is None) != (d2 is None):
                        out.append((tid, 'text_signature:default-presence', d1, d2))
            for a in ('__name__', '__doc__'):
                if a == '__doc__':
                    continue
                if dc[a] != dr[a]:
                    out.append((tid, a, dr[a], dc[a]))
            continue
        for a in ('__name__', '__qualname__', '__module__', 'params', '__defaults__', '__kwdefaults__'):
            if a == '__name__' and t['scope'] == 'lam':
                continue        # a lambda is not a def function: Cython names it 'lambda' (outside the property statement)
            if dc[a] != dr[a]:
                out.append((tid, a, dr[a], dc[a]))
        doc_c, doc_r = dc['__doc__'], dr['__doc__']
        if cfg == 'plain' or t['scope'] == 'lam':
            if doc_c != doc_r:
                out.append((tid, '__doc__', doc_r, doc_c))
            continue
        if t['scope'] in ('nfn', 'nfn3', 'ncl') and doc_c == doc_r:
            not_embedded += 1   # Cython embeds no signature into functions defined inside functions: nothing to parse
            continue
        if not isinstance(doc_c, str) or not doc_c.strip():
            out.append((tid, 'sigtext:missing', 'signature line', doc_c))
            continue
        line, _, rest = doc_c.partition('\n')
        exp_rest = ('\n' + inspect.cleandoc(doc_r)) if doc_r else ''
        if rest != exp_rest:
            out.append((tid, '__doc__:rest', exp_rest, rest))
        try:
            fname, params = S.parse_sigline(line)
        except SyntaxError as e:
            out.append((tid, 'sigtext:unparsable', 'python-parsable signature', line))
            continue
        if fname != dr['__name__']:
            out.append((tid, 'sigtext:name', dr['__name__'], fname))
        exp = t['exp']
        if [(n, k) for n, k, _ in params] != [(n, k) for n, k, _ in exp]:
            out.append((tid, 'sigtext:names-kinds', [(n, k) for n, k, _ in exp], [(n, k) for n, k, _ in params]))
            continue
        for (n, k, node), (_, _, text) in zip(params, exp):
            if (node is None) != (text is None):
                out.append((tid, 'sigtext:default-presence', text, None if node is None else ast.unparse(node)))
            elif node is not None:
                why = S.check_default_text(text, node, ref)
                if why == 'placeholder':
                    placeholders += 1
                elif why:
                    out.append((tid, 'sigtext:default', text, why))
    return {'mismatches': out, 'placeholders': placeholders, 'checked': checked, 'not_embedded': not_embedded}


def ew_roundtrip(item):
    """E1: staged parser -> ExpressionWriter -> ast comparison.  -> None | 'placeholder' | (class, detail)"""
    tag, text = item
    from Cython.Compiler.TreeFragment import parse_from_strings
    from Cython.CodeWriter import ExpressionWriter
    from props import _g4_sig as S
    try:
        tree = parse_from_strings('ew', 'x = (%s)\n' % text)
        node = tree.body
        while hasattr(node, 'stats'):
            node = node.stats[0]
        printed = ExpressionWriter(allow_unknown_nodes=True).write(node.rhs)
    except Exception as e:
        return ('writer-exception', '%s: %s' % (type(e).__name__, str(e)[:200]))
    try:
        got = S.norm_dump(printed)
    except SyntaxError:
        return ('unparsable', printed)
    if got == S.norm_dump(text):
        return None
    if '...' in printed and '...' not in text:
        return 'placeholder'
    return ('structure', printed)


# ------------------------------------------------------------------------------------------------ driver
def _module_source(tgts):
    return PRELUDE + '\n' + '\n'.join(t['source'] for t in tgts) + '\n'


def _key(t, field, cfg, exp=None):
    tag = t['tag']
    if field.startswith('sigtext:default') or (field.startswith('sigtext:unparsable') and tag.startswith('dflt/')):
        from props._g4_sig import root_class
        parts = tag.split('/')
        text = t.get('expr') or (exp if isinstance(exp, str) else None)
        what = (root_class(text) if text else None) or ('/'.join(parts[2:]) if parts[2:3] == ['mx'] else '%s:%s' % (parts[0], text))
        return 'sigtext|default|%s' % what             # format/position/scope independent: the printer is shared
    if tag.startswith('dflt/'):
        parts = tag.split('/')
        what = '/'.join(parts[2:]) if parts[2] == 'mx' else '%s:%s' % (parts[2], t.get('expr'))
        return 'attr|%s|default-expr|%s' % (field, what)
    return '%s|%s|%s|cfg=%s' % ('sigtext' if field.startswith(('sigtext', 'text_signature', '__doc__:rest')) else 'attr', field,
                                tag.split('/')[1], cfg if field.startswith(('sigtext', 'text_signature', '__doc__')) else '*')


def run(ctx):
    tg = targets(ctx.tier)
    only = os.environ.get('VERIF_G4_ONLY')      # development aid: 'ew' = expression writer part only, 'sig:N' = first N targets only
    if only:
        tg = tg[:int(only.split(':')[1])] if only.startswith('sig:') else tg[:8]
    order = list(range(0, len(tg), PER_MODULE))
    if ctx.seed:
        import random
        random.Random(ctx.seed).shuffle(order)
    workdir = ctx.workdir('c25')
    jobs, meta = [], []
    for k in order:
        chunk = tg[k:k + PER_MODULE]
        src = _module_source(chunk)
        for cfg, directives in CONFIGS:
            sub = chunk if cfg != 'clinic' else [t for t in chunk if t['scope'] == 'mod' and t['tag'].startswith('sig/')]
            if not sub:
                continue
            name = 'c25m%d_%s' % (k // PER_MODULE, cfg)
            jobs.append(dict(name=name, source=src, workdir=workdir, ext='.py', directives=directives))
            meta.append((name, src, cfg, sub))
    res = farm.build_many(jobs)
    cases, owners = [], []
    build_failures = 0
    for r, (name, src, cfg, sub) in zip(res, meta):
        if not r.ok:
            build_failures += 1
            ctx.violation('build-failure|%s|cfg=%s' % (r.stage, cfg), 'module does not build (%s): %s' % (r.stage, r.errors[-600:]),
                          {'kind': 'build', 'source': src, 'directives': dict(CONFIGS)[cfg]})
            continue
        cases.append((r.so, name, src, cfg, sub))
        owners.append((name, src, cfg, sub))
    outs = runner.run_cases(check_module, cases, chunk=1, timeout=600, scratch=ctx.scratch)
    evaluations = mism = placeholders = not_embedded = 0
    bytid = {t['tid']: t for t in tg}
    fields = set()
    for (name, src, cfg, sub), o in zip(owners, outs):
        if o[0] != 'ok':
            ctx.violation('harness|%s|cfg=%s' % (o[0], cfg), 'module %s: %r' % (name, o[1:]), {'kind': 'build', 'source': src,
                                                                                                 'directives': dict(CONFIGS)[cfg]})
            continue
        evaluations += o[1]['checked']
        placeholders += o[1]['placeholders']
        not_embedded += o[1]['not_embedded']
        for tid, field, exp, got in o[1]['mismatches']:
            mism += 1
            t = bytid[tid]
            fields.add(field)
            ctx.violation(_key(t, field, cfg, exp), '%s [%s] %s: expected %s got %s' % (t['tag'], cfg, field, short(exp, 160), short(got, 200)),
                          {'kind': 'target', 'target': t, 'config': cfg, 'field': field, 'expected': exp, 'got': got})
    # ---- E1: ExpressionWriter round trip on the full matrix
    fam = expression_family(True)
    ew = farm.pmap(ew_roundtrip, fam, chunksize=50)
    ew_fail = ew_place = 0
    for (tag, text), r in zip(fam, ew):
        if r is None:
            continue
        if r == 'placeholder':
            ew_place += 1
            continue
        ew_fail += 1
        from props._g4_sig import root_class
        what = root_class(text) or (tag if tag.startswith('mx/') else '%s:%s' % (tag.split('/')[0], text))
        ctx.violation('exprwriter|%s|%s' % (what, r[0]), 'ExpressionWriter prints %r as %r (%s)' % (text, r[1], r[0]),
                      {'kind': 'ew', 'tag': tag, 'text': text})
    cov = {
        'evaluations': evaluations + len(fam),
        'distinct_nontrivial': len({t['tag'] for t in tg}) + len({x for x, _ in fam}),
        'rule': 'distinct target classes (signature shape x scope, or default-expression class x position) compared on the compiled '
                'function, plus distinct expression classes round-tripped through ExpressionWriter',
        'targets': len(tg), 'signature_shapes': len(signatures(3)), 'scopes': SCOPES, 'configs': [c for c, _ in CONFIGS],
        'default_expressions_compiled': len(expression_family(ctx.tier != 'quick')), 'modules_built': len(cases),
        'build_failures': build_failures, 'mismatches': mism, 'mismatch_fields': sorted(fields),
        'placeholder_defaults_not_reported': placeholders, 'nested_functions_without_embedded_signature': not_embedded, 'exprwriter_expressions': len(fam), 'exprwriter_failures': ew_fail,
        'exprwriter_placeholders': ew_place,
        'samples': [{'target': tg[7]['source'], 'accessor': tg[7]['acc']}, {'target': tg[len(tg) // 2]['source']},
                    {'exprwriter': fam[len(fam) // 2][1]}],
        'exhaustive': True,
    }
    return cov, ['signatures with more than 3 parameters and default expressions outside the family are not covered',
                 'defaults printed as the documented "..." placeholder are counted, not reported']


def replay(ctx, case):
    kind = case.get('kind')
    if kind == 'ew':
        r = ew_roundtrip((case['tag'], case['text']))
        return False if r in (None, 'placeholder') else 'prints %r as %r (%s)' % (case['text'], r[1], r[0])
    if kind == 'build':
        r = farm.build('c25replay', case['source'], ctx.workdir('replay'), ext='.py', directives=case.get('directives'))
        return False if r.ok else 'still does not build (%s): %s' % (r.stage, r.errors[-400:])
    if kind != 'target':
        return 'unknown case kind'
    t = case['target']
    t['exp'] = [tuple(x) for x in t['exp']]
    cfg = case['config']
    src = _module_source([t])
    r = farm.build('c25replay', src, ctx.workdir('replay'), ext='.py', directives=dict(CONFIGS)[cfg])
    if not r.ok:
        return 'does not build (%s): %s' % (r.stage, r.errors[-400:])
    o = runner.run_cases(check_module, [(r.so, 'c25replay', src, cfg, [t])], timeout=120, scratch=ctx.scratch)[0]
    if o[0] != 'ok':
        return '%s: %r' % (o[0], o[1:])
    for tid, field, exp, got in o[1]['mismatches']:
        if field == case['field']:
            return '%s: expected %s got %s' % (field, short(exp, 160), short(got, 200))
    return False
