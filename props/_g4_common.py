"""Helpers shared by the g4 checks (C09, C10, C18, C25)."""
import re


def leafdiff(exp, got, limit=4):
    """Summarise how two canon() trees differ: a sorted, de-duplicated list of 'type:repr->type:repr'
    leaf changes (or a 'shape' marker when the container structure differs).  Used to build normalised
    violation keys: thousands of containers hit by one root cause share the same leaf change."""
    out = set()

    def walk(a, b):
        if a == b:
            return
        if (isinstance(a, tuple) and isinstance(b, tuple) and len(a) == 2 and len(b) == 2
                and isinstance(a[0], str) and isinstance(b[0], str)):
            if isinstance(a[1], tuple) and isinstance(b[1], tuple) and a[0] == b[0] and len(a[1]) == len(b[1]):
                for x, y in zip(a[1], b[1]):
                    walk(x, y)
                return
            if isinstance(a[1], str) and isinstance(b[1], str):
                out.add('%s:%s->%s:%s' % (a[0], a[1][:24], b[0], b[1][:24]))
                return
            out.add('shape:%s->%s' % (a[0], b[0]))
            return
        if isinstance(a, tuple) and isinstance(b, tuple) and len(a) == len(b):
            for x, y in zip(a, b):
                walk(x, y)
            return
        out.add('shape')

    walk(exp, got)
    res = sorted(out)
    if len(res) > limit:
        res = res[:limit] + ['+%d' % (len(res) - limit)]
    return ','.join(res) or 'same'


def leaves(c, out=None):
    """flatten a canon() tree into a list of (type, repr) leaves"""
    if out is None:
        out = []
    if isinstance(c, tuple) and len(c) == 2 and isinstance(c[0], str):
        if isinstance(c[1], str):
            out.append(c)
        else:
            leaves(c[1], out)
    elif isinstance(c, tuple):
        for x in c:
            leaves(x, out)
    return out


def confusion(exp, got):
    """Which distinction was lost between two canon() trees: sorted subset of {'zero-sign', 'type', 'value', 'shape'}.
    Position-free (compares the multisets of leaves) so that set-like containers are handled too."""
    le, lg = leaves(exp), leaves(got)
    import collections
    lost = list((collections.Counter(le) - collections.Counter(lg)).elements())
    gained = list((collections.Counter(lg) - collections.Counter(le)).elements())
    cats = set()
    zs = {('float', '0.0'), ('float', '-0.0')}
    if (set(lost) & zs) and (set(gained) & zs):
        cats.add('zero-sign')
    rest_l = set(lost) - zs if 'zero-sign' in cats else set(lost)
    rest_g = set(gained) - zs if 'zero-sign' in cats else set(gained)
    if (rest_l and not rest_g) or (rest_g and not rest_l):
        cats.add('count')       # same kinds of leaves, different multiplicity: a repeat count was lost
    elif rest_l or rest_g:
        if {t for t, _ in rest_l} != {t for t, _ in rest_g}:
            cats.add('type')
        else:
            cats.add('value')
    if not cats:
        cats.add('shape' if len(le) != len(lg) else 'order')
    return '+'.join(sorted(cats))


def outcome_diff(exp, got):
    """Divergence class of two e2 outcomes with value differences spelled out via leafdiff."""
    if got[0] == 'crash':
        return 'crash'
    if exp[0] == 'ok' and got[0] == 'exc':
        return 'extra-exc:' + got[1]
    if exp[0] == 'exc' and got[0] == 'ok':
        return 'missing-exc:' + exp[1]
    if exp[0] == 'exc' and got[0] == 'exc':
        return 'exc-type:%s->%s' % (exp[1], got[1]) if exp[1] != got[1] else 'exc-args-or-log'
    if exp[:2] == got[:2]:
        return 'log'
    return leafdiff(exp[1], got[1])


def count_pool(c_text):
    """Number of pooled constant definitions in emitted C: {'tuple': n, 'slice': n, 'frozenset': n, 'int': n, 'float': n}."""
    res = {}
    for kind in ('tuple', 'slice', 'frozenset'):
        m = re.search(r'PyObject \*__pyx_%s\[(\d+)\];' % kind, c_text)
        res[kind] = int(m.group(1)) if m else 0
    res['int'] = len(re.findall(r'^#define __pyx_int_\w+ ', c_text, re.M))
    res['float'] = len(re.findall(r'^#define __pyx_float_\w+ ', c_text, re.M))
    return res


def read(path):
    with open(path, encoding='utf-8', errors='replace') as f:
        return f.read()
