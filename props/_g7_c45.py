"""C45 helpers: source generator for the plan-driven module and the tree enumeration.

One module contains one function per KIND plus `root`:
  def, cpdef (called at C level), cdef, method of a Python class, cpdef method of a cdef class, coroutine, generator,
  nxvoid / nxint (cdef functions WITHOUT error value and exception check: `void` / `int` return, noexcept; an
  exception raised inside is swallowed and reported as unraisable), pycpdef (the cpdef function called through its
  Python wrapper), finret (`return` / `raise` inside try/finally whose finally block makes the child calls).
Every function takes a `plan` = (exit, children), children = tuple of (kind, mode, subplan): it invokes its children in
order (call-site code is inlined in every body, so all call and exception paths are generated code of the function
itself) and then leaves by `exit` (0 = return, 1 = raise ValueError).  A call tree is therefore DATA; the same compiled
functions are driven through every tree.
module_source(ref=True) is the text CPython runs: identical, except that the two noexcept functions (no CPython
equivalent) catch their own exception and return.
"""
import ast, itertools

KINDS = ['def', 'cpdef', 'cdef', 'meth', 'cmeth', 'coro', 'gen', 'nxvoid', 'nxint', 'pycpdef', 'finret']
K_GEN, K_NXVOID, K_NXINT, K_PYCPDEF, K_FINRET = 6, 7, 8, 9, 10
# modes
M_PLAIN, M_CAUGHT, M_EXHAUST, M_EXHAUST_CAUGHT, M_CLOSE, M_THROW, M_DROP, M_YF = range(8)
MODES = ['plain', 'caught', 'exhaust', 'exhaust-caught', 'close', 'throw-caught', 'drop', 'yield-from']

INVOKE = '''\
if k == 0:
    f_def(sub)
elif k == 1:
    f_cpdef(sub)
elif k == 2:
    f_cdef(sub)
elif k == 3:
    OBJ.meth(sub)
elif k == 4:
    COBJ.cmeth(sub)
elif k == 7:
    f_nxvoid(sub)
elif k == 8:
    f_nxint(sub)
elif k == 9:
    PYCPDEF(sub)
elif k == 10:
    f_finret(sub)
else:
    co = f_coro(sub)
    try:
        co.send(None)
    except StopIteration:
        pass
'''

CALLSITE = '''\
k = ch[0]
m = ch[1]
sub = ch[2]
if m == 0:
%(invoke1)s
elif m == 1:
    try:
%(invoke2)s
    except ValueError:
        pass
elif m == 2:
    for _x in f_gen(sub):
        pass
elif m == 3:
    try:
        for _x in f_gen(sub):
            pass
    except ValueError:
        pass
elif m == 4:
    g = f_gen(sub)
    next(g)
    g.close()
elif m == 5:
    g = f_gen(sub)
    next(g)
    try:
        g.throw(KeyError)
    except KeyError:
        pass
%(yf)selse:
    g = f_gen(sub)
    next(g)
    g = None
'''

YF = '''\
elif m == 7:
    yield from f_gen(sub)
'''


def _indent(text, n):
    pad = ' ' * n
    return ''.join(pad + l if l.strip() else l for l in text.splitlines(True))


def _callsite(n, in_gen=False):
    return _indent(CALLSITE % {'invoke1': _indent(INVOKE, 4), 'invoke2': _indent(INVOKE, 8), 'yf': YF if in_gen else ''}, n)


def module_source(ref=False):
    body = '''\
    for ch in plan[1]:
%(cs)s
    if plan[0] == 1:
        raise ValueError('x')
    return 1
''' % {'cs': _callsite(8)}
    nx_body_ref = '''\
    try:
        for ch in plan[1]:
%(cs)s
        if plan[0] == 1:
            raise ValueError('x')
    except BaseException:
        pass
    return %%s
''' % {'cs': _callsite(12)}
    nx_body = '''\
    for ch in plan[1]:
%(cs)s
    if plan[0] == 1:
        raise ValueError('x')
    return %%s
''' % {'cs': _callsite(8)}
    fin_body = '''\
    try:
        if plan[0] == 1:
            raise ValueError('x')
        return 1
    finally:
        for ch in plan[1]:
%(cs)s
''' % {'cs': _callsite(12)}
    gen_body = '''\
    i = 0
    for ch in plan[1]:
%(cs)s
        yield i
        i += 1
    if i == 0:
        yield 0
    if plan[0] == 1:
        raise ValueError('x')
''' % {'cs': _callsite(8, in_gen=True)}
    meth_body = _indent(body, 4)
    src = 'import cython\n\n'
    src += 'def f_def(plan):\n' + body + '\n'
    src += '@cython.ccall\ndef f_cpdef(plan):\n' + body + '\n'
    src += '@cython.cfunc\ndef f_cdef(plan):\n' + body + '\n'
    src += 'class C:\n    def meth(self, plan):\n' + meth_body + '\n'
    src += '@cython.cclass\nclass K:\n    @cython.ccall\n    def cmeth(self, plan):\n' + meth_body + '\n'
    src += 'async def f_coro(plan):\n' + body + '\n'
    src += 'def f_gen(plan):\n' + gen_body + '\n'
    nb = nx_body_ref if ref else nx_body
    src += '@cython.cfunc\n@cython.returns(cython.void)\n@cython.exceptval(check=False)\ndef f_nxvoid(plan):\n' + (nb % '') + '\n'
    src += '@cython.cfunc\n@cython.returns(cython.int)\n@cython.exceptval(check=False)\ndef f_nxint(plan):\n' + (nb % '1') + '\n'
    src += 'def f_finret(plan):\n' + fin_body + '\n'
    src += 'OBJ = C()\nCOBJ = cython.declare(K, K())\nPYCPDEF = globals()["f_cpdef"]\n\n'
    src += '''def root(plan):
    try:
        f_def(plan)
    except ValueError:
        return 0
    return 1
'''
    return src


def spans(src):
    """function name -> (first line, last line)"""
    out = {}
    for node in ast.walk(ast.parse(src)):
        if isinstance(node, (ast.FunctionDef, ast.AsyncFunctionDef)):
            first = min([node.lineno] + [d.lineno for d in node.decorator_list])
            out[node.name] = (first, node.end_lineno)
    return out


# ---------------------------------------------------------------------------- trees
def labels():
    """All (kind, mode, exit) labels of a non-root node (mode yield-from only below a generator parent)."""
    out = []
    for k in (0, 1, 2, 3, 4, 5, K_PYCPDEF, K_FINRET):
        out += [(k, M_PLAIN, 0), (k, M_PLAIN, 1), (k, M_CAUGHT, 1)]
    out += [(K_GEN, M_EXHAUST, 0), (K_GEN, M_EXHAUST, 1), (K_GEN, M_EXHAUST_CAUGHT, 1), (K_GEN, M_CLOSE, 0),
            (K_GEN, M_THROW, 0), (K_GEN, M_DROP, 0), (K_GEN, M_YF, 0), (K_GEN, M_YF, 1)]
    for k in (K_NXVOID, K_NXINT):
        out += [(k, M_PLAIN, 0), (k, M_PLAIN, 1)]
    return out


def shapes(edges):
    """All ordered rooted trees with `edges` edges, as nested tuples of children."""
    if edges == 0:
        return [()]
    out = []
    for a in range(edges):
        for first in shapes(a):
            for rest in shapes(edges - 1 - a):
                out.append((first,) + rest)
    return out


def label_trees(shape, labs, parent_kind=0):
    """All labelings of a shape: yields the children tuple ((kind, mode, (exit, children)), ...) of a node of parent_kind."""
    if not shape:
        yield ()
        return
    per_child = []
    for ch in shape:
        opts = []
        for (k, m, e) in labs:
            if m == M_YF and parent_kind != K_GEN:
                continue
            for sub in label_trees(ch, labs, k):
                opts.append((k, m, (e, sub)))
        per_child.append(opts)
    for combo in itertools.product(*per_child):
        yield combo


def all_plans(max_edges, labs=None, min_edges=1):
    """Root plans for every labelled tree with min_edges..max_edges edges (the tree root is f_def called by `root`)."""
    labs = labs or labels()
    for e in range(min_edges, max_edges + 1):
        for sh in shapes(e):
            for children in label_trees(sh, labs, 0):
                yield (0, children)


def count_edges(plan):
    return sum(1 + count_edges(ch[2]) for ch in plan[1])


def describe(plan):
    """Readable form of a plan."""
    def node(ch):
        k, m, sub = ch
        s = '%s/%s/%s' % (KINDS[k], MODES[m], 'raise' if sub[0] else 'ret')
        if sub[1]:
            s += '[' + ', '.join(node(c) for c in sub[1]) + ']'
        return s
    return 'root[' + ', '.join(node(c) for c in plan[1]) + ']'
