"""C45 helpers: source generator for the plan-driven module and the tree enumeration.

One module contains one function per KIND (def, cpdef, cdef, method of a Python class, cpdef method of a cdef class,
coroutine, generator) plus `root`.  Every function takes a `plan` = (exit, children), children = tuple of
(kind, mode, subplan): it invokes its children in order (call-site code is inlined in every body, so all call and
exception paths are generated code of the function itself) and then leaves by `exit` (0 = return, 1 = raise ValueError).
A call tree is therefore DATA; the same compiled functions are driven through every tree.
"""
import ast, itertools

KINDS = ['def', 'cpdef', 'cdef', 'meth', 'cmeth', 'coro', 'gen']
K_GEN = 6
# modes
M_PLAIN, M_CAUGHT, M_EXHAUST, M_EXHAUST_CAUGHT, M_CLOSE, M_THROW, M_DROP = range(7)
MODES = ['plain', 'caught', 'exhaust', 'exhaust-caught', 'close', 'throw-caught', 'drop']

INVOKE = '''\
if k == 0:
    f_def(sub)
elif k == 1:
    f_cpdef(sub)
elif k == 2:
    f_cdef(sub)
elif k == 3:
    OBJ.meth(sub)
elif k == 4:
    COBJ.cmeth(sub)
else:
    co = f_coro(sub)
    try:
        co.send(None)
    except StopIteration:
        pass
'''

CALLSITE = '''\
k = ch[0]
m = ch[1]
sub = ch[2]
if m == 0:
%(invoke1)s
elif m == 1:
    try:
%(invoke2)s
    except ValueError:
        pass
elif m == 2:
    for _x in f_gen(sub):
        pass
elif m == 3:
    try:
        for _x in f_gen(sub):
            pass
    except ValueError:
        pass
elif m == 4:
    g = f_gen(sub)
    next(g)
    g.close()
elif m == 5:
    g = f_gen(sub)
    next(g)
    try:
        g.throw(KeyError)
    except KeyError:
        pass
else:
    g = f_gen(sub)
    next(g)
    g = None
'''


def _indent(text, n):
    pad = ' ' * n
    return ''.join(pad + l if l.strip() else l for l in text.splitlines(True))


def _callsite(n):
    return _indent(CALLSITE % {'invoke1': _indent(INVOKE, 4), 'invoke2': _indent(INVOKE, 8)}, n)


def module_source():
    body = '''\
    for ch in plan[1]:
%(cs)s
    if plan[0] == 1:
        raise ValueError('x')
    return 1
''' % {'cs': _callsite(8)}
    gen_body = '''\
    i = 0
    for ch in plan[1]:
%(cs)s
        yield i
        i += 1
    if i == 0:
        yield 0
    if plan[0] == 1:
        raise ValueError('x')
''' % {'cs': _callsite(8)}
    meth_body = _indent(body, 4)
    src = 'import cython\n\n'
    src += 'def f_def(plan):\n' + body + '\n'
    src += '@cython.ccall\ndef f_cpdef(plan):\n' + body + '\n'
    src += '@cython.cfunc\ndef f_cdef(plan):\n' + body + '\n'
    src += 'class C:\n    def meth(self, plan):\n' + meth_body + '\n'
    src += '@cython.cclass\nclass K:\n    @cython.ccall\n    def cmeth(self, plan):\n' + meth_body + '\n'
    src += 'async def f_coro(plan):\n' + body + '\n'
    src += 'def f_gen(plan):\n' + gen_body + '\n'
    src += 'OBJ = C()\nCOBJ = cython.declare(K, K())\n\n'
    src += '''def root(plan):
    try:
        f_def(plan)
    except ValueError:
        return 0
    return 1
'''
    return src


def spans(src):
    """function name -> (first line, last line)"""
    out = {}
    for node in ast.walk(ast.parse(src)):
        if isinstance(node, (ast.FunctionDef, ast.AsyncFunctionDef)):
            first = min([node.lineno] + [d.lineno for d in node.decorator_list])
            out[node.name] = (first, node.end_lineno)
    return out


# ---------------------------------------------------------------------------- trees
def labels():
    """All (kind, mode, exit) labels of a non-root node."""
    out = []
    for k in range(6):
        out += [(k, M_PLAIN, 0), (k, M_PLAIN, 1), (k, M_CAUGHT, 1)]
    out += [(K_GEN, M_EXHAUST, 0), (K_GEN, M_EXHAUST, 1), (K_GEN, M_EXHAUST_CAUGHT, 1), (K_GEN, M_CLOSE, 0),
            (K_GEN, M_THROW, 0), (K_GEN, M_DROP, 0)]
    return out


def shapes(edges):
    """All ordered rooted trees with `edges` edges, as nested tuples of children."""
    if edges == 0:
        return [()]
    out = []
    # first child subtree uses a edges (plus its own edge), the remaining children use the rest
    for a in range(edges):
        for first in shapes(a):
            for rest in shapes(edges - 1 - a):
                out.append((first,) + rest)
    return out


def label_trees(shape, labs):
    """All labelings of a shape: yields the children tuple ((kind, mode, (exit, children)), ...) of the root."""
    if not shape:
        yield ()
        return
    per_child = []
    for ch in shape:
        opts = []
        for sub in label_trees(ch, labs):
            for (k, m, e) in labs:
                opts.append((k, m, (e, sub)))
        per_child.append(opts)
    for combo in itertools.product(*per_child):
        yield combo


def all_plans(max_edges, labs=None):
    """Root plans (exit 0 and 1) for every labelled tree with 1..max_edges edges."""
    labs = labs or labels()
    for e in range(1, max_edges + 1):
        for sh in shapes(e):
            for children in label_trees(sh, labs):
                yield (0, children)


def count_edges(plan):
    return sum(1 + count_edges(ch[2]) for ch in plan[1])


def describe(plan):
    """Readable form of a plan."""
    def node(ch):
        k, m, sub = ch
        s = '%s/%s/%s' % (KINDS[k], MODES[m], 'raise' if sub[0] else 'ret')
        if sub[1]:
            s += '[' + ', '.join(node(c) for c in sub[1]) + ']'
        return s
    return 'root[' + ', '.join(node(c) for c in plan[1]) + ']'
