"""C19 - comparisons and membership tests match CPython.

Three complete families (pure-Python-mode .py sources, reference = CPython on the identical source;
every operand is a logging leaf so that the evaluation count/order and the short-circuit point are
compared through the ordered side-effect log):

 a  comparison chains  e1 op1 e2 [op2 e3 [op3 e4]]:
      length 1-2: all ops {<, <=, ==, !=, >=, >, is, is not, in, not in} in every position;
      length 3-4: every op in the first link x {<, ==, in} for the rest;
      operands Python objects from an alphabet incl. nan, containers, rich-compare objects returning
      non-bool / NotImplemented / raising - full product of operand values;
      typed chains (length 1-3 over the six ordering/equality ops) with operands statically typed
      int / double / bint / str / bytes / Py_UCS4 / char / object in every type combination from a
      table, full product of per-type value sets.
 b  `x in <literal>` / `not in`: tuple/list/set displays of 0-3 members over {1, 1.0, True, 'a', None}
      (every sequence with repetition = duplicates and mixed types), dict/str/bytes literals; x untyped
      (object alphabet) and typed int / double / Py_UCS4 / uchar / str / bytes against literal
      containers of constants of that type (every sequence of length 1-4 over a 3-constant set, so
      duplicates and order vary) - this is what FlattenInListTransform and the C switch rewrite see.
 d  numeric pairs through the int/float compare helpers: every ordered pair over a set of Python ints that differ in
      exactly one 30-bit digit (every digit position of 3-, 4- and 5-digit ints), in sign or in digit count, and
      int/float boundary values (2**53+1, 2.0**64, inf, nan), for operands typed object / int / float, as value,
      as `if` condition, in 2-link chains, flattened `in (b, c)` and if/elif chains.
 e  switch subjects that are C-typed ATTRIBUTES (pure-mode cdef classes): same attribute of one object, the same
      attribute name on two different objects, two attributes of one object, a.b.kind vs c.b.kind - all arm layouts
      over a condition pool x all value pairs in {0..4}^2, use_switch on and off.
 c  if/elif chains that SwitchTransform rewrites: every layout of 1-3 (thorough 1-4) arms, each arm's
      condition from a pool {x == c, c == x, x == c1 or x == c2, x in (c...), x in (c, c) duplicates,
      constant outside the type range, x != c1 and x != c2, x not in (...)} with overlapping constants
      across arms, with and without else, arm bodies log; x typed int / unsigned char / Py_UCS4 / long;
      run on every x in the union of the constants +-1; optimize.use_switch on and off.
"""
import itertools, os, re
from vlib import e2
from props import _g5_common as g5
from props._g5_common import Prod
from props._g5_rt import RC

g5.EXTRA_NS['RC'] = RC

LEVEL = 'exploration'
ENGINE = 'E2 diffexplore'
TECHNIQUE = 'exhaustive enumeration of comparison chains, literal-container membership tests and switchable if-chains with logging operands x complete operand products, compiled vs CPython on identical source'
LEVEL_TEXT = ('All comparison chains of length 1-2 over the 10 comparison operators (length 3-4: any first operator x {<,==,in}) '
              'with logging operands over an object alphabet incl. nan and rich-compare objects returning non-bool/raising, typed '
              'chains over a table of C/Python operand type combinations, membership tests against every literal tuple/list/set '
              'display of <= 3 mixed-type members (and typed constants incl. duplicates), and every if/elif layout of <= 3 arms '
              '(thorough 4) over a pool of switchable conditions with overlapping/duplicate/out-of-range constants (subjects: '
              'typed locals and C-typed attributes of one / two cdef-class objects), every ordered pair of multi-digit Python '
              'ints differing in one 30-bit digit, sign or digit count and int/float boundary pairs for object/int/float '
              'operands, with use_switch on and off; selected arm, result, exception type and the ordered evaluation log must equal CPython.')
LEVEL_NOTE = ('`is`/`is not` only with Python-object operands (identity of C values is not defined).  C-typed operands only '
              'receive representable values (a C int tested against a bytes literal only gets 0..255); typed str/bytes leaves do '
              'not receive None; int-vs-Py_UCS4 comparisons (C semantics by typing) are not enumerated.  Enum-typed switch subjects need .pyx and are not enumerated.  Trusted: CPython '
              '3.12 as reference, gcc.')

REACH = ['__Pyx_PyUnicode_Equals', '__Pyx_PyBytes_Equals', 'PyObject_RichCompare', '__Pyx_PySequence_ContainsTF', 'switch (',
         '__Pyx_PyObject_IsTrue', '__Pyx_PyLong_BoolEqObjC', '__Pyx_UnicodeContainsUCS4', '__Pyx_BytesContains',
         '__Pyx_PyDict_ContainsTF', '__Pyx_PySet_ContainsTF']

OPS = ['<', '<=', '==', '!=', '>=', '>', 'is', 'is not', 'in', 'not in']
CMP6 = ['<', '<=', '==', '!=', '>=', '>']
REST = ['<', '==', 'in']

PRELUDE = '''import cython
from props._g5_rt import ev, RC

def LO(i, v):
    ev('leaf', i)
    return v
@cython.cfunc
def LI(i: cython.int, v: cython.int) -> cython.int:
    ev('leaf', i)
    return v
@cython.cfunc
def LD(i: cython.int, v: cython.double) -> cython.double:
    ev('leaf', i)
    return v
@cython.cfunc
def LB(i: cython.int, v: cython.bint) -> cython.bint:
    ev('leaf', i)
    return v
@cython.cfunc
def LS(i: cython.int, v: str) -> str:
    ev('leaf', i)
    return v
@cython.cfunc
def LY(i: cython.int, v: bytes) -> bytes:
    ev('leaf', i)
    return v
@cython.cfunc
def LU(i: cython.int, v: cython.Py_UCS4) -> cython.Py_UCS4:
    ev('leaf', i)
    return v
@cython.cfunc
def LC(i: cython.int, v: cython.uchar) -> cython.uchar:
    ev('leaf', i)
    return v
@cython.cfunc
def LL(i: cython.int, v: cython.long) -> cython.long:
    ev('leaf', i)
    return v
'''

OBJ_FULL = ['0', '1', '2', '1.0', "float('nan')", "'a'", "'b'", '(0, 1)', "[1, 'a']", 'None', "RC('t')", "RC('f')", "RC('ni')", "RC('raise')"]
OBJ_MID = ['0', '1', '1.0', "float('nan')", "'a'", '(0, 1)', "RC('t')", "RC('f')", "RC('raise')"]
OBJ_SMALL = ['0', '1', "float('nan')", "'a'", '(0, 1)', "RC('f')"]

# typed operand kinds: (leaf function, parameter annotation, values)
TK = {
    'o': ('LO', None, ['0', '1', '2', '1.5', "float('nan')", "'a'", "b'a'", 'None', "RC('f')", 'True']),
    'i': ('LI', 'cython.int', ['0', '1', '2', '-1', '2**31 - 1', '-2**31']),
    'd': ('LD', 'cython.double', ['0.0', '1.0', '1.5', '-0.0', "float('nan')", "float('inf')", '2.0']),
    'b': ('LB', 'cython.bint', ['True', 'False']),
    's': ('LS', 'str', ["''", "'a'", "'b'", "'ab'", 'chr(0xe9)', 'chr(0x20ac)', "'a' + chr(0x1f600)", "'a\\x00'"]),
    'y': ('LY', 'bytes', ["b''", "b'a'", "b'b'", "b'ab'", "b'a\\x00'", "b'\\xff'"]),
    'u': ('LU', 'cython.Py_UCS4', ["'a'", "'b'", 'chr(0xe9)', 'chr(0x20ac)', 'chr(0x1f600)', "'\\x00'"]),
    'c': ('LC', 'cython.uchar', ['0', '1', '97', '98', '255']),
    'l': ('LL', 'cython.long', ['0', '1', '-1', '2**62', '-2**63']),
}
# type combinations for typed chains (each letter one operand)
TCOMBOS1 = ['ii', 'id', 'di', 'dd', 'ib', 'bi', 'bb', 'io', 'oi', 'do', 'od', 'ss', 'so', 'os', 'yy', 'yo', 'oy', 'uu', 'us', 'su', 'uo', 'ou',
            'cc', 'ci', 'ic', 'co', 'il', 'li', 'ld', 'bo', 'ob', 'lo', 'ol', 'sy']
TCOMBOS2 = ['iii', 'idi', 'did', 'ioi', 'oio', 'iod', 'sss', 'sos', 'oso', 'uuu', 'usu', 'yyy', 'ccc', 'ibi', 'ili', 'ddd', 'odo']


class Builder:
    def __init__(self):
        self.parts, self.sets, self.n = [], {}, 0

    def add(self, params, body, tag, inputs, setname):
        name = 'f%d' % self.n
        self.n += 1
        self.sets[setname] = inputs
        self.parts.append(e2.Part('def %s(%s):\n%s\n' % (name, params, '\n'.join('    ' + l for l in body.split('\n'))),
                                  [e2.Func(name, tag, setname)]))


def family_chains(tier):
    quick = tier == 'quick'
    b = Builder()
    names = 'abcde'
    # untyped chains
    for n in (1, 2, 3, 4):
        if n <= 2:
            oplists = itertools.product(OPS, repeat=n)
        else:
            oplists = (tuple([o1]) + rest for o1 in OPS for rest in itertools.product(REST, repeat=n - 1))
        vals = {1: OBJ_FULL, 2: OBJ_FULL if not quick else OBJ_MID, 3: OBJ_MID if not quick else OBJ_SMALL,
                4: OBJ_SMALL if not quick else OBJ_SMALL[:4]}[n]
        for ops in oplists:
            expr = 'LO(0, a)'
            for k, op in enumerate(ops, 1):
                expr += ' %s LO(%d, %s)' % (op, k, names[k])
            params = ', '.join(names[:n + 1])
            optag = ','.join(ops)
            b.add(params, 'return ' + expr, 'chain/obj/%s' % optag, Prod(*([vals] * (n + 1))), 'o%d' % n)
            if n <= (1 if quick else 2):
                b.add(params, 'if %s:\n    return 1\nreturn 0' % expr, 'chain-if/obj/%s' % optag, Prod(*([vals] * (n + 1))), 'o%d' % n)
    # typed chains
    for combos, nops in ((TCOMBOS1, 1), (TCOMBOS2, 2)):
        for combo in combos:
            if quick and nops == 2 and combo not in ('iii', 'idi', 'ioi', 'sss', 'sos', 'uuu', 'ccc', 'ibi'):
                continue
            for ops in itertools.product(CMP6, repeat=nops):
                if quick and nops == 2 and (ops[0] in ('<=', '>=') or ops[1] in ('<=', '>=', '!=')):
                    continue
                params, axes = [], []
                expr = ''
                for k, t in enumerate(combo):
                    leaf, ann, vals = TK[t]
                    params.append('%s: %s' % (names[k], ann) if ann and t not in 'sy' else names[k])
                    if t in 'sy' and ('u' in combo or 'c' in combo):
                        vals = [v for v in vals if v != 'None']     # str compared with a Py_UCS4 is coerced to Py_UCS4 (typing)
                    axes.append(vals if nops == 1 else vals[:5])
                    term = '%s(%d, %s)' % (leaf, k, names[k])
                    expr += (' %s ' % ops[k - 1] if k else '') + term
                deco = ''
                loc = ['%s=%s' % (names[k], TK[t][1]) for k, t in enumerate(combo) if t in 'sy']
                body = 'return ' + expr
                b.add(', '.join(params), body, 'chain/typed/%s/%s' % (combo, ','.join(ops)), Prod(*axes), 't_%s_%d' % (combo, nops))
                if loc:
                    # str/bytes operands are declared with cython.locals so that None is accepted
                    b.parts[-1].src = '@cython.locals(%s)\n' % ', '.join(loc) + b.parts[-1].src
    # typed `in` against typed containers
    for tag, params, expr, axes in (
        ('in/ucs4-str', 'c: cython.Py_UCS4, s', 'LU(0, c) in LS(1, s), LU(2, c) not in LS(3, s)', [TK['u'][2], TK['s'][2]]),
        ('in/str-str', 'a, s', 'LS(0, a) in LS(1, s)', [TK['s'][2], TK['s'][2]]),
        ('in/uchar-bytes', 'c: cython.uchar, s', 'LC(0, c) in LY(1, s), LC(2, c) not in LY(3, s)', [TK['c'][2], TK['y'][2]]),
        ('in/bytes-bytes', 'a, s', 'LY(0, a) in LY(1, s)', [TK['y'][2], TK['y'][2]]),
        ('in/obj-dict', 'a, d: dict', 'LO(0, a) in d, LO(1, a) not in d', [OBJ_FULL + ['[1]'], ['{}', "{1: 2, 'a': 3}", '{float("nan"): 1}']]),
        ('in/obj-set', 'a, d: set', 'LO(0, a) in d', [OBJ_FULL + ['[1]', '{1}'], ['set()', "{1, 'a'}", '{frozenset({1})}']]),
        ('in/obj-list', 'a, d: list', 'LO(0, a) in d, LO(1, a) not in d', [OBJ_FULL, ['[]', "[1, 'a']", "[float('nan')]", "[RC('t')]", "[RC('raise'), 1]"]]),
        ('in/obj-tuple', 'a, d: tuple', 'LO(0, a) in d', [OBJ_FULL, ['()', "(1, 'a')", "(RC('f'), 1)"]]),
        ('in/obj-obj', 'a, d', 'LO(0, a) in LO(1, d)', [OBJ_FULL, OBJ_FULL + ["'abc'", "b'ab'", '{1: 2}', '{1}', 'range(3)', "RC('T')"]]),
    ):
        b.add(params, 'return ' + expr, tag, Prod(*axes), 's_' + tag)
    return b


MEMBERS = ['1', '1.0', 'True', "'a'", 'None']
XOBJ = ['1', '1.0', 'True', "'a'", 'None', '0', '2', "float('nan')", "b'a'", "RC('t')", "RC('f')", "RC('raise')", '[1]', '1j', "'b'", 'False']


def family_literals(tier):
    quick = tier == 'quick'
    b = Builder()
    maxlen = 3
    displays = []
    for n in range(maxlen + 1):
        for seq in itertools.product(MEMBERS, repeat=n):
            displays.append(seq)
    def lit(kind, seq):
        if kind == 'tuple':
            return '(%s%s)' % (', '.join(seq), ',' if len(seq) == 1 else '')
        if kind == 'list':
            return '[%s]' % ', '.join(seq)
        return '{%s}' % ', '.join(seq) if seq else 'set()'
    per = 13
    for kind in ('tuple', 'list', 'set'):
        for i in range(0, len(displays), per):
            group = displays[i:i + per]
            tests = []
            for j, seq in enumerate(group):
                neg = ' not' if (i + j) % 2 else ''
                tests.append('LO(%d, x)%s in %s' % (j, neg, lit(kind, seq)))
            b.add('x', 'return (%s,)' % ', '.join(tests), 'lit/obj/%s/%d' % (kind, i // per), Prod(XOBJ), 'xobj')
    b.add('x', "return LO(0, x) in {1: 2, 1.0: 3, 'a': 4}, LO(1, x) in 'abc', LO(2, x) not in 'abc', LO(3, x) in b'abc', LO(4, x) in '', LO(5, x) in b''",
          'lit/obj/dict-str-bytes', Prod(XOBJ + ["'ab'", "'bc'", "b'ab'", '97', "''", "b''"]), 'xobj2')
    # typed subjects against constants of their type: every sequence (length 1..4) over a 3-constant set
    typed = [
        ('int', 'x: cython.int', 'LI', ['1', '2', '300'], ['0', '1', '2', '3', '299', '300', '301', '-1', '2**31 - 1']),
        ('long', 'x: cython.long', 'LL', ['1', '-1', '4294967297'], ['0', '1', '-1', '2', '4294967297', '4294967296', '1 - 2**32', '-2**63']),
        ('uchar', 'x: cython.uchar', 'LC', ['1', '97', '255'], ['0', '1', '2', '96', '97', '98', '254', '255']),
        ('ucs4', 'x: cython.Py_UCS4', 'LU', ["'a'", "'b'", 'chr(0xe9)'], ["'a'", "'b'", "'c'", 'chr(0xe9)', 'chr(0xe8)', 'chr(0x20ac)', "'\\x00'"]),
        ('double', 'x: cython.double', 'LD', ['1.0', '2.5', '-0.0'], ['0.0', '1.0', '2.5', '-0.0', "float('nan')", '2.0']),
        ('str', 'x: str', 'LS', ["'a'", "'ab'", "''"], ["'a'", "'ab'", "''", "'b'", 'chr(0xe9)', "'a\\x00'"]),
        ('bytes', 'x: bytes', 'LY', ["b'a'", "b'ab'", "b''"], ["b'a'", "b'ab'", "b''", "b'b'", "b'a\\x00'"]),
        ('obj-int', 'x', 'LO', ['1', '2', '300'], XOBJ + ['300', '2**70']),
    ]
    for tname, param, leaf, consts, xs in typed:
        seqs = []
        for n in range(1, (4 if not quick else 3) + 1):
            seqs += list(itertools.product(consts, repeat=n))
        cs = {"'a'": "'a'", "'b'": "'b'", 'chr(0xe9)': "'\\xe9'"}
        for kind in ('tuple', 'list', 'set'):
            if quick and kind == 'list' and tname not in ('int', 'ucs4'):
                continue
            for i in range(0, len(seqs), per):
                tests = []
                for j, seq in enumerate(seqs[i:i + per]):
                    seq = tuple(cs.get(s, s) for s in seq)
                    neg = ' not' if (i + j) % 3 == 1 else ''
                    tests.append('%s(%d, x)%s in %s' % (leaf, j, neg, lit(kind, seq)))
                b.add(param, 'return (%s,)' % ', '.join(tests), 'lit/%s/%s/%d' % (tname, kind, i // per), Prod(xs), 'x_' + tname)
    b.add('x: cython.Py_UCS4', "return LU(0, x) in 'abc', LU(1, x) not in 'abc', LU(2, x) in 'a\\xe9\\u20ac', LU(3, x) in '', LU(4, x) in 'aa'",
          'lit/ucs4/str', Prod(typed[3][4]), 'x_ucs4')
    b.add('x: cython.uchar', "return LC(0, x) in b'abc', LC(1, x) not in b'abc', LC(2, x) in b'a\\xff\\x00', LC(3, x) in b'', LC(4, x) in b'aa'",
          'lit/uchar/bytes', Prod(typed[2][4]), 'x_uchar')
    b.add('x: cython.int', "return LI(0, x) in b'abc', LI(1, x) not in b'abc', LI(2, x) in 'abc'" if False else
          "return LI(0, x) in b'abc', LI(1, x) not in b'a\\xff'", 'lit/int/bytes', Prod(['96', '97', '99', '100', '255', '0', '128']), 'x_intb')
    return b


def family_switch(tier):
    quick = tier == 'quick'
    b = Builder()
    subjects = [
        ('int', 'x: cython.int', ['1', '2', '3', '300'], ['0', '1', '2', '3', '4', '299', '300', '301', '-1']),
        ('uchar', 'x: cython.uchar', ['1', '2', '3', '300'], ['0', '1', '2', '3', '4', '44', '255']),
        ('ucs4', 'x: cython.Py_UCS4', ["'a'", "'b'", "'c'", "'\\xe9'"], ["'a'", "'b'", "'c'", "'d'", 'chr(0xe9)', 'chr(0x20ac)', "'\\x00'"]),
        ('long', 'x: cython.long', ['1', '2', '3', '4294967297'], ['0', '1', '2', '3', '4', '4294967297', '4294967296', '-1']),
        ('obj', 'x', ['1', '2', '3', '300'], ['0', '1', '2', '3', '300', '1.0', 'True', "'a'", 'None', "RC('f')"]),
    ]
    for sname, param, (c1, c2, c3, big), xs in subjects:
        pool = ['x == %s' % c1, '%s == x' % c2, 'x == %s or x == %s' % (c1, c2), 'x in (%s, %s)' % (c2, c3), 'x in (%s, %s)' % (c1, c1),
                'x == %s' % big, 'x != %s and x != %s' % (c1, c3), 'x not in (%s, %s)' % (c2, big), 'x == %s or x == %s or x == %s' % (c3, c2, c3)]
        if sname == 'ucs4':
            pool.append("x in 'ab'")
        if sname == 'uchar':
            pool.append("x in b'\\x01\\x02'")
        small = [pool[i] for i in (0, 2, 3, 4, 5, 6)]          # 6-condition sub-pool for the deeper layouts
        plan = []                                               # (number of arms, pool, else variants)
        if quick:
            if sname == 'int':
                plan = [(1, pool, (False, True)), (2, pool, (False, True)), (3, small[:5], (True,))]
            elif sname in ('uchar', 'ucs4'):
                plan = [(1, pool, (False, True)), (2, small + pool[9:], (False, True))]
            else:
                plan = [(1, pool, (False, True)), (2, small[:4], (True,))]
        else:
            if sname == 'int':
                plan = [(1, pool, (False, True)), (2, pool, (False, True)), (3, pool, (False, True)), (4, small[:5], (True,))]
            else:
                plan = [(1, pool, (False, True)), (2, pool, (False, True)), (3, small, (False, True))]
        for narms, usepool, elses in plan:
            for layout in itertools.product(range(len(usepool)), repeat=narms):
                if narms == 4 and len(set(layout)) < 3:
                    continue
                for has_else in elses:
                    lines = []
                    for k, ci in enumerate(layout):
                        lines.append('%s %s:' % ('if' if k == 0 else 'elif', usepool[ci]))
                        lines.append("    ev('arm', %d)" % k)
                        lines.append('    r = %d' % (k + 1))
                    if has_else:
                        lines += ['else:', "    ev('arm', 'else')", '    r = -1']
                    else:
                        lines = ['r = 0'] + lines
                    lines.append('return r')
                    b.add(param, '\n'.join(lines), 'switch/%s/%s/%s' % (sname, '-'.join(str(c) for c in layout), 'else' if has_else else 'noelse'),
                          Prod(xs), 'sw_' + sname)
    # condition expressions (CondExprNode / BoolBinopNode paths of the SwitchTransform)
    for sname, param, (c1, c2, c3, big), xs in subjects[:4]:
        b.add(param, 'return (10 if x == %s or x == %s else 20), (x == %s or x == %s or x == %s), (x in (%s, %s, %s)), (x not in (%s, %s))'
              % (c1, c2, c1, c3, c1, c3, c2, c3, c1, big), 'switch-expr/%s' % sname, Prod(xs), 'sw_' + sname)
    return b



# ----------------------------------------------------------------------------- family d: multi-digit int / float pairs
BIGS = ['2**60', '2**60 + 1', '2**64', '2**64 + 1', '2**64 + 2**30', '2**90', '2**90 + 1', '2**90 + 2**31', '2**90 + 2**60',
        '2**120', '2**120 + 1', '2**120 + 2**30', '2**120 + 2**61', '2**120 + 2**91']
NUMS = (BIGS + ['-(%s)' % v for v in BIGS] +
        ['0', '1', '-1', '2**30 - 1', '2**30', '2**30 + 1', '2**31', '2**53', '2**53 + 1', '-2**53 - 1', '2**59 + 1', '-2**30'])
FLTS = ['0.0', '-0.0', '1.0', '1.5', '2.0**30', '2.0**53', '2.0**53 + 2', '2.0**60', '2.0**64', '-2.0**64', '2.0**90', '1e300',
        "float('inf')", "float('-inf')", "float('nan')", '-1.5']


def family_numeric(tier):
    """Every pair of multi-digit Python ints that differ in exactly one 30-bit digit (each digit position of 3-, 4- and
    5-digit ints), in sign, or in digit count, plus int/float boundary pairs - through the PyObjectCompare helpers."""
    quick = tier == 'quick'
    b = Builder()
    forms = [('oo', 'a, b', NUMS + FLTS[:8], NUMS + FLTS[:8]), ('ii', 'a: int, b: int', NUMS, NUMS), ('io', 'a: int, b', NUMS, NUMS + FLTS),
             ('oi', 'a, b: int', NUMS + FLTS, NUMS), ('if', 'a: int, b: float', NUMS, FLTS), ('fi', 'a: float, b: int', FLTS, NUMS),
             ('fo', 'a: float, b', FLTS, NUMS + FLTS), ('of', 'a, b: float', NUMS + FLTS, FLTS), ('ff', 'a: float, b: float', FLTS, FLTS)]
    for fname, params, va, vb in forms:
        for op in CMP6:
            b.add(params, 'return a %s b' % op, 'num/%s/%s' % (fname, op), Prod(va, vb), 'n_%s' % fname)
            if op in ('==', '<', '!=') or not quick:
                b.add(params, 'if a %s b:\n    return 1\nreturn 0' % op, 'num-if/%s/%s' % (fname, op), Prod(va, vb), 'n_%s' % fname)
    tri = BIGS[:8] + ['-(2**64)', '-(2**64 + 1)', '1', '2.0**64']
    if quick:
        tri = tri[:5] + tri[8:]
    for params, tname in (('a, b, c', 'ooo'), ('a: int, b: int, c: int', 'iii'), ('a: int, b, c: int', 'ioi')):
        vals = tri if tname != 'iii' else [v for v in tri if '.' not in v]
        for ops in (('<', '<'), ('==', '=='), ('<=', '!='), ('!=', '>'), ('==', '<')):
            b.add(params, 'return LO(0, a) %s LO(1, b) %s LO(2, c)' % ops, 'num-chain/%s/%s' % (tname, ','.join(ops)), Prod(vals, vals, vals), 'n3_' + tname)
        b.add(params, 'return LO(0, a) in (b, c), LO(1, a) not in [b, c]', 'num-in/%s' % tname, Prod(vals, vals, vals), 'n3_' + tname)
        b.add(params, "if a == b:\n    ev('arm', 0)\n    return 1\nelif a == c:\n    ev('arm', 1)\n    return 2\nelif a < c:\n    return 3\nreturn 0",
              'num-elif/%s' % tname, Prod(vals, vals, vals), 'n3_' + tname)
    big_lits = ['2**64', '2**64 + 1', '-(2**64)', '2**90 + 2**31']
    b.add('x', 'return (%s)' % ', '.join('x == %d, %d != x, x < %d, x in (%d, 1)' % ((eval(v),) * 4) for v in big_lits), 'num-lit/obj',
          Prod(NUMS + FLTS[:9]), 'n1')
    b.add('x: int', 'return (%s)' % ', '.join('x == %d, %d != x, x < %d, x in (%d, 1)' % ((eval(v),) * 4) for v in big_lits), 'num-lit/int',
          Prod(NUMS), 'n1i')
    return b


# ----------------------------------------------------------------------------- family e: switch subjects that are C attributes
ATTR_PRELUDE = PRELUDE + """
@cython.cclass
class Inner:
    kind: cython.int
    def __init__(self, kind):
        self.kind = kind

@cython.cclass
class Outer:
    kind: cython.int
    other: cython.int
    b: Inner
    def __init__(self, kind, other, bkind):
        self.kind = kind
        self.other = other
        self.b = Inner(bkind)
"""


def family_attr_switch(tier):
    """SwitchTransform subjects that are C-typed attribute accesses: the same attribute of the same object (one common
    subject), the same attribute NAME on two different objects, two attribute names on one object, a.b.kind vs c.b.kind.
    a = Outer(p, q, p), c = Outer(q, p, q): the first subject always has the value p, the second q (p for same-object pairs)."""
    quick = tier == 'quick'
    b = Builder()
    pairs = [('same', 'a.kind', 'a.kind'), ('two-objects', 'a.kind', 'c.kind'), ('two-attrs', 'a.kind', 'a.other'),
             ('nested-two-objects', 'a.b.kind', 'c.b.kind'), ('nested-same', 'a.b.kind', 'a.b.kind'), ('nested-vs-plain', 'a.b.kind', 'c.kind'),
             ('attr-vs-local', 'a.kind', 'q')]
    vals = [str(v) for v in range(5)]
    setup = 'a: Outer = Outer(p, q, p)\nc: Outer = Outer(q, p, q)\n'
    for pname, s1, s2 in pairs:
        exprs = ['{0} == 1 or {1} == 2', '{0} == 1 or {1} == 2 or {0} == 3', '{0} != 1 and {1} != 2', '10 if ({0} == 1 or {1} == 2) else 20',
                 '{0} in (1, 2) or {1} in (2, 3)', '{1} == 2 or {0} == 1 or {1} == 4', '{0} not in (1, 2) and {1} != 3']
        for k, e in enumerate(exprs):
            b.add('p: cython.int, q: cython.int', setup + 'return ' + e.format(s1, s2), 'attr-switch/%s/expr%d' % (pname, k), Prod(vals, vals), 'pq')
        p1 = ['{0} == 1', '{0} == 1 or {0} == 2', '{0} in (1, 3)']
        p2 = ['{1} == 2', '{1} == 2 or {1} == 3', '{1} in (2, 4)', '{1} == 1']
        p3 = [None, '{0} == 4', '{1} == 0 or {0} == 0']
        if quick:
            p2, p3 = p2[:3], p3[:2]
        for (i1, c1), (i2, c2), (i3, c3), has_else in itertools.product(enumerate(p1), enumerate(p2), enumerate(p3), (False, True)):
            lines = ['if %s:' % c1.format(s1, s2), "    ev('arm', 0)", '    r = 1', 'elif %s:' % c2.format(s1, s2), "    ev('arm', 1)", '    r = 2']
            if c3:
                lines += ['elif %s:' % c3.format(s1, s2), "    ev('arm', 2)", '    r = 3']
            if has_else:
                lines += ['else:', "    ev('arm', 'else')", '    r = -1']
            else:
                lines = ['r = 0'] + lines
            lines.append('return r')
            b.add('p: cython.int, q: cython.int', setup + '\n'.join(lines),
                  'attr-switch/%s/if%d%d%d/%s' % (pname, i1, i2, i3, 'else' if has_else else 'noelse'), Prod(vals, vals), 'pq')
    return b


def build_key(m, r):
    tags = [f.tag for f in m.funcs]
    t = tags[0] if tags else m.name
    if t.startswith(('switch/', 'attr-switch/')):
        t = '/'.join(t.split('/')[:2])
    return 'build-failure|%s|%s' % (r.stage, t)


def keyfn(tag, inp, exp, got):
    """family/operand typing/operators (switch: subject type only) | operand classes | first divergent event | divergence"""
    div = e2.divclass(exp, got)
    where = ''
    try:
        le, lg = exp[-1], got[-1]
        if le != lg:
            k = 0
            while k < len(le) and k < len(lg) and le[k] == lg[k]:
                k += 1
            cls = lambda l: 'END' if k >= len(l) else '/'.join(l[k][:2]) if l[k][0] != 'leaf' else 'leaf'
            where = '%s->%s' % (cls(le), cls(lg))
    except Exception:
        where = '?'
    parts = tag.split('/')
    if parts[0] == 'switch':
        # an if-chain over an untyped subject is not switchable: its `in` / `not in` conditions are plain literal-container
        # membership tests of objects and are keyed with that family
        tag = 'switch/' + parts[1] if parts[1] != 'obj' else 'lit/obj/if-chain'
    elif parts[0] == 'lit':
        tag = '/'.join(parts[:3])
    elif parts[0] == 'attr-switch':
        tag, where = '/'.join(parts[:2]), ''          # which arm is taken wrongly depends on the values only
    elif parts[0].startswith('num'):
        tag, where = 'num/' + parts[1], ''
    cl = sorted(set(g5.classify(e).split(':')[0].split('[')[0] for e in inp))
    return '%s|%s|%s|%s' % (tag, ','.join(cl), where, div)


def run(ctx):
    fams = [('c19a', family_chains(ctx.tier), 50, PRELUDE), ('c19b', family_literals(ctx.tier), 30, PRELUDE),
            ('c19c', family_switch(ctx.tier), 80, PRELUDE), ('c19d', family_numeric(ctx.tier), 40, PRELUDE),
            ('c19e', family_attr_switch(ctx.tier), 90, ATTR_PRELUDE)]
    flt = os.environ.get('VERIF_G5_FILTER')
    mods = []
    nf = 0
    for prefix, b, per, prelude in fams:
        parts = [p for p in b.parts if not flt or flt in p.funcs[0].tag]
        nf += len(parts)
        for i in range(0, len(parts), per):
            mods.append(e2.Mod('%s_%d' % (prefix, i // per), prelude, parts[i:i + per], b.sets, ext='.py', use_log=True))
            if prefix in ('c19c', 'c19e') and (ctx.tier == 'thorough' or i == 0):
                mods.append(e2.Mod('%sns_%d' % (prefix, i // per), prelude, parts[i:i + per], b.sets, ext='.py', use_log=True,
                                   directives={'optimize.use_switch': False}))
    ctx.log('%d functions in %d modules' % (nf, len(mods)))
    st = g5.run_diff(ctx, mods, keyfn=keyfn, reach=REACH, timeout=600, groups_per_mod=2, build_key=build_key)
    allp = [p for _, b, _, _ in fams for p in b.parts]
    samples = [{'function': allp[i].src, 'tag': allp[i].funcs[0].tag} for i in (0, len(allp) // 2, len(allp) - 1)]
    cov = g5.cov_from(st, 'every (function, operand tuple); counted once per distinct (function, reference outcome + evaluation log)', samples,
                      {'chain_functions': len(fams[0][1].parts), 'literal_functions': len(fams[1][1].parts),
                       'switch_functions': len(fams[2][1].parts), 'numeric_pair_functions': len(fams[3][1].parts),
                       'attribute_switch_functions': len(fams[4][1].parts), 'use_switch_off_modules': sum(1 for m in mods if 'ns_' in m.name)})
    return cov, ['is/is not only between Python objects', 'C-typed operands only receive representable values']


def replay(ctx, case):
    return g5.replay(ctx, case)
