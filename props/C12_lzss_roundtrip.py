"""C12 - the LZSS string-table compression round-trips.

Implementation under test: compressor = staged pure-Python Cython.LZSS.lzss_compress; decompressor =
the text of __pyx_lzss_decompress *extracted from the current Cython/Utility/StringTools.c* (section
DecompressString_LZSS, brace-matched function body), wrapped in a small main() that reads
(compressed, uncompressed_length) records, copies the compressed bytes into an exactly sized malloc
block, decompresses into an exactly sized malloc block and prints consumed length + output; built with
clang -fsanitize=address,undefined -fno-sanitize-recover=all -O1, so any read/write outside
src[0..clen) / dst[0..ulen) aborts with a report that is attributed to the record.

Enumerated (all complete):
 (a) all byte strings of length <= 10 over {a,b} and <= 7 over {a,b,c}  (thorough: <= 12 / <= 8);
 (b) planted matches  P | G | P  with |P| = L in {3,4,5,34,35,36,257,258,259,300} and |G| = E for every encoded
     offset E at each encoding boundary +-2 ({0..2, 0x7D..0x82, 0x27D..0x282, 0x3FFD..0x4002, 0x407D..0x4082 (quick) /
     0x3FFD..0x4082 (thorough), window+MAX_MATCH +-2}), fillers with pairwise distinct 3-grams (de Bruijn B(32,3));
     two competing candidates (longer-farther vs shorter-closer); matches at the end of input with the last token at
     every position of its flag byte (0..8 leading literals);
 (c) long repetitive inputs: 'ab'*n, bytes(range(256))*n, cycled de Bruijn sequences B(6,3) and B(32,3) at total
     sizes 255..260, 16 KiB +-3, 64 KiB +-3 (thorough also 100 KiB).
Oracle (three-way): C decompressor output == input, consumed == len(compressed), no sanitizer report;
an independent Python decoder of the stream format must agree too (so a fault is attributed to the
compressor or to the decompressor).  Anti-vacuity: the three back-reference encodings, literals, and
final-flag padding are counted from the streams.
"""
import os, re, struct, subprocess, itertools
from vlib import farm

LEVEL = 'model_checking'
ENGINE = 'E1 pyexplore'
TECHNIQUE = 'exhaustive small strings + complete boundary grid of planted matches; real compressor vs extracted C decompressor under ASan/UBSan vs independent stream decoder'
LEVEL_TEXT = ('All strings of length <= 10 over 2 letters and <= 7 over 3 letters (thorough 12 / 8), a complete grid of planted '
              'back-references (10 match lengths x every encoded offset within +-2 of each encoding-class and window boundary, competing '
              'candidates, every final flag-bit position) and long periodic inputs at the size boundaries are compressed by the real '
              'lzss_compress and decompressed by __pyx_lzss_decompress extracted from StringTools.c, compiled stand-alone with clang '
              'ASan+UBSan on exactly sized heap buffers; output, consumed length and an independent Python stream decoder must agree.')
LEVEL_NOTE = ('Bounded lengths/alphabets; the empty string is excluded (the compressor returns b"" and the generated module never '
              'decompresses an empty table).  The PyObject wrapper __Pyx_DecompressString_LZSS (allocation, length comparison) is '
              'modelled by the main() of the harness, not executed.  Trusted: clang 14 sanitizers, the Python stream decoder.  '
              'Quick shrinks the 0x3FFD..0x4082 offset range to the two ends and omits 100 KiB.')

WINDOW_SIZE = (1 << 14) + 128
MAX_MATCH = 258


# ---------------------------------------------------------------------------- independent stream decoder
class StreamError(Exception):
    pass


def py_decode(comp, ulen):
    """Decode the LZSS stream format (as documented in LZSS.py / StringTools.c).  Returns (bytes, consumed, stats)."""
    out = bytearray()
    pos = 0
    n = len(comp)
    stats = {'lit': 0, 'ref7': 0, 'ref9': 0, 'ref14': 0, 'pad_bits': 0}

    def get():
        nonlocal pos
        if pos >= n:
            raise StreamError('read past the end of the compressed data at %d' % pos)
        v = comp[pos]
        pos += 1
        return v
    while True:
        flags = get()
        for bit in range(8):
            if (flags >> bit) & 1:
                out.append(get())
                stats['lit'] += 1
            else:
                lo = get()
                hi = get()
                if not lo & 0x80:
                    off, ln = lo, hi
                    stats['ref7'] += 1
                elif not hi & 0x80:
                    off = 0x80 + (((hi << 2) & 0x180) | (lo & 0x7F))
                    ln = hi & 0x1F
                    stats['ref9'] += 1
                else:
                    off = 0x80 + (((hi & 0x7F) << 7) | (lo & 0x7F))
                    ln = get()
                    stats['ref14'] += 1
                ln += 3
                ref = len(out) - off - ln
                if ref < 0:
                    raise StreamError('back reference before the start of the output (ref %d)' % ref)
                if len(out) + ln > ulen:
                    raise StreamError('back reference writes past the output length')
                out += out[ref:ref + ln]
            if len(out) >= ulen:
                stats['pad_bits'] = 7 - bit
                return bytes(out), pos, stats


# ---------------------------------------------------------------------------- C harness
HARNESS_HEAD = r'''
#include <stdint.h>
#include <stddef.h>
#include <string.h>
#include <stdio.h>
#include <stdlib.h>
#define CYTHON_UNUSED __attribute__((unused))
#define CYTHON_SMALL_CODE
#define likely(x) (x)
#define unlikely(x) (x)
'''
HARNESS_MAIN = r'''
int main(void) {
    for (;;) {
        uint32_t hdr[2];
        if (fread(hdr, 4, 2, stdin) != 2) break;
        size_t clen = hdr[0], ulen = hdr[1];
        uint8_t *src = (uint8_t*) malloc(clen ? clen : 1);      /* exact size: ASan red zone right behind */
        uint8_t *dst = (uint8_t*) malloc(ulen ? ulen : 1);
        if (!src || !dst) return 3;
        if (clen && fread(src, 1, clen, stdin) != clen) return 4;
        memset(dst, 0xEE, ulen);
        size_t consumed = __pyx_lzss_decompress(src, dst, ulen);
        uint64_t c64 = consumed;
        fwrite(&c64, 8, 1, stdout);
        fwrite(dst, 1, ulen, stdout);
        fflush(stdout);
        free(src);
        free(dst);
    }
    return 0;
}
'''


def extract_decompressor(stage_root):
    path = os.path.join(stage_root, 'Cython', 'Utility', 'StringTools.c')
    with open(path, encoding='utf-8') as f:
        text = f.read()
    m = re.search(r'^/{5,} *DecompressString_LZSS */{5,}\s*$', text, re.M)
    if not m:
        raise RuntimeError('section DecompressString_LZSS not found in StringTools.c')
    rest = text[m.end():]
    m2 = re.search(r'^/{5,} *[\w.]+ */{5,}\s*$', rest, re.M)
    section = rest[:m2.start()] if m2 else rest
    m3 = re.search(r'static[^;{]*\b__pyx_lzss_decompress\s*\([^)]*\)\s*\{', section)
    if not m3:
        raise RuntimeError('__pyx_lzss_decompress not found in its section')
    i = m3.end()
    depth = 1
    while depth and i < len(section):
        c = section[i]
        if c == '{':
            depth += 1
        elif c == '}':
            depth -= 1
        i += 1
    if depth:
        raise RuntimeError('unbalanced braces in __pyx_lzss_decompress')
    return section[m3.start():i]


def build_harness(ctx):
    wd = ctx.workdir('lzss')
    func = extract_decompressor(ctx.stage_root)
    src = os.path.join(wd, 'harness.c')
    with open(src, 'w') as f:
        f.write(HARNESS_HEAD + func + '\n' + HARNESS_MAIN)
    exe = os.path.join(wd, 'harness')
    cmd = ['clang', '-std=c99', '-O1', '-g', '-fsanitize=address,undefined', '-fno-sanitize-recover=all',
           '-fno-omit-frame-pointer', src, '-o', exe]
    p = subprocess.run(cmd, stdout=subprocess.PIPE, stderr=subprocess.STDOUT, text=True)
    if p.returncode != 0:
        raise RuntimeError('harness does not compile: %s' % p.stdout[-2000:])
    return exe, func


def run_harness(exe, records):
    """records: list of (compressed, ulen).  Returns list of ('ok', consumed, bytes) | ('crash', report)."""
    results = []
    start = 0
    env = dict(os.environ, ASAN_OPTIONS='detect_leaks=0:abort_on_error=0:exitcode=86:symbolize=0', UBSAN_OPTIONS='print_stacktrace=0:halt_on_error=1:symbolize=0')
    while start < len(records):
        payload = b''.join(struct.pack('<II', len(c), u) + c for c, u in records[start:])
        p = subprocess.run([exe], input=payload, stdout=subprocess.PIPE, stderr=subprocess.PIPE, env=env)
        data = p.stdout
        pos = 0
        k = start
        while k < len(records) and pos + 8 + records[k][1] <= len(data):
            (consumed,) = struct.unpack_from('<Q', data, pos)
            pos += 8
            u = records[k][1]
            results.append(('ok', consumed, data[pos:pos + u]))
            pos += u
            k += 1
        if k < len(records):
            # the process died while handling record k
            rep = p.stderr.decode('latin-1', 'replace')
            m = re.search(r'(ERROR: AddressSanitizer: [\w-]+|runtime error: [^\n]*|SEGV[^\n]*)', rep)
            results.append(('crash', (m.group(1) if m else 'exit status %d' % p.returncode), rep[:1500]))
            k += 1
        start = k
    return results


# ---------------------------------------------------------------------------- input families
def de_bruijn(k, n):
    """de Bruijn sequence B(k, n) as a list of ints in range(k) (standard Lyndon-word construction)."""
    a = [0] * (k * n)
    seq = []

    def db(t, p):
        if t > n:
            if n % p == 0:
                seq.extend(a[1:p + 1])
        else:
            a[t] = a[t - p]
            db(t + 1, p)
            for j in range(a[t - p] + 1, k):
                a[t] = j
                db(t + 1, t)
    import sys
    old = sys.getrecursionlimit()
    sys.setrecursionlimit(10000)
    try:
        db(1, 1)
    finally:
        sys.setrecursionlimit(old)
    return seq


_DB = {}


def filler(n, base):
    """n bytes with pairwise distinct 3-grams, drawn from 32 byte values starting at `base`."""
    if 32 not in _DB:
        _DB[32] = de_bruijn(32, 3)
    seq = _DB[32]
    assert n <= len(seq)
    return bytes(base + v for v in seq[:n])


def cycled(seq_bytes, total):
    reps = total // len(seq_bytes) + 1
    return (seq_bytes * reps)[:total]


L_VALUES = [3, 4, 5, 34, 35, 36, 257, 258, 259, 300]


def e_values(thorough):
    ev = [0, 1, 2] + list(range(0x7D, 0x83)) + list(range(0x27D, 0x283))
    if thorough:
        ev += list(range(0x3FFD, 0x4083))
    else:
        ev += list(range(0x3FFD, 0x4003)) + list(range(0x407D, 0x4083))
    ev += list(range(WINDOW_SIZE + MAX_MATCH - 2, WINDOW_SIZE + MAX_MATCH + 3))
    return ev


def planted_specs(thorough):
    """Yield (tag, spec) where spec is a tuple understood by make_planted."""
    for L in L_VALUES:
        for E in e_values(thorough):
            yield ('planted L=%d E=%#x' % (L, E), ('single', L, E, 0))
    # last token at every flag-bit position: k leading literals
    for L in (3, 36, 259):
        for E in (0, 0x80, 0x280):
            for k in range(0, 9):
                yield ('endpad L=%d E=%#x lead=%d' % (L, E, k), ('single', L, E, k))
    # competing candidates: far long (L) vs near short (L2)
    for L in (5, 36, 259):
        for L2 in sorted({3, 4, L - 1}):
            if L2 >= L:
                continue
            for E2 in (0, 0x7E, 0x80, 0x27F, 0x280):
                for E1 in (0, 0x7F, 0x200):
                    yield ('compete L=%d L2=%d E1=%#x E2=%#x' % (L, L2, E1, E2), ('compete', L, L2, E1, E2))


def make_planted(spec):
    if spec[0] == 'single':
        _, L, E, lead = spec
        P = filler(L, 128)
        G = filler(E, 32)
        head = filler(lead, 192) if lead else b''
        return head + P + G + P
    _, L, L2, E1, E2 = spec
    P = filler(L, 128)
    G1 = filler(E1, 32)
    G2 = filler(E2 + 8, 64)[8:] if E2 else b''
    near = P[:L2] + b'\xf0'
    return P + G1 + near + G2 + P


def long_specs(thorough):
    sizes = list(range(255, 261)) + list(range(16 * 1024 - 3, 16 * 1024 + 4)) + list(range(64 * 1024 - 3, 64 * 1024 + 4))
    if thorough:
        sizes.append(100 * 1024)
    for pat in ('ab', 'range256', 'db6', 'db32'):
        for total in sizes:
            yield ('long %s size=%d' % (pat, total), (pat, total))


def make_long(spec):
    pat, total = spec
    if pat == 'ab':
        return cycled(b'ab', total)
    if pat == 'range256':
        return cycled(bytes(range(256)), total)
    if pat == 'db6':
        return cycled(bytes(97 + v for v in de_bruijn(6, 3)), total)
    return cycled(filler(32768, 64), total)


def small_strings(thorough):
    n2, n3 = (12, 8) if thorough else (10, 7)
    for k in range(1, n2 + 1):
        for t in itertools.product(b'ab', repeat=k):
            yield bytes(t)
    for k in range(1, n3 + 1):
        for t in itertools.product(b'abc', repeat=k):
            if 99 in t:                    # strings without 'c' are in the first family
                yield bytes(t)


# ---------------------------------------------------------------------------- jobs
def _compress_job(arg):
    kind, items = arg
    from Cython.LZSS import lzss_compress
    out = []
    for tag, spec in items:
        if kind == 'small':
            data = spec
        elif kind == 'planted':
            data = make_planted(spec)
        else:
            data = make_long(spec)
        try:
            comp = lzss_compress(data)
            err = None
        except Exception as e:
            comp = b''
            err = '%s: %s' % (type(e).__name__, e)
        out.append((kind, tag, spec, data, comp, err))
    return out


def judge(kind, tag, data, comp, err, cres):
    """Three-way oracle.  Returns (None | (class, description), stats)."""
    if err:
        return ('compress-exception', 'lzss_compress raised %s' % err), None
    stats = None
    try:
        pout, pcons, stats = py_decode(comp, len(data))
        pbad = None
        if pout != data:
            pbad = 'stream decodes to different bytes (first difference at %d)' % next(
                (i for i, (x, y) in enumerate(zip(pout, data)) if x != y), min(len(pout), len(data)))
        elif pcons != len(comp):
            pbad = 'stream decoder consumes %d of %d compressed bytes' % (pcons, len(comp))
    except StreamError as e:
        pbad = 'stream is malformed: %s' % e
    if cres[0] == 'crash':
        cbad = 'C decompressor aborts: %s' % cres[1]
    elif cres[2] != data:
        cbad = 'C decompressor output differs (first difference at %d)' % next(
            (i for i, (x, y) in enumerate(zip(cres[2], data)) if x != y), min(len(cres[2]), len(data)))
    elif cres[1] != len(comp):
        cbad = 'C decompressor consumed %d of %d compressed bytes' % (cres[1], len(comp))
    else:
        cbad = None
    if pbad and cbad:
        return ('compressor', 'compressor output is wrong for both decoders: %s; %s' % (pbad, cbad)), stats
    if cbad:
        cls = 'decompressor-crash' if cres[0] == 'crash' else 'decompressor'
        return (cls, 'stream is valid per the format decoder but %s' % cbad), stats
    if pbad:
        return ('format-decoder', 'C decompressor round-trips but the independent decoder says: %s' % pbad), stats
    return None, stats


def shape(kind, spec, data):
    """Coarse input class for the violation key (one root cause -> few keys)."""
    if kind == 'small':
        return 'small'
    if kind == 'planted':
        if spec[0] == 'single':
            E = spec[2]
            return 'planted:' + ('E<=7F' if E <= 0x7F else ('E<=27F' if E < 0x280 else ('E<win' if E < WINDOW_SIZE else 'E>=win')))
        return 'compete'
    return 'long'


def run(ctx):
    thorough = not ctx.quick
    exe, func = build_harness(ctx)
    ctx.log('decompressor extracted (%d chars) and built with clang ASan+UBSan' % len(func))
    smalls = [('small', s) for s in small_strings(thorough)]
    planted = list(planted_specs(thorough))
    longs = list(long_specs(thorough))
    jobs = [('small', smalls[i:i + 800]) for i in range(0, len(smalls), 800)]
    jobs += [('planted', planted[i:i + 6]) for i in range(0, len(planted), 6)]
    jobs += [('long', [x]) for x in longs]
    if ctx.seed:
        import random
        random.Random(ctx.seed).shuffle(jobs)
    ctx.log('%d small strings, %d planted, %d long inputs' % (len(smalls), len(planted), len(longs)))
    res = farm.pmap(_compress_job, jobs)
    items = [x for r in res for x in r]
    items.sort(key=lambda x: (x[0], len(x[3]), x[1] if isinstance(x[1], str) else '', x[3][:64]))
    ctx.log('compressed %d inputs; decompressing under sanitizers' % len(items))
    records = [(x[4], len(x[3])) for x in items]
    # decompress in parallel batches
    batches = [records[i:i + 400] for i in range(0, len(records), 400)]
    cres_b = farm.pmap(_harness_job, [(exe, b) for b in batches])
    cres = [r for b in cres_b for r in b]
    tot = {'lit': 0, 'ref7': 0, 'ref9': 0, 'ref14': 0}
    pad_seen = set()
    viol = {}
    nfail = 0
    fam = {}
    maxlen = 0
    for (kind, tag, spec, data, comp, err), cr in zip(items, cres):
        fam[kind] = fam.get(kind, 0) + 1
        maxlen = max(maxlen, len(data))
        bad, stats = judge(kind, tag, data, comp, err, cr)
        if stats:
            for k in tot:
                tot[k] += stats[k]
            pad_seen.add(stats['pad_bits'])
        if bad:
            nfail += 1
            key = 'lzss|%s|%s' % (bad[0], shape(kind, spec, data))
            cur = viol.get(key)
            if cur is None or len(data) < cur[2]:
                case = {'kind': kind, 'tag': tag if isinstance(tag, str) else None,
                        'spec': list(spec) if isinstance(spec, tuple) else None,
                        'data_hex': data.hex() if len(data) <= 4096 else None}
                viol[key] = ['%s: %s' % (tag if kind != 'small' else repr(data), bad[1]), case, len(data), (cur[3] if cur else 0) + 1]
            else:
                cur[3] += 1
    for key in sorted(viol):
        what, case, _, cnt = viol[key]
        ctx.violation(key, '%s  [%d raw cases]' % (what, cnt), case)
    reach_gaps = [k for k, v in tot.items() if not v]
    if reach_gaps:
        ctx.log('WARN: encodings never produced: %s' % reach_gaps)
    ex = b'abcabcabc' + filler(10, 32) + b'abcabc'
    from Cython.LZSS import lzss_compress
    cov = {
        'states': len(items), 'transitions': 3 * len(items), 'traces_validated_against_impl': len(items),
        'inputs_by_family': fam, 'max_input_length': maxlen, 'token_counts': tot, 'final_pad_bits_seen': sorted(pad_seen),
        'reach_gaps': reach_gaps, 'failing_inputs': nfail,
        'decompressor_source_chars': len(func),
        'samples': [{'input_hex': ex.hex(), 'compressed_hex': lzss_compress(ex).hex()},
                    {'planted': planted[5][0], 'length': len(make_planted(planted[5][1]))},
                    {'long': longs[0][0]}],
        'exhaustive': True,
    }
    return cov, ['clang 14 AddressSanitizer/UBSan detect every access outside the exactly sized heap blocks',
                 'py_decode in props/C12_lzss_roundtrip.py is an independent reading of the stream format']


def _harness_job(arg):
    exe, recs = arg
    return run_harness(exe, recs)


def replay(ctx, case):
    from Cython.LZSS import lzss_compress
    if case.get('data_hex') is not None:
        data = bytes.fromhex(case['data_hex'])
    elif case['kind'] == 'planted':
        data = make_planted(tuple(case['spec']))
    else:
        data = make_long(tuple(case['spec']))
    exe, _ = build_harness(ctx)
    try:
        comp = lzss_compress(data)
        err = None
    except Exception as e:
        comp, err = b'', '%s: %s' % (type(e).__name__, e)
    cr = run_harness(exe, [(comp, len(data))])[0] if not err else None
    bad, _ = judge(case['kind'], case.get('tag'), data, comp, err, cr)
    if bad:
        return '%s: %s' % (bad[0], bad[1])
    return False
