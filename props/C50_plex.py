"""C50 - the Plex lexer engine recognises exactly its regular-expression rules.

Small-scope enumeration of *lexicons* x *input texts*, each run through the real (staged, pure
Python) Plex pipeline  Regexps.build_machine -> Machines (NFA) -> DFA.nfa_to_dfa (TransitionMap)
-> Scanners.Scanner  and compared with an independent reference matcher that never builds an
automaton: a set-based backtracking matcher over the RE syntax tree and the engine's documented
input-event stream (text 'ab\\nc' is the stream  BOL a b EOL \\n BOL c EOL EOF).

Alphabet (RE terms, written as tuples and translated to Plex constructors):
  leaves   Str('a') Str('ab') Str('a','b') Any('ab') AnyBut('a') AnyChar Range('ac') Bol Eol Eof Empty
           Str('\\n') Any('a\\n') AnyBut('\\n')
  unary    Rep Rep1 Opt NoCase Case          binary  Seq Alt
Families (all enumerated completely, bounds differ per tier, see run()):
  single   one-rule lexicons for ALL terms of depth <= 1 over all leaves and ALL terms of depth 2
           over a core leaf set;
  lists    all ordered lists of <= 2 (thorough: also 3, and 4 from a sub-pool) rules from a
           40-term pool (overlapping prefixes, nullable rules, newline/Bol/Eol/Eof rules, NoCase);
  states   lexicons with IGNORE / TEXT / Begin actions and a second scanner state.
Inputs: ALL strings of length <= 5 over {a, b, A, newline} and of length <= 6 over {a, newline}
(depth-2 single-rule family and, in thorough, the 3- and 4-rule lists: length <= 4).
Oracle, evaluated on every (lexicon, text): the sequence of tokens (rule value, text, line, column)
up to a horizon of 2*events+4 reads, the end-of-file report and the UnrecognizedInput error with
its position equal the reference (longest match counted in events, ties to the earliest rule).
The same texts are also fed (a) through a stream that returns one character per read() (buffer
refill path) and (b) through a 25-line direct simulator of lexicon.machine's state dicts, which
separates construction defects (NFA/DFA/TransitionMap) from scanner-loop defects.
"""
import io, itertools, sys
from vlib import farm

LEVEL = 'model_checking'
ENGINE = 'E1 pyexplore'
TECHNIQUE = 'exhaustive small-scope lexicons x all short texts: real Plex NFA/DFA/Scanner vs independent event-stream backtracking matcher'
LEVEL_TEXT = ('Every one-rule lexicon over all RE terms of depth <= 1 (14 leaves, Rep/Rep1/Opt/NoCase/Case/Seq/Alt) and all depth-2 '
              'terms over a core leaf set, every ordered rule list of length <= 2 (thorough <= 3, and 4 from a sub-pool) from a 40-term '
              'pool, and a family of two-state lexicons with IGNORE/TEXT/Begin actions is built with the real Plex and run on every '
              'text of length <= 5 over {a,b,A,newline} and <= 6 over {a,newline}; token sequence, texts, positions, end-of-file and '
              'UnrecognizedInput must equal an independent backtracking matcher over the BOL/EOL/EOF event stream; a direct simulation '
              'of the DFA tables and a one-character-per-read stream are compared as well.')
LEVEL_NOTE = ('Bounded term depth, rule count and text length; characters outside {a,b,A,newline} are not fed.  Conventions '
              'taken from the engine as defined behaviour (not judged): scanning resumes at the event where the previous token '
              'ended; where only pseudo-events (BOL/EOL/EOF) remain and none is matched the engine may report end of file or UnrecognizedInput (depends on table viability; Scanner vs its tables is still exact); rules matching zero events '
              'repeat forever (compared up to the horizon).  IGNORE/Begin rules are restricted to terms consuming >= 1 event.  '
              'Trusted: the reference matcher in this file.  Design bullet left out: thorough depth-3 terms (depth 2 complete over a larger leaf set instead).')

BOL, EOL, EOF = 'bol', 'eol', 'eof'

# ---------------------------------------------------------------------------- terms
LEAVES = [('str', 'a'), ('str', 'ab'), ('strs', ('a', 'b')), ('any', 'ab'), ('anybut', 'a'), ('anychar',),
          ('range', 'ac'), ('bol',), ('eol',), ('eof',), ('empty',), ('str', '\n'), ('any', 'a\n'), ('anybut', '\n')]
CORE_Q = [('str', 'a'), ('str', 'ab'), ('anybut', 'a'), ('bol',), ('eol',), ('str', '\n')]
CORE_T = CORE_Q + [('any', 'ab'), ('eof',)]
UNARY = ['rep', 'rep1', 'opt', 'nocase', 'case']
BINARY = ['seq', 'alt']


def depth1(leaves):
    out = []
    for u in UNARY:
        for t in leaves:
            out.append((u, t))
    for b in BINARY:
        for t1 in leaves:
            for t2 in leaves:
                out.append((b, t1, t2))
    return out


def depth2(leaves):
    """All terms of depth exactly 2 over the leaves."""
    d1 = depth1(leaves)
    le1 = list(leaves) + d1
    out = []
    for u in UNARY:
        for t in d1:
            out.append((u, t))
    leafset = set(leaves)
    for b in BINARY:
        for t1 in le1:
            for t2 in le1:
                if t1 in leafset and t2 in leafset:
                    continue
                out.append((b, t1, t2))
    return out


def S(*ts):
    r = ts[0]
    for t in ts[1:]:
        r = ('seq', r, t)
    return r


POOL = [
    ('str', 'a'), ('str', 'ab'), ('str', 'aba'), ('strs', ('a', 'b')), ('strs', ('ab', 'a')), ('any', 'ab'),
    ('anybut', 'a'), ('anychar',), ('range', 'ac'), ('range', 'AZ'),
    ('rep1', ('str', 'a')), ('rep1', ('any', 'ab')), ('rep', ('str', 'ab')), ('opt', ('str', 'a')),
    S(('str', 'a'), ('rep', ('str', 'b'))), S(('rep', ('str', 'a')), ('str', 'b')), S(('str', 'a'), ('opt', ('str', 'b')), ('str', 'a')),
    S(('rep1', ('str', 'ab')), ('str', 'a')), ('alt', ('str', 'ab'), ('rep1', ('str', 'a'))),
    ('nocase', ('str', 'a')), ('nocase', ('rep1', ('any', 'ab'))), ('nocase', S(('str', 'a'), ('case', ('str', 'b')))),
    ('bol',), ('eol',), ('eof',), ('empty',), ('str', '\n'), ('anybut', '\n'), ('any', 'a\n'), ('rep1', ('anybut', 'b')),
    S(('bol',), ('str', 'a')), S(('str', 'a'), ('eol',)), S(('eol',), ('str', '\n')), S(('str', '\n'), ('str', 'a')),
    S(('str', 'a'), ('str', '\n'), ('bol',)), S(('rep1', ('str', '\n')), ('str', 'a')), S(('rep', ('anychar',)), ('str', 'b')),
    S(('opt', ('bol',)), ('rep1', ('str', 'a')), ('opt', ('eol',))), S(('eol',), ('eof',)), S(('rep', ('any', 'a\n')), ('eof',)),
]
SUBPOOL4 = [POOL[i] for i in (0, 1, 6, 10, 14, 19, 22, 23, 26, 31)]
NONNULL_POOL = [POOL[i] for i in (0, 1, 5, 6, 10, 14, 22, 23, 26, 30)]


def show(t):
    k = t[0]
    if k == 'str':
        return 'Str(%r)' % t[1]
    if k == 'strs':
        return 'Str(%s)' % ','.join(map(repr, t[1]))
    if k in ('any', 'anybut', 'range'):
        return '%s(%r)' % ({'any': 'Any', 'anybut': 'AnyBut', 'range': 'Range'}[k], t[1])
    if k in ('anychar', 'bol', 'eol', 'eof', 'empty'):
        return {'anychar': 'AnyChar', 'bol': 'Bol', 'eol': 'Eol', 'eof': 'Eof', 'empty': 'Empty'}[k]
    names = {'rep': 'Rep', 'rep1': 'Rep1', 'opt': 'Opt', 'nocase': 'NoCase', 'case': 'Case', 'seq': 'Seq', 'alt': 'Alt'}
    return '%s(%s)' % (names[k], ','.join(show(x) for x in t[1:]))


def size(t):
    return 1 + sum(size(x) for x in t[1:] if isinstance(x, tuple) and x and isinstance(x[0], str) and x[0] in KINDS)


KINDS = {'str', 'strs', 'any', 'anybut', 'range', 'anychar', 'bol', 'eol', 'eof', 'empty', 'rep', 'rep1', 'opt',
         'nocase', 'case', 'seq', 'alt'}
COMPOSITE = {'rep', 'rep1', 'opt', 'nocase', 'case', 'seq', 'alt'}


def to_plex(t):
    from Cython.Plex import Regexps as R
    k = t[0]
    if k == 'str':
        return R.Str(t[1])
    if k == 'strs':
        return R.Str(*t[1])
    if k == 'any':
        return R.Any(t[1])
    if k == 'anybut':
        return R.AnyBut(t[1])
    if k == 'anychar':
        return R.AnyChar
    if k == 'range':
        return R.Range(t[1])
    if k == 'bol':
        return R.Bol
    if k == 'eol':
        return R.Eol
    if k == 'eof':
        return R.Eof
    if k == 'empty':
        return R.Empty
    if k == 'rep':
        return R.Rep(to_plex(t[1]))
    if k == 'rep1':
        return R.Rep1(to_plex(t[1]))
    if k == 'opt':
        return R.Opt(to_plex(t[1]))
    if k == 'nocase':
        return R.NoCase(to_plex(t[1]))
    if k == 'case':
        return R.Case(to_plex(t[1]))
    if k == 'seq':
        return R.Seq(*[to_plex(x) for x in t[1:]])
    if k == 'alt':
        return R.Alt(*[to_plex(x) for x in t[1:]])
    raise ValueError(t)


# ---------------------------------------------------------------------------- event stream
def events(text):
    """Event list of a text plus, per event index (and one past the end), (pos, line, line_start)."""
    ev = [BOL]
    info = [(0, 1, 0)]
    line, ls = 1, 0
    for p, ch in enumerate(text):
        if ch == '\n':
            ev.append(EOL); info.append((p, line, ls))
            ev.append('\n'); info.append((p, line, ls))
            line += 1
            ls = p + 1
            ev.append(BOL); info.append((p + 1, line, ls))
        else:
            ev.append(ch); info.append((p, line, ls))
    n = len(text)
    ev.append(EOL); info.append((n, line, ls))
    ev.append(EOF); info.append((n, line, ls))
    info.append((n, line, ls))
    return tuple(ev), info


# ---------------------------------------------------------------------------- reference matcher
def _cls_has(t, ch, nocase):
    k = t[0]

    def plain(c):
        if k == 'any':
            return c in t[1]
        if k == 'anybut':
            return c not in t[1]
        if k == 'anychar':
            return True
        if k == 'range':
            s = t[1]
            return any(s[i] <= c <= s[i + 1] for i in range(0, len(s), 2))
        raise ValueError(t)
    if plain(ch):
        return True
    if nocase and ch.isascii() and ch.isalpha():
        return plain(ch.swapcase())
    return False


def ends(t, ev, i, nocase=False):
    """Set of event indices at which a match of term t starting at event index i can end."""
    k = t[0]
    n = len(ev)
    if k in ('any', 'anybut', 'anychar', 'range'):
        res = set()
        starts = [i]
        if i < n and ev[i] == BOL:
            starts.append(i + 1)
        for s in starts:
            if s >= n:
                continue
            e = ev[s]
            if len(e) == 1 and e != '\n':
                if _cls_has(t, e, nocase):
                    res.add(s + 1)
            elif _cls_has(t, '\n', False):
                m = s + 1 if e == EOL else s
                if m < n and ev[m] == '\n':
                    res.add(m + 1)
        return res
    if k == 'str':
        cur = {i}
        for ch in t[1]:
            nxt = set()
            for j in cur:
                nxt |= ends(('any', ch), ev, j, nocase)
            cur = nxt
            if not cur:
                break
        return cur
    if k == 'strs':
        res = set()
        for s in t[1]:
            res |= ends(('str', s), ev, i, nocase)
        return res
    if k == 'bol':
        return {i + 1} if i < n and ev[i] == BOL else set()
    if k == 'eof':
        return {i + 1} if i < n and ev[i] == EOF else set()
    if k == 'eol':
        res = set()
        if i < n and ev[i] == EOL:
            res.add(i + 1)
        if i + 1 < n and ev[i] == BOL and ev[i + 1] == EOL:
            res.add(i + 2)
        return res
    if k == 'empty':
        return {i}
    if k == 'seq':
        cur = {i}
        for sub in t[1:]:
            nxt = set()
            for j in cur:
                nxt |= ends(sub, ev, j, nocase)
            cur = nxt
            if not cur:
                break
        return cur
    if k == 'alt':
        res = set()
        for sub in t[1:]:
            res |= ends(sub, ev, i, nocase)
        return res
    if k == 'opt':
        return {i} | ends(t[1], ev, i, nocase)
    if k in ('rep1', 'rep'):
        res = set()
        frontier = {i}
        while frontier:
            new = set()
            for j in frontier:
                new |= ends(t[1], ev, j, nocase)
            new -= res
            res |= new
            frontier = new
        if k == 'rep':
            res.add(i)
        return res
    if k == 'nocase':
        return ends(t[1], ev, i, True)
    if k == 'case':
        return ends(t[1], ev, i, False)
    raise ValueError(t)


def consumes_event(t):
    """Syntactic: every match of t consumes at least one event."""
    k = t[0]
    if k in ('empty', 'rep', 'opt'):
        return False
    if k == 'str':
        return len(t[1]) > 0
    if k == 'strs':
        return all(len(s) > 0 for s in t[1])
    if k in ('rep1', 'nocase', 'case'):
        return consumes_event(t[1])
    if k == 'seq':
        return any(consumes_event(x) for x in t[1:])
    if k == 'alt':
        return all(consumes_event(x) for x in t[1:])
    return True


# A lexicon description:  {'': [(term, action), ...], 's': [...]}  with action one of
#   ('ret', name) | ('text',) | ('ignore',) | ('begin', state)
def ref_scan(lex, text, horizon, memo):
    """Reference token sequence: list of ('tok', value, text, line, col) ... ending in ('eof',) /
    ('err', line, col) / ('horizon',)."""
    ev, info = events(text)
    n = len(ev)
    out = []
    state = ''
    i = 0
    reads = 0
    steps = 0
    while True:
        if reads >= horizon or steps > 4 * horizon:
            out.append(('horizon',))
            return out
        steps += 1
        key = (state, ev[i:])
        hit = memo.get(key)
        if hit is None:
            best_len, best_rule = -1, None
            for ri, (term, action) in enumerate(lex[state]):
                e = ends(term, ev, i)
                if e:
                    m = max(e) - i
                    if m > best_len:
                        best_len, best_rule = m, ri
            hit = (best_len, best_rule)
            memo[key] = hit
        best_len, best_rule = hit
        pos, line, ls = info[i]
        if best_rule is None:
            if any(len(e) == 1 for e in ev[i:]):
                out.append(('err', line, pos - ls))
            else:
                # only pseudo-events (BOL/EOL/EOF) remain and no rule matches them: the engine reports end of file or
                # UnrecognizedInput depending on how far its tables could follow the pseudo-events (e.g. a rule
                # Seq(Opt(Eof), Eol) lets the tables step over EOF, which turns end-of-file into an error).  Not judged
                # against the reference; the Scanner is still compared exactly with the simulation of its own tables.
                out.append(('end', line, pos - ls))
            return out
        j = i + best_len
        toktext = ''.join(e for e in ev[i:j] if len(e) == 1)
        action = lex[state][best_rule][1]
        i = j
        if action[0] == 'ret':
            out.append(('tok', action[1], toktext, line, pos - ls)); reads += 1
        elif action[0] == 'text':
            out.append(('tok', toktext, toktext, line, pos - ls)); reads += 1
        elif action[0] == 'begin':
            state = action[1]
        # ignore: nothing


# ---------------------------------------------------------------------------- implementation drivers
class OneCharStream:
    def __init__(self, text):
        self.text = text
        self.i = 0

    def read(self, n=-1):
        c = self.text[self.i:self.i + 1]
        self.i += 1
        return c


def build_lexicon(lex):
    from Cython.Plex import Lexicons, Actions
    spec = []

    def conv(rules):
        out = []
        for term, action in rules:
            if action[0] == 'ret':
                a = action[1]
            elif action[0] == 'text':
                a = Actions.TEXT
            elif action[0] == 'ignore':
                a = Actions.IGNORE
            else:
                a = Actions.Begin(action[1])
            out.append((to_plex(term), a))
        return out
    spec.extend(conv(lex['']))
    for name in sorted(lex):
        if name:
            spec.append(Lexicons.State(name, conv(lex[name])))
    return Lexicons.Lexicon(spec)


def impl_scan(lexicon, text, horizon, stream):
    from Cython.Plex.Scanners import Scanner
    from Cython.Plex.Errors import UnrecognizedInput
    sc = Scanner(lexicon, stream, 'n')
    out = []
    for _ in range(horizon):
        try:
            value, tx = sc.read()
        except UnrecognizedInput:
            p = sc.get_current_scan_pos()
            out.append(('err', p[1], p[2]))
            return out
        if value is None:
            out.append(('eof',))
            return out
        p = sc.position()
        out.append(('tok', value, tx, p[1], p[2]))
    out.append(('horizon',))
    return out


def sim_scan(lexicon, lex, text, horizon):
    """Direct simulation of the DFA tables (lexicon.machine state dicts) on the event stream."""
    from Cython.Plex import Actions
    ev, info = events(text)
    n = len(ev)
    machine = lexicon.machine
    out = []
    state_name = ''
    i = 0
    reads = 0
    steps = 0
    while True:
        if reads >= horizon or steps > 4 * horizon:
            out.append(('horizon',))
            return out
        steps += 1
        st = machine.get_initial_state(state_name)
        j = i
        last = None
        while True:
            if st['action'] is not None:
                last = (st['action'], j)
            c = ev[j] if j < n else ''
            if c in st:
                nx = st[c]
            else:
                nx = st['else'] if c else None
            if not nx:
                break
            st = nx
            j += 1
        pos, line, ls = info[i]
        if last is None:
            # Scanner.scan_a_token: end of file iff blocked on EOF without having passed a character
            if j < n and ev[j] == EOF and info[j][0] == pos:
                out.append(('eof',))
            else:
                out.append(('err', line, pos - ls))
            return out
        action, j = last
        toktext = ''.join(e for e in ev[i:j] if len(e) == 1)
        i = j
        if isinstance(action, Actions.Return):
            out.append(('tok', action.value, toktext, line, pos - ls)); reads += 1
        elif isinstance(action, Actions.Text):
            out.append(('tok', toktext, toktext, line, pos - ls)); reads += 1
        elif isinstance(action, Actions.Begin):
            state_name = action.state_name
        # Ignore: nothing


def _agree(got, want):
    if got == want:
        return True
    if want and want[-1][0] == 'end' and len(got) == len(want) and got[:-1] == want[:-1]:
        return got[-1] == ('eof',) or got[-1] == ('err',) + want[-1][1:]
    return False


def _first_diff(got, want):
    k = 0
    while k < min(len(got), len(want)) and got[k] == want[k]:
        k += 1
    g = got[k] if k < len(got) else ('nothing',)
    w = want[k] if k < len(want) else ('nothing',)
    if g[0] == 'tok' and w[0] == 'tok':
        if g[2] != w[2]:
            d = 'longer' if len(g[2]) > len(w[2]) else ('shorter' if len(g[2]) < len(w[2]) else 'text')
        elif g[1] != w[1]:
            d = 'rule'
        else:
            d = 'position'
    else:
        d = '%s-for-%s' % (g[0], w[0])
    return d, 'read #%d got %r, expected %r' % (k + 1, g, w)


def check_one(lex, lexicon, text, memo):
    """Returns None or (divergence class, description).

    Classes:  tables:*   the DFA tables (simulated directly) disagree with the reference matcher
              scanner:*  Scanner.read() disagrees with the direct simulation of the same tables
              refill:*   one-character-per-read stream disagrees with the whole-text stream"""
    horizon = 2 * (len(text) * 3 + 3) + 4
    want = ref_scan(lex, text, horizon, memo)
    try:
        sim = sim_scan(lexicon, lex, text, horizon)
    except Exception as e:
        return ('tables:exception:%s' % type(e).__name__, 'table simulation raised %s: %s' % (type(e).__name__, e))
    if not _agree(sim, want):
        d, what = _first_diff(sim, want)
        return ('tables:' + d, 'DFA tables vs reference: ' + what)
    try:
        got = impl_scan(lexicon, text, horizon, io.StringIO(text))
    except Exception as e:
        return ('scanner:exception:%s' % type(e).__name__, 'Scanner raised %s: %s' % (type(e).__name__, e))
    if got != sim:
        d, what = _first_diff(got, sim)
        return ('scanner:' + d, 'Scanner vs its own tables: ' + what)
    try:
        got2 = impl_scan(lexicon, text, horizon, OneCharStream(text))
    except Exception as e:
        return ('refill:exception:%s' % type(e).__name__, 'Scanner on 1-char stream raised %s: %s' % (type(e).__name__, e))
    if got2 != got:
        d, what = _first_diff(got2, got)
        return ('refill:' + d, 'Scanner on 1-char-per-read stream vs whole-text stream: ' + what)
    return None


def lex_show(lex):
    def act(a):
        return {'ret': repr(a[1]) if len(a) > 1 else '', 'text': 'TEXT', 'ignore': 'IGNORE',
                'begin': 'Begin(%r)' % (a[1] if len(a) > 1 else '')}[a[0]]
    parts = ['(%s, %s)' % (show(t), act(a)) for t, a in lex['']]
    for name in sorted(lex):
        if name:
            parts.append('State(%r, [%s])' % (name, ', '.join('(%s, %s)' % (show(t), act(a)) for t, a in lex[name])))
    return '[' + ', '.join(parts) + ']'


# ---------------------------------------------------------------------------- families
def texts_upto(alpha, n):
    out = ['']
    for k in range(1, n + 1):
        out.extend(''.join(p) for p in itertools.product(alpha, repeat=k))
    return out


def text_sets():
    full = texts_upto('abA\n', 5)
    extra = [t for t in texts_upto('a\n', 6) if len(t) == 6]
    return {'full': full + extra, 'short': texts_upto('abA\n', 4)}


def named(terms):
    return {'': [(t, ('ret', 'r%d' % i)) for i, t in enumerate(terms)]}


def families(tier):
    """Yield (family name, text-set key, lexicon description)."""
    thorough = tier == 'thorough'
    for t in LEAVES + depth1(LEAVES):
        yield 'single-d1', 'full', named([t])
    for t in depth2(CORE_T if thorough else CORE_Q):
        yield 'single-d2', 'short', named([t])
    for a in POOL:
        for b in POOL:
            yield 'lists-2', 'full', named([a, b])
    if thorough:
        for a in POOL:
            for b in POOL:
                for c in POOL:
                    yield 'lists-3', 'short', named([a, b, c])
        for q in itertools.product(SUBPOOL4, repeat=4):
            yield 'lists-4', 'short', named(list(q))
    # actions and states
    P = NONNULL_POOL if thorough else NONNULL_POOL[:7]
    for a in P:
        for b in P:
            for c in P:
                yield 'states', 'short' if not thorough else 'full', {
                    '': [(a, ('begin', 's')), (b, ('text',)), (c, ('ignore',))],
                    's': [(c, ('begin', '')), (a, ('ret', 'sa')), (b, ('ignore',))]}


_ALL = None      # filled by run() before the workers are forked (they inherit it)


def _chunk_job(arg):
    tier, lo, hi, want_sample = arg
    ts = text_sets()
    results = {'lexicons': 0, 'evals': 0, 'impl_runs': 0, 'fails': [], 'nfail': 0, 'outcomes': set(),
               'dfa_states': 0, 'max_dfa_states': 0, 'fam': {}, 'build_errors': 0}
    source = _ALL[lo:hi] if _ALL is not None else itertools.islice(families(tier), lo, hi)
    for idx, (fam, tkey, lex) in enumerate(source):
        results['lexicons'] += 1
        results['fam'][fam] = results['fam'].get(fam, 0) + 1
        try:
            lexicon = build_lexicon(lex)
        except Exception as e:
            results['build_errors'] += 1
            results['nfail'] += 1
            if len(results['fails']) < 20:
                results['fails'].append((lo + idx, fam, lex, '', 'build:exception:%s' % type(e).__name__,
                                         'Lexicon() raised %s: %s' % (type(e).__name__, e)))
            continue
        ns = len(lexicon.machine.states)
        results['dfa_states'] += ns
        results['max_dfa_states'] = max(results['max_dfa_states'], ns)
        memo = {}
        nf = 0
        for text in ts[tkey]:
            bad = check_one(lex, lexicon, text, memo)
            results['evals'] += 1
            results['impl_runs'] += 3
            if bad:
                results['nfail'] += 1
                nf += 1
                if nf <= 1 and len(results['fails']) < 20:     # shortest failing text of this lexicon (texts are length-ordered)
                    results['fails'].append((lo + idx, fam, lex, text, bad[0], bad[1]))
        # outcome classes reached by the reference for this lexicon (anti-vacuity)
        for (st, suffix), (blen, brule) in memo.items():
            results['outcomes'].add((brule is None, min(blen, 4), brule if brule is None else min(brule, 3)))
    return results


# ---------------------------------------------------------------------------- reduction of a failing case
def _variants(lex, text):
    """Smaller candidates: drop a rule, replace a term by a child / a leaf, shorten the text."""
    for name in sorted(lex):
        rules = lex[name]
        for i in range(len(rules)):
            if len(rules) > 1 or name:
                nl = dict(lex)
                nl[name] = rules[:i] + rules[i + 1:]
                if all(a[0] != 'begin' or a[1] in nl for rs in nl.values() for _, a in rs) and nl['']:
                    yield nl, text
            for t2 in _shrink_term(rules[i][0]):
                nl = dict(lex)
                nl[name] = rules[:i] + [(t2, rules[i][1])] + rules[i + 1:]
                yield nl, text
    for i in range(len(text)):
        yield lex, text[:i] + text[i + 1:]


def _shrink_term(t):
    if t[0] in COMPOSITE:
        for x in t[1:]:
            yield x
        if t[0] == 'rep':
            yield ('opt', t[1])
        yield ('empty',)
        for i in range(1, len(t)):
            for x2 in _shrink_term(t[i]):
                yield t[:i] + (x2,) + t[i + 1:]
    elif t[0] == 'str' and len(t[1]) > 1:
        yield ('str', t[1][:-1])
        yield ('str', t[1][1:])
    elif t[0] == 'strs':
        for s in t[1]:
            yield ('str', s)
    elif t not in (('str', 'a'), ('empty',)):
        yield ('str', 'a')


def _weight(t):
    """Order used by the reducer: fewer nodes first, then simpler leaves."""
    if t[0] in COMPOSITE:
        return sum(_weight(x) for x in t[1:]) + 10
    if t[0] == 'empty':
        return 1
    if t[0] == 'str':
        return 1 + len(t[1])
    return 6


def _lex_size(lex):
    return sum(_weight(t) for rs in lex.values() for t, _ in rs) + 5 * len(lex)


def _fails(lex, text, cls):
    try:
        for name, rs in lex.items():
            for t, a in rs:
                if a[0] in ('ignore', 'begin') and not consumes_event(t):
                    return False
        lexicon = build_lexicon(lex)
    except Exception as e:
        return cls.startswith('build:') and cls.endswith(type(e).__name__)
    bad = check_one(lex, lexicon, text, {})
    return bool(bad) and bad[0] == cls


def reduce_case(lex, text, cls):
    changed = True
    rounds = 0
    while changed and rounds < 200:
        changed = False
        rounds += 1
        for l2, t2 in _variants(lex, text):
            if (_lex_size(l2), len(t2)) < (_lex_size(lex), len(text)) and _fails(l2, t2, cls):
                lex, text = l2, t2
                changed = True
                break
    return lex, text


# ---------------------------------------------------------------------------- run / replay
def run(ctx):
    global _ALL
    _ALL = list(families(ctx.tier))
    total = len(_ALL)
    nchunks = max(64, min(2000, total // 40))
    bounds = [(total * k // nchunks, total * (k + 1) // nchunks) for k in range(nchunks)]
    order = list(range(nchunks))
    if ctx.seed:
        import random
        random.Random(ctx.seed).shuffle(order)
    jobs = [(ctx.tier, bounds[k][0], bounds[k][1], k == 0) for k in order]
    ctx.log('%d lexicons in %d chunks' % (total, nchunks))
    res = farm.pmap(_chunk_job, jobs)
    agg = {'lexicons': 0, 'evals': 0, 'impl_runs': 0, 'nfail': 0, 'dfa_states': 0, 'max_dfa_states': 0, 'build_errors': 0}
    fam = {}
    fails = []
    outcomes = set()
    for r in res:
        for k in ('lexicons', 'evals', 'impl_runs', 'nfail', 'dfa_states', 'build_errors'):
            agg[k] += r[k]
        agg['max_dfa_states'] = max(agg['max_dfa_states'], r['max_dfa_states'])
        for k, v in r['fam'].items():
            fam[k] = fam.get(k, 0) + v
        fails.extend(r['fails'])
        outcomes |= r['outcomes']
    # normalise: per divergence class the smallest failing lexicons are reduced; key = class | reduced lexicon | text
    fails.sort(key=lambda f: (f[4], _lex_size(f[2]), len(f[3]), f[0]))
    per_class = {}
    reduced_keys = {}
    for idx, famname, lex, text, cls, what in fails:
        n = per_class.get(cls, 0)
        per_class[cls] = n + 1
        if n >= 2:
            continue
        rl, rt = reduce_case(lex, text, cls)
        key = 'plex|%s|%s|%r' % (cls, lex_show(rl), rt)
        if key in reduced_keys:
            continue
        reduced_keys[key] = True
        ctx.violation(key, '%s  [found as %s on %r: %s]' % (lex_show(rl), lex_show(lex), text, what),
                      {'lexicon': _lex_json(rl), 'text': rt, 'class': cls, 'original': {'lexicon': _lex_json(lex), 'text': text}})
    ts = text_sets()
    sample_lex = named([POOL[14], POOL[10]])
    memo = {}
    samples = [{'lexicon': lex_show(sample_lex), 'text': 'aab\nb', 'events': list(events('aab\nb')[0]),
                'reference_tokens': [list(x) for x in ref_scan(sample_lex, 'aab\nb', 40, memo)]},
               {'lexicon': lex_show(named([('seq', ('rep', ('anybut', 'a')), ('eol',))])), 'text': 'b\n\nA',
                'reference_tokens': [list(x) for x in ref_scan(named([('seq', ('rep', ('anybut', 'a')), ('eol',))]), 'b\n\nA', 40, {})]},
               {'lexicon': lex_show(next(l for f, k, l in families(ctx.tier) if f == 'states')), 'text': 'ab\na'}]
    cov = {
        'states': agg['lexicons'], 'transitions': agg['evals'], 'traces_validated_against_impl': agg['impl_runs'],
        'lexicons_by_family': fam, 'texts': {k: len(v) for k, v in ts.items()},
        'dfa_states_total': agg['dfa_states'], 'max_dfa_states': agg['max_dfa_states'],
        'distinct_outcomes': len(outcomes), 'failing_evaluations': agg['nfail'], 'build_errors': agg['build_errors'],
        'divergence_classes': per_class, 'pool_size': len(POOL), 'samples': samples, 'exhaustive': True,
    }
    if len(outcomes) < 8:
        ctx.log('WARN: few distinct outcomes (%d) - vacuous family?' % len(outcomes))
    return cov, ['reference matcher (ends/ref_scan in props/C50_plex.py) is the trusted model of Plex semantics over the event stream',
                 'engine conventions taken as defined behaviour: resume at the event where the last token ended; at the end of the '
                 'text (only BOL/EOL/EOF left, unmatched) either end-of-file or UnrecognizedInput is accepted from the tables']


def _lex_json(lex):
    return {name: [[_tj(t), list(a)] for t, a in rs] for name, rs in lex.items()}


def _tj(t):
    return [(_tj(x) if isinstance(x, tuple) and x and x[0] in KINDS and i > 0 and t[0] in COMPOSITE else
             (list(x) if isinstance(x, tuple) else x)) for i, x in enumerate(t)]


def _tfrom(j):
    k = j[0]
    if k in COMPOSITE:
        return (k,) + tuple(_tfrom(x) for x in j[1:])
    if k == 'strs':
        return (k, tuple(j[1]))
    return tuple(j)


def replay(ctx, case):
    lex = {name: [(_tfrom(t), tuple(a)) for t, a in rs] for name, rs in case['lexicon'].items()}
    text = case['text']
    try:
        lexicon = build_lexicon(lex)
    except Exception as e:
        return 'Lexicon(%s) raised %s: %s' % (lex_show(lex), type(e).__name__, e)
    bad = check_one(lex, lexicon, text, {})
    if bad:
        return '%s on %r: %s (%s)' % (lex_show(lex), text, bad[1], bad[0])
    return False
