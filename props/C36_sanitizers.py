"""C36 - generated code is free of memory errors and undefined behaviour (ASan + UBSan).

Every program of the portfolios below is rebuilt with
    gcc -O1 -g1 -fsanitize=address,undefined -fno-sanitize-recover=undefined -fno-omit-frame-pointer -fno-wrapv
and EVERY (function, input) case is executed in fresh interpreters started with LD_PRELOAD=libasan:libubsan,
ASAN_OPTIONS=detect_leaks=0:abort_on_error=1, PYTHONMALLOC=malloc.  Portfolios (all complete finite products):
  fault   the C35 fault-injection portfolio with deviation 0 and EVERY single injection k
  arith   C02's (operator x form x constant) product (quick: 11 boundary constants + all shift counts; thorough: all 23) on a
          PyLong digit-boundary operand alphabet
  oshift  object-level x << n, x >> n incl. negative and >= width counts (Python semantics must raise)
  idx     indexing / slicing / item assignment / deletion of list, tuple, str, bytes, bytearray (generic, annotated
          and C-typed index) x containers of size 0/1/3 x an index grid out to +-2**64
  conv    Python int <-> every C integer type at every type bound +-1
  cdiv    C integer // and % (Python semantics, cdivision off) on the full boundary grid incl. MIN // -1, MIN % -1, x // 0
  cshift  C integer << >> on the complete WELL-DEFINED grid (0 <= n < width, no overflow)
  fmt     f-string / %-formatting of C integers of every type at the type bounds
  mview   typed memoryview indexing / slicing+indexing / assignment, 1-D and 2-D, index grid out of range
  mvslice typed memoryview slices (1-D all have_start/have_stop/have_step forms, run-time and literal steps in -3..3 and 0; 2-D one
          axis sliced, the other full / reversed / indexed) x start/stop in {-len-1,-len,-1,0,len-1,len,len+1} on exact-size
          array.array exporters (and bytearrays), EVERY element of the result read back
  pow2    literal 2, -2, 4, 8, 1, 3 ** n and **= n, n an object / int-typed run-time value over every boundary of the shift count
Oracle: no sanitizer report having a frame in the module's generated C (ASan: any frame of the report mentions the
module; UBSan: the reported file is the module's C file), no death by signal, and the outcome (type, repr / exception
type) equals the reference (CPython on the same source, or the small Python model below for typed programs).
"""
import os, sys, json, re, collections, subprocess, threading
from vlib import farm, support
from props import _g11_portfolio as P

LEVEL = 'exploration'
ENGINE = 'E4 faultexplore'
TECHNIQUE = 'ASan+UBSan rebuild of complete boundary portfolios (incl. every single fault injection), every case run in sanitizer-preloaded children, report attribution + outcome differential'
LEVEL_TEXT = ('Nine portfolios (C35 fault-injection portfolio with every single fault; C02 constant arithmetic product; object '
              'shifts; sequence indexing/slicing with huge and out-of-range indices; int<->C conversions at type bounds; C integer '
              '// % on boundary grids incl. MIN // -1; C shifts on the well-defined grid; C integer formatting at type bounds; '
              'typed memoryview indexing out of range) are rebuilt with -fsanitize=address,undefined -fno-sanitize-recover '
              'and every (function, input) case is executed under LD_PRELOADed sanitizer runtimes with PYTHONMALLOC=malloc; '
              'a case fails on a sanitizer report attributed to the generated C, a crash, or an outcome differing from '
              'CPython / the Python model.')
LEVEL_NOTE = ('Inputs are boundary grids, not all values.  User-typed C arithmetic that is undefined by C semantics is removed from the '
              'alphabet: C shifts with n < 0, n >= width, negative left operand of <<, or overflowing result; + - * on C integers.  '
              'The exponent 2**70 of the power family is replaced by -2**70 (CPython itself cannot compute 2 ** 2**70).  '
              'MIN // -1 on types narrower than int and C-typed conversions of non-int objects are run for sanitizer reports only '
              '(value not judged).  -fno-wrapv is passed so that UBSan sees signed overflow in helpers although real builds '
              'usually add -fwrapv.  Sanitizer reports without any frame in the generated module are counted, not attributed.  '
              'Other families\' portfolios (C01, C05, C09, ...) are covered by their own checks, not re-run here.  Trusted: gcc '
              'sanitizers, CPython 3.12, the ~80-line model.')

SAN_CFLAGS = ['-g1', '-fsanitize=address,undefined', '-fno-sanitize-recover=undefined', '-fno-omit-frame-pointer', '-fno-wrapv']
SAN_OPT = '-O1'

from props._g11_sanmodel import CT, bounds, model, FMT_SPECS, SkipOutcome   # noqa: F401 (model is referenced by name)

# ------------------------------------------------------------------------------------------ families
IDX = [-2 ** 64, -2 ** 63 - 1, -2 ** 63, -2 ** 63 + 1, -2 ** 31 - 1, -2 ** 31, -5, -4, -3, -2, -1, 0, 1, 2, 3, 4, 5,
       2 ** 31 - 1, 2 ** 31, 2 ** 32, 2 ** 63 - 1, 2 ** 63, 2 ** 64]
IDX_OBJ = ['IndexOnly(1)', 'IndexOnly(2**63)', 'IndexOnly(-2**63-1)', 'None', '1.0', 'True']
IDX_SMALL = [-2 ** 63, -2 ** 31, -4, -3, -1, 0, 1, 2, 3, 4, 2 ** 31, 2 ** 63 - 1]
STEPS = ['None', '1', '2', '-1', '-2', '0', '2**63-1', '-2**63', '2**64']
CONTAINERS = {
    'list': ['[]', '[10]', '[10, 20, 30]'],
    'tuple': ['()', '(10,)', '(10, 20, 30)'],
    'str': ["''", "'a'", "'ab\\xe9'", "'a\\u20ac\\U0001f600'"],
    'bytes': ["b''", "b'a'", "b'abc'"],
    'bytearray': ["bytearray(b'')", "bytearray(b'a')", "bytearray(b'abc')"],
}
SETVALS = {'list': ["'v'"], 'bytearray': ['7', '255', '256', '-1', "'x'"]}     # typed (.pyx) variants use the first two only


def fam_idx():
    """-> list of units (name, ext, source, ref, funcs[(fname, tag, inputs)])"""
    src_py, funcs_py = ['import cython'], []
    idx_all = [repr(i) for i in IDX] + IDX_OBJ

    def add(src, fname, tag, inputs, lst=funcs_py, srcs=src_py):
        srcs.append(src)
        lst.append((fname, tag, inputs))

    for tname, conts in CONTAINERS.items():
        for ann, sfx in (('', 'g'), (': ' + tname, 't')):
            p = '%s_%s' % (tname, sfx)
            add('def get_%s(x%s, i):\n    return x[i]\n' % (p, ann), 'get_' + p, 'idx/get/%s/%s' % (tname, sfx),
                [(c, i) for c in conts for i in idx_all])
            # annotated variants convert slice bounds to Py_ssize_t (OverflowError beyond it, by design): grid kept inside
            grid = IDX if not ann else [i for i in IDX if -2 ** 63 <= i < 2 ** 63]
            add('def sl_%s(x%s, i, j):\n    return x[i:j]\n' % (p, ann), 'sl_' + p, 'idx/slice/%s/%s' % (tname, sfx),
                [(c, repr(i), repr(j)) for c in conts[-1:] for i in grid for j in grid] +
                [(c, i, '2') for c in conts[-1:] for i in IDX_OBJ if not (ann and '2**63' in i)])
            add('def sl3_%s(x%s, i, j, k):\n    return x[i:j:k]\n' % (p, ann), 'sl3_' + p, 'idx/slice3/%s/%s' % (tname, sfx),
                [(c, repr(i), repr(j), k) for c in conts[-1:] for i in IDX_SMALL for j in IDX_SMALL for k in STEPS])
            for n, c in enumerate([-2 ** 63 - 1, -2 ** 63, -2 ** 31 - 1, -4, -3, -1, 0, 2, 3, 2 ** 31 - 1, 2 ** 31, 2 ** 63 - 1, 2 ** 63]):
                if ann and not -2 ** 63 <= c < 2 ** 63:
                    continue
                add('def gc%d_%s(x%s):\n    return [x[%d:], x[:%d], x[%d]]\n' % (n, p, ann, c, c, c), 'gc%d_%s' % (n, p),
                    'idx/const/%s/%s' % (tname, sfx), [(cc,) for cc in conts])
            if tname in SETVALS:
                add('def set_%s(x%s, i, v):\n    x[i] = v\n    return x\n' % (p, ann), 'set_' + p, 'idx/set/%s/%s' % (tname, sfx),
                    [(c, i, v) for c in conts for i in idx_all for v in SETVALS[tname]])
                add('def del_%s(x%s, i):\n    del x[i]\n    return x\n' % (p, ann), 'del_' + p, 'idx/del/%s/%s' % (tname, sfx),
                    [(c, i) for c in conts for i in idx_all])
                add('def dsl_%s(x%s, i, j):\n    del x[i:j]\n    return x\n' % (p, ann), 'dsl_' + p,
                    'idx/delslice/%s/%s' % (tname, sfx), [(c, repr(i), repr(j)) for c in conts[-1:] for i in IDX_SMALL for j in IDX_SMALL])
                add('def ssl_%s(x%s, i, j, v):\n    x[i:j] = v\n    return x\n' % (p, ann), 'ssl_' + p,
                    'idx/setslice/%s/%s' % (tname, sfx),
                    [(c, repr(i), repr(j), v) for c in conts[-1:] for i in IDX_SMALL for j in IDX_SMALL
                     for v in (['[1, 2]', '[]'] if tname == 'list' else ["b'xy'", "b''"])])
    units = [('c36idx', '.py', '\n'.join(src_py) + '\n', ('exec', None), funcs_py)]
    # C-typed index (Py_ssize_t): the GetItemInt/SetItemInt fast paths with wraparound+boundscheck
    src, funcs = [], []
    ints = [repr(i) for i in IDX]
    for tname, conts in CONTAINERS.items():
        add('def tget_%s(%s x, Py_ssize_t i):\n    return x[i]\n' % (tname, tname), 'tget_' + tname, 'idx:get:%s' % tname,
            [(c, i) for c in conts for i in ints], funcs, src)
        add('def tsl_%s(%s x, Py_ssize_t i, Py_ssize_t j):\n    return x[i:j]\n' % (tname, tname), 'tsl_' + tname,
            'idx:slice:%s' % tname, [(c, repr(i), repr(j)) for c in conts[-1:] for i in IDX for j in IDX], funcs, src)
        add('def tgeto_%s(x, Py_ssize_t i):\n    return x[i]\n' % tname, 'tgeto_' + tname, 'idx:get:obj%s' % tname,
            [(c, i) for c in conts for i in ints], funcs, src)
        if tname in SETVALS:
            add('def tset_%s(%s x, Py_ssize_t i, v):\n    x[i] = v\n    return x\n' % (tname, tname), 'tset_' + tname,
                'idx:set:%s' % tname, [(c, i, v) for c in conts for i in ints for v in SETVALS[tname][:2]], funcs, src)
            add('def tdel_%s(%s x, Py_ssize_t i):\n    del x[i]\n    return x\n' % (tname, tname), 'tdel_' + tname,
                'idx:del:%s' % tname, [(c, i) for c in conts for i in ints], funcs, src)
    units.append(('c36idxt', '.pyx', '\n'.join(src) + '\n', ('model', 'props._g11_sanmodel:model'), funcs))
    return units


def fam_conv_fmt():
    src, funcs = [], []
    allb = set()
    for t in CT:
        lo, hi = bounds(t)
        allb.update([lo - 1, lo, lo + 1, hi - 1, hi, hi + 1])
    allb.update([-2, -1, 0, 1, 2, 2 ** 64, -2 ** 64, 2 ** 100, -2 ** 100])
    conv_in = [(repr(v),) for v in sorted(allb)] + [(e,) for e in ('True', 'IndexOnly(5)', 'IndexOnly(2**70)', 'IntSub(7)',
                                                                   'IntSub(2**70)', 'None', '1.5', "'a'", 'IntOnly(3)')]
    for t, (ctype, bits, signed) in CT.items():
        src.append('def conv_%s(x):\n    cdef %s v = x\n    return v\n' % (t, ctype))
        funcs.append(('conv_' + t, 'conv:to:%s' % t, conv_in))
        lo, hi = bounds(t)
        vals = sorted({lo, lo + 1, hi - 1, hi, 0, 1, 9, 10, 99, 100} | ({-1, -9, -10, -100} if signed else set()))
        specs = ', '.join('f"{v:%s}"' % s if s else 'f"{v}"' for s in FMT_SPECS)
        src.append('def fmt_%s(x):\n    cdef %s v = x\n    return [%s, "%%d" %% v, "%%5d|%%-5d|%%05d" %% (v, v, v), str(v), '
                   '("%%x %%o %%X" %% (v, v, v)) if v >= 0 else "neg"]\n' % (t, ctype, specs))
        funcs.append(('fmt_' + t, 'fmt:all:%s' % t, [(repr(v),) for v in vals]))
    return [('c36conv', '.pyx', '\n'.join(src) + '\n', ('model', 'props._g11_sanmodel:model'), funcs)]


def fam_cdiv_cshift():
    src, funcs = [], []
    for t, (ctype, bits, signed) in CT.items():
        lo, hi = bounds(t)
        grid = sorted({lo, lo + 1, hi - 1, hi, 0, 1, 2, 3, 7} | ({-1, -2, -3, -7} if signed else set()))
        pairs = [(repr(a), repr(b)) for a in grid for b in grid]
        for op, sym in (('fdiv', '//'), ('mod', '%')):
            src.append('def %s_%s(%s a, %s b):\n    return a %s b\n' % (op, t, ctype, ctype, sym))
            funcs.append(('%s_%s' % (op, t), 'cdiv:%s:%s' % (op, t), pairs))
        if bits >= 32:
            # complete well-defined grid: 0 <= n < width, a >= 0 for <<, result representable
            avals = sorted({0, 1, 2, 3, 5, hi >> 1, hi, (hi >> 1) + 1} | ({-1, -2, lo, lo + 1} if signed else set()))
            shl = [(repr(a), repr(n)) for a in avals for n in range(bits) if a >= 0 and (a << n) <= hi]
            shr = [(repr(a), repr(n)) for a in avals for n in range(bits)]
            src.append('def shl_%s(%s a, int n):\n    return a << n\n' % (t, ctype))
            funcs.append(('shl_' + t, 'cshift:shl:%s' % t, shl))
            src.append('def shr_%s(%s a, int n):\n    return a >> n\n' % (t, ctype))
            funcs.append(('shr_' + t, 'cshift:shr:%s' % t, shr))
    return [('c36cdiv', '.pyx', '\n'.join(src) + '\n', ('model', 'props._g11_sanmodel:model'), funcs)]


def fam_oshift():
    xs = ['0', '1', '-1', '2**30', '2**30-1', '2**62', '2**63', '-2**63', '2**64+1', 'True', '1.0']
    ns = ['-2**63', '-1', '0', '1', '14', '15', '29', '30', '31', '32', '59', '60', '61', '62', '63', '64', '65', '128', 'True']
    inputs = [(x, n) for x in xs for n in ns] + [('0', n) for n in ('2**31', '2**63', '2**64')]
    src = ('def oshl(x, n):\n    return x << n\n\ndef oshr(x, n):\n    return x >> n\n\n'
           'def oshl_i(x: int, n: int):\n    return x << n\n\ndef oshr_i(x: int, n: int):\n    return x >> n\n\n'
           'def oshl_ip(x, n):\n    x <<= n\n    return x\n\ndef oshr_ip(x, n):\n    x >>= n\n    return x\n')
    ints = [i for i in inputs if '.' not in i[0]]
    funcs = [('oshl', 'oshift/shl', inputs), ('oshr', 'oshift/shr', inputs), ('oshl_i', 'oshift/shl_int', ints),
             ('oshr_i', 'oshift/shr_int', ints), ('oshl_ip', 'oshift/shl_ip', inputs), ('oshr_ip', 'oshift/shr_ip', inputs)]
    xs_c = [x for x in xs if x != '1.0'] + ['3', '-3', '2**31', '2**32-1']
    for c in (30, 31, 32, 33, 61, 62, 63, 64, 65, 127, 128):
        src += '\ndef xshl%d(x):\n    return x << %d\n\ndef xshr%d(x):\n    return x >> %d\n' % (c, c, c, c)
        funcs.append(('xshl%d' % c, 'oshift/x<<c', [(x,) for x in xs_c]))
        funcs.append(('xshr%d' % c, 'oshift/x>>c', [(x,) for x in xs_c]))
    for c in (1, 29, 30, 31, 32, 62, 63, 64, 65):
        src += '\ndef cshl%d(n):\n    return %d << n\n\ndef cshr%d(n):\n    return (2**%d) >> n\n' % (c, c, c, c)
        funcs.append(('cshl%d' % c, 'oshift/c<<n', [(n,) for n in ns]))
        funcs.append(('cshr%d' % c, 'oshift/c>>n', [(n,) for n in ns]))
    return [('c36oshift', '.py', src, ('exec', None), funcs)]


def fam_mview():
    bufs = ["bytearray(b'')", "bytearray(b'\\x07')", "bytearray(b'\\x01\\x02\\x03\\x04')"]
    idx = [repr(i) for i in [-2 ** 63 - 1, -2 ** 63, -2 ** 31 - 1, -6, -5, -4, -3, -2, -1, 0, 1, 2, 3, 4, 5, 2 ** 31, 2 ** 63 - 1, 2 ** 63]]
    sm = [repr(i) for i in [-2 ** 63, -5, -4, -1, 0, 1, 3, 4, 5, 2 ** 63 - 1]]
    m2 = "memoryview(bytearray(range(24))).cast('i', (2, 3))"
    src = '''
def mv_get1(unsigned char[:] m, Py_ssize_t i):
    return m[i]

def mv_get1o(unsigned char[:] m, i):
    return m[i]

def mv_set1(unsigned char[:] m, Py_ssize_t i, unsigned char v):
    m[i] = v
    return bytes(m)

def mv_sliceget(unsigned char[:] m, Py_ssize_t a, Py_ssize_t b, Py_ssize_t i):
    return m[a:b][i]

def mv_stepget(unsigned char[:] m, Py_ssize_t i):
    return [m[::2][i], m[::-1][i]]

def mv_slicelen(unsigned char[:] m, Py_ssize_t a, Py_ssize_t b):
    s = m[a:b]
    return (s.shape[0], bytes(s))

def mv_get2(int[:, :] m, Py_ssize_t i, Py_ssize_t j):
    return m[i, j]

def mv_set2(int[:, :] m, Py_ssize_t i, Py_ssize_t j, int v):
    m[i, j] = v
    return [[m[a, b] for b in range(m.shape[1])] for a in range(m.shape[0])]
'''
    funcs = [('mv_get1', 'mview:get1:uchar', [(b, i) for b in bufs for i in idx]),
             ('mv_get1o', 'mview:get1:obj', [(b, i) for b in bufs for i in idx]),
             ('mv_set1', 'mview:set1:uchar', [(b, i, '9') for b in bufs for i in idx]),
             ('mv_sliceget', 'mview:sliceget:uchar', [(bufs[2], a, b, i) for a in sm for b in sm for i in sm]),
             ('mv_stepget', 'mview:stepget:uchar', [(b, i) for b in bufs[1:] for i in idx]),
             ('mv_slicelen', 'mview:slicelen:uchar', [(bufs[2], a, b) for a in idx[1:-1] for b in idx[1:-1]]),
             ('mv_get2', 'mview:get2:int', [(m2, i, j) for i in idx for j in sm]),
             ('mv_set2', 'mview:set2:int', [(m2, i, j, '77') for i in sm for j in idx])]
    return [('c36mview', '.pyx', src, ('model', 'props._g11_sanmodel:model'), funcs)]


def fam_pow2():
    """2 ** n through the shift helper: every boundary of the shift count (CPython itself cannot compute 2 ** 2**70:
    that exponent is replaced by its negation, which takes the helper's fallback as well)."""
    ns = ['0', '1', '2', '29', '30', '31', '32', '61', '62', '63', '64', '65', '127', '128', '-1', '-63', 'True', 'False', '-2**70',
          'IntSub(63)', 'IntSub(5)', '63.0', '1.5', 'None', "'a'", 'IndexOnly(3)']
    ints = [n for n in ns if n[0] in '-0123456789TF' and '.' not in n]
    src, funcs = 'from vlib.support import IntSub\n', []
    for base, nm in ((2, '2'), (-2, 'm2'), (4, '4'), (8, '8'), (1, '1'), (3, '3')):
        lit = '(%d)' % base if base < 0 else str(base)
        src += '\ndef pw%s(n):\n    return %s ** n\n\ndef pw%s_ip(n):\n    x = %s\n    x **= n\n    return x\n' % (nm, lit, nm, lit)
        src += '\ndef pw%s_i(n: int):\n    return %s ** n\n\ndef pw%s_ip_i(n: int):\n    x = %s\n    x **= n\n    return x\n' % (nm, lit, nm, lit)
        funcs += [('pw%s' % nm, 'pow/%s**n' % nm, [(n,) for n in ns]), ('pw%s_ip' % nm, 'pow/%s**=n' % nm, [(n,) for n in ns]),
                  ('pw%s_i' % nm, 'pow/%s**int' % nm, [(n,) for n in ints]), ('pw%s_ip_i' % nm, 'pow/%s**=int' % nm, [(n,) for n in ints])]
    src += '\ndef pwx2(x, n):\n    return x ** n\n\ndef pwmod(n):\n    return pow(2, n, 1000003) if isinstance(n, int) and n >= 0 else None\n'
    funcs.append(('pwx2', 'pow/x**n', [(x, n) for x in ('2', '-2', '2.0', 'True') for n in ns]))
    funcs.append(('pwmod', 'pow/pow3', [(n,) for n in ns]))
    return [('c36pow', '.py', src, ('exec', None), funcs)]


def fam_mvslice():
    """Typed-memoryview slicing with run-time bounds and steps, every element of the result read back.
    Exporters are exact-size malloc'ed buffers (array.array) plus bytearrays."""
    arr = "__import__('array').array"
    exps = [('%s("B", [1, 2, 3, 4, 5])' % arr, 5), ('%s("B", [9])' % arr, 1), ("bytearray(b'\\x01\\x02\\x03\\x04\\x05')", 5),
            ("bytearray(b'')", 0), ('%s("B", [1, 2, 3, 4])' % arr, 4)]
    steps = [-3, -2, -1, 1, 2, 3]

    def grid(n):
        return sorted({-n - 1, -n, -1, 0, n - 1, n, n + 1})
    read = '    return (s.shape[0], [s[i] for i in range(s.shape[0])])\n'
    src, funcs = '', []
    forms = [('abc', 'a, b, c', 'a:b:c'), ('a_c', 'a, c', 'a::c'), ('_bc', 'b, c', ':b:c'), ('__c', 'c', '::c'), ('ab_', 'a, b', 'a:b'),
             ('a__', 'a', 'a:'), ('_b_', 'b', ':b')]
    for op, params, sl in forms:
        name = 'mvs_%s' % op
        src += 'def %s(unsigned char[:] m, %s):\n    s = m[%s]\n%s\n' % (name, ', '.join('Py_ssize_t ' + q.strip() for q in params.split(',')), sl, read)
        ins = []
        for e, n in exps:
            for a in (grid(n) if 'a' in op else [None]):
                for b in (grid(n) if 'b' in op else [None]):
                    for c in (steps + [0] if 'c' in op else [None]):
                        ins.append(tuple([e] + [repr(v) for v in (a, b, c) if v is not None]))
        funcs.append((name, 'mvslice:%s' % op, ins))
    # literal steps (have_step with a compile-time constant)
    for c in steps:
        for op, params, sl in (('ab_', 'a, b', 'a:b:%d' % c), ('a__', 'a', 'a::%d' % c), ('_b_', 'b', ':b:%d' % c)):
            name = 'mvs_%s_c%s' % (op, str(c).replace('-', 'm'))
            src += 'def %s(unsigned char[:] m, %s):\n    s = m[%s]\n%s\n' % (name, ', '.join('Py_ssize_t ' + q.strip() for q in params.split(',')), sl, read)
            ins = [tuple([e] + [repr(v) for v in (a, b) if v is not None]) for e, n in exps
                   for a in (grid(n) if 'a' in op else [None]) for b in (grid(n) if 'b' in op else [None])]
            funcs.append((name, 'mvslice:%s:%d' % (op, c), ins))
    # 2-D (3 x 4 ints on an exact-size array.array): one axis with run-time a:b:c, the other full / reversed / indexed
    m2 = 'memoryview(%s("i", [0, 1, 2, 3, 4, 5, 6, 7, 8, 9, 10, 11])).cast("B").cast("i", (3, 4))' % arr
    read2 = '    return [[s[i, j] for j in range(s.shape[1])] for i in range(s.shape[0])]\n'
    for op, other, sl, n in (('ax0', 'all', 'a:b:c, :', 3), ('ax0', 'rev', 'a:b:c, ::-1', 3), ('ax1', 'all', ':, a:b:c', 4), ('ax1', 'rev', '::-1, a:b:c', 4)):
        name = 'mvs2_%s_%s' % (op, other)
        src += 'def %s(int[:, :] m, Py_ssize_t a, Py_ssize_t b, Py_ssize_t c):\n    s = m[%s]\n%s\n' % (name, sl, read2)
        funcs.append((name, 'mvslice2:%s:%s' % (op, other), [(m2, repr(a), repr(b), repr(c)) for a in grid(n) for b in grid(n) for c in steps + [0]]))
    src += 'def mvs2_ax0_idx(int[:, :] m, Py_ssize_t a, Py_ssize_t b, Py_ssize_t c, Py_ssize_t j):\n    s = m[a:b:c, j]\n    return [s[i] for i in range(s.shape[0])]\n'
    funcs.append(('mvs2_ax0_idx', 'mvslice2:ax0:idx', [(m2, repr(a), repr(b), repr(c), repr(j)) for a in grid(3) for b in grid(3) for c in steps for j in (0, 3, -1)]))
    return [('c36mvslice', '.pyx', src, ('model', 'props._g11_sanmodel:model'), funcs)]


def fam_arith(tier):
    from props import C02_const_arith as C02
    parts = C02.programs('quick')
    if tier == 'quick':
        # quick: every operator and form, all shift counts, a boundary subset of the constants (thorough: all of them)
        keep = {'0', '1', '-1', '3', '255', '32768', '1073741823', '-1073741824', '1073741825', '0.5', '2.0'}
        parts = [p for p in parts if p.funcs[0].tag.split('/')[0] in ('<<', '>>') or p.funcs[0].tag.split('/')[-1] in keep]
    ks = (0, 1, 15, 29, 30, 31, 32, 59, 60, 61, 62, 63, 64, 65, 89, 90, 91)
    ints = sorted({s * (2 ** k) + d for k in ks for s in (1, -1) for d in (-1, 0, 1)} | {0, 3, -3, 7, -7, 100, -100})
    ops = [(e,) for e in ([repr(v) for v in ints] if tier == 'quick' else support.INTS) + ['True', 'False', '0.0', '-0.0', '1.5', "float('inf')", "float('nan')", '1e300',
                                         'IntSub(5)', 'IntSub(2**70)', 'None', "'a'"]]
    noseq = [o for o in ops if o[0] != "'a'"]
    small = [o for o in ops if not (support.classify(o[0]).startswith(('int:+', 'IntSub:+')) and eval(o[0], support.namespace()) > 70000)]
    sets = {'ops': ops, 'noseq': noseq, 'smallshift': small}
    units = []
    per = 160
    for n in range(0, len(parts), per):
        chunk = parts[n:n + per]
        src = 'from vlib.support import IntSub, FloatSub\n' + '\n'.join(p.src for p in chunk) + '\n'
        funcs = [(f.name, 'arith/' + f.tag, sets[f.inputs]) for p in chunk for f in p.funcs]
        units.append(('c36arith%d' % (n // per), '.py', src, ('exec', None), funcs))
    return units


def fam_fault():
    entries = P.portfolio()
    units = []
    per = 42
    for n in range(0, len(entries), per):
        chunk = entries[n:n + per]
        src = P.PRELUDE + '\n' + '\n'.join(e[1] for e in chunk)
        units.append(('c36fault%d' % (n // per), '.py', src, 'fault', [(e[0], e[2]) for e in chunk]))
    return units


def all_units(tier):
    return fam_idx() + fam_conv_fmt() + fam_cdiv_cshift() + fam_oshift() + fam_pow2() + fam_mview() + fam_mvslice() + fam_arith(tier) + fam_fault()


# ------------------------------------------------------------------------------------------ running children
def san_env():
    asan = subprocess.run(['gcc', '-print-file-name=libasan.so'], stdout=subprocess.PIPE, text=True).stdout.strip()
    ubsan = subprocess.run(['gcc', '-print-file-name=libubsan.so'], stdout=subprocess.PIPE, text=True).stdout.strip()
    return {'LD_PRELOAD': '%s:%s' % (asan, ubsan),
            'ASAN_OPTIONS': 'detect_leaks=0:abort_on_error=1:allocator_may_return_null=1:detect_stack_use_after_return=0',
            'UBSAN_OPTIONS': 'print_stacktrace=1:abort_on_error=1', 'PYTHONMALLOC': 'malloc', 'PYTHONFAULTHANDLER': '0',
            # compiling sources is slow under ASan: let the children share a bytecode cache inside the scratch dir
            'PYTHONDONTWRITEBYTECODE': '', 'PYTHONPYCACHEPREFIX': os.path.join(os.environ.get('VERIF_SCRATCH_DIR', '/tmp'), 'pyc')}


def classify_report(stderr, rc, unit_name):
    """-> (report class, attributed to the module?, one-line summary)"""
    m = re.search(r'ERROR: AddressSanitizer: ([\w-]+)', stderr)
    if m:
        block = stderr[m.start():m.start() + 12000]
        return 'asan:' + m.group(1), unit_name in block, block.split('\n')[0][:200]
    m = re.search(r'^(\S*?)([^/\s:]+\.(?:c|cpp|h)):(\d+):\d+: runtime error: (.*)$', stderr, re.M)
    if m:
        msg = m.group(4)
        kind = 'other'
        for pat, k in (('signed integer overflow', 'signed-overflow'), ('division of', 'div-overflow'), ('division by zero', 'div-by-zero'),
                       ('shift exponent', 'shift-exponent'), ('left shift of', 'left-shift'), ('misaligned', 'misaligned'),
                       ('null pointer', 'null'), ('out of bounds', 'bounds'), ('load of value', 'invalid-value'),
                       ('outside the range of representable', 'float-cast'), ('negation of', 'negation-overflow'),
                       ('pointer index expression', 'pointer-overflow'), ('applying', 'pointer-offset')):
            if pat in msg:
                kind = k
                break
        # a report located in a header (e.g. Py_DECREF in object.h) is attributed through its stack trace
        return ('ubsan:' + kind, unit_name in m.group(2) or unit_name in stderr[m.end():m.end() + 4000],
                ('%s:%s: %s' % (m.group(2), m.group(3), msg))[:200])
    if rc is not None and rc < 0:
        return 'crash:sig%d' % (-rc), True, 'killed by signal %d' % (-rc)
    return 'exit:%s' % rc, True, 'child exited with status %s: %s' % (rc, stderr[-300:].replace('\n', ' | '))


REPEAT_CAP = 3     # identical reports (same function, class and C line) after which the rest of that function is skipped


def _run_job(arg):
    """Run one child job to completion, restarting after every abort.  Returns (results, incidents, skipped)."""
    jobfile, env, timeout = arg
    with open(jobfile) as f:
        job = json.load(f)
    incidents, skipped, resume = [], [], [0, 0, 0]
    seen = collections.Counter()
    for attempt in range(600):
        job['resume'] = resume
        with open(jobfile, 'w') as f:
            json.dump(job, f)
        try:
            os.unlink(job['progress'])
        except OSError:
            pass
        e = dict(os.environ)
        e.update(env)
        try:
            p = subprocess.run([sys.executable, '-m', 'props._g11_sanchild', jobfile], env=e, stdout=subprocess.PIPE,
                               stderr=subprocess.PIPE, text=True, errors='replace', timeout=timeout, cwd=os.path.dirname(jobfile))
            rc, err = p.returncode, p.stderr
        except subprocess.TimeoutExpired as ex:
            rc = 'timeout'
            err = ex.stderr.decode(errors='replace') if isinstance(ex.stderr, bytes) else (ex.stderr or '')
        tok = None
        try:
            with open(job['progress']) as f:
                ui, fi, ci = [int(x) for x in f.readline().split()]
            if ui >= len(job['units']):
                tok = [ui, -1, -1, 'done']
            elif fi < 0:
                tok = [ui, -1, -1, 'load']
            else:
                unit = job['units'][ui]
                w = unit['work'][fi]
                tok = [ui, fi, ci, w[0], w[1], w[2][ci]] if unit['kind'] == 'diff' else [ui, fi, ci, w[0], 'k=%d' % ci, [w[1]]]
        except (OSError, ValueError, IndexError):
            pass
        if rc == 0 and tok and tok[3] == 'done':
            break
        if tok is None:
            incidents.append({'unit': None, 'token': None, 'rc': rc, 'stderr': err[-6000:]})
            break
        incidents.append({'unit': tok[0], 'token': tok, 'rc': rc, 'stderr': err[-12000:]})
        if tok[1] < 0:
            resume = [tok[0] + 1, 0, 0]      # the module cannot even be loaded: skip the unit
            continue
        cls, _, summary = classify_report(err, rc if isinstance(rc, int) else None, job['units'][tok[0]]['name'])
        sig = (tok[0], tok[1], cls, re.sub(r'-?\d+', 'N', re.sub(r'0x[0-9a-fA-F]+', 'X', summary)))
        seen[sig] += 1
        if seen[sig] >= REPEAT_CAP:
            # the same report from the same function for the third time: one root cause, skip the function's remaining inputs
            skipped.append([job['units'][tok[0]]['name'], tok[3], cls])
            resume = [tok[0], tok[1] + 1, 0]
        else:
            resume = [tok[0], tok[1], tok[2] + 1]
    results = []
    try:
        with open(job['out']) as f:
            results = [json.loads(l) for l in f if l.strip()]
    except OSError:
        pass
    return results, incidents, skipped


def input_class(inp):
    out = []
    for e in inp:
        try:
            v = eval(e, support.namespace())
        except Exception:
            out.append('expr')
            continue
        if type(v) is int:
            n = abs(v)
            cls = None
            for bits in (7, 8, 15, 16, 31, 32, 63, 64):
                if n in ((1 << bits) - 1, 1 << bits, (1 << bits) + 1):
                    cls = '%s2^%d%s' % ('-' if v < 0 else '', bits, {(1 << bits) - 1: '-1', 1 << bits: '', (1 << bits) + 1: '+1'}[n])
            out.append(cls or ('0' if v == 0 else ('neg' if v < 0 else 'pos') + ('small' if n < 256 else 'big')))
        else:
            out.append(support.classify(e))
    return ','.join(out)


def run(ctx):
    units = all_units(ctx.tier)
    if ctx.seed:
        k = ctx.seed % len(units)
        units = units[k:] + units[:k]
    wd = ctx.workdir('c36')
    jobs = [dict(name=u[0], source=u[2], workdir=wd, ext=u[1], cflags=SAN_CFLAGS, opt=SAN_OPT) for u in units]
    builds = farm.build_many(jobs)
    child_units, metas = [], []
    nbuild_fail = 0
    for u, b in zip(units, builds):
        name, ext, src, ref, funcs = u
        if not b.ok:
            nbuild_fail += 1
            ctx.violation('build-failure|%s|%s' % (b.stage, name), 'sanitizer build of %s fails (%s): %s' % (name, b.stage, b.errors[-800:]),
                          {'kind': 'build', 'name': name, 'source': src, 'ext': ext})
            continue
        if ref == 'fault':
            cu = {'kind': 'fault', 'name': name, 'so': b.so, 'source': src, 'work': [list(w) for w in funcs]}
            cost = len(funcs) * 60
        else:
            r = ['exec', src] if ref[0] == 'exec' else ['model', ref[1]]
            cu = {'kind': 'diff', 'name': name, 'so': b.so, 'ref': r, 'work': [[f, t, [list(i) for i in ins]] for f, t, ins in funcs]}
            cost = sum(len(ins) for _, _, ins in funcs)
        child_units.append((cost, cu, u, b))
    # distribute units over NPROC children (largest first)
    nproc = max(1, min(farm.NPROC, len(child_units)))
    bins = [[0, []] for _ in range(nproc)]
    for cost, cu, u, b in sorted(child_units, key=lambda x: -x[0]):
        tgt = min(bins, key=lambda x: x[0])
        tgt[0] += cost
        tgt[1].append((cu, u, b))
    env = san_env()
    args = []
    for n, (_, lst) in enumerate(bins):
        if not lst:
            continue
        jf = os.path.join(wd, 'job%d.json' % n)
        with open(jf, 'w') as f:
            json.dump({'units': [x[0] for x in lst], 'out': os.path.join(wd, 'job%d.out' % n),
                       'progress': os.path.join(wd, 'job%d.progress' % n)}, f)
        args.append((jf, env, 3000))
        metas.append(lst)
    outs = [None] * len(args)

    def work(i):
        outs[i] = _run_job(args[i])
    ths = [threading.Thread(target=work, args=(i,)) for i in range(len(args))]
    for t in ths:
        t.start()
    for t in ths:
        t.join()
    stats = collections.Counter()
    fam_evals = collections.Counter()
    unattributed, samples = [], []
    skipped_all = []
    for lst, (results, incidents, skipped) in zip(metas, outs):
        skipped_all.extend(skipped)
        for r in results:
            cu, u, b = lst[r['unit']]
            stats['evaluations'] += r['evals']
            stats['pairs'] += r['pairs']
            fam_evals[re.sub(r'\d+$', '', u[0])] += r['evals']
            for fname, tag, inp, exp, got in r['mismatches']:
                stats['mismatches'] += 1
                ctx.violation('outcome|%s|%s|%s' % ((tag, input_class(inp), _div(exp, got)) if cu['kind'] == 'diff' else
                                                    ('fault/' + fname[2:], 'deviation0' if tag == 'k=0' else 'single', _div(exp, got))),
                              '%s %s%r: expected %r got %r' % (u[0], fname, tuple(inp), exp, got),
                              _case(u, fname, tag, inp, exp=exp, got=got))
        for inc in incidents:
            if inc['unit'] is None or inc['unit'] >= len(lst):
                ctx.violation('harness|child-failed', 'sanitizer child failed outside any case: rc=%s %s' % (inc['rc'], inc['stderr'][-600:]),
                              {'kind': 'harness', 'stderr': inc['stderr'][-3000:]})
                continue
            cu, u, b = lst[inc['unit']]
            tok = inc['token']
            rc = inc['rc'] if isinstance(inc['rc'], int) else None
            if inc['rc'] == 'timeout':
                cls, attributed, summary = 'timeout', True, 'child timed out'
            else:
                cls, attributed, summary = classify_report(inc['stderr'], rc, u[0])
            stats['incidents'] += 1
            stats['evaluations'] += 1
            fname, tag, inp = (tok[3], tok[4], tok[5]) if tok[1] >= 0 else ('<module init>', 'load', [])
            if not attributed:
                stats['unattributed_reports'] += 1
                unattributed.append('%s %s%r: %s' % (u[0], fname, tuple(inp), summary))
                continue
            ctx.violation('%s|%s|%s' % ((cls, tag, input_class(inp)) if cu['kind'] == 'diff' else
                                        (cls, 'fault/' + fname[2:], 'deviation0' if tag == 'k=0' else 'single')),
                          '%s %s%r: %s' % (u[0], fname, tuple(inp), summary),
                          _case(u, fname, tag, inp, report=inc['stderr'][-4000:], cls=cls))
    reach = {}
    for k in REACH:
        reach[k] = sum(1 for _, _, _, b in child_units if k in b.c_text())
    gaps = sorted(k for k, v in reach.items() if not v)
    for k in gaps:
        ctx.log('WARN reach gap: no built module mentions %s' % k)
    # prove that the sanitizer runtime really is active in the children (anti-vacuity)
    canary = sanitizer_canary(ctx, env)
    if canary is not True:
        ctx.violation('harness|sanitizer-inactive', 'the ASan/UBSan canary module did not produce a report: %s' % canary, {'kind': 'harness'})
    cov = {
        'evaluations': stats['evaluations'], 'distinct_nontrivial': stats['pairs'],
        'rule': 'one evaluation = one (function, input tuple) or (function, injection k) case run compiled under ASan+UBSan and '
                'compared with the reference; distinct_nontrivial = distinct (function, reference outcome) pairs',
        'programs': sum(len(u[4]) for u in units), 'modules_built': len(child_units), 'build_failures': nbuild_fail,
        'evaluations_per_family': dict(fam_evals), 'mismatches': stats['mismatches'], 'sanitizer_or_crash_incidents': stats['incidents'],
        'unattributed_reports': unattributed[:20], 'functions_cut_after_repeated_report': skipped_all[:40], 'sanitizer_canary': canary is True, 'reach': reach, 'reach_gaps': gaps,
        'cflags': SAN_CFLAGS + [SAN_OPT],
        'samples': [{'unit': units[0][0], 'function': units[0][4][0][0], 'tag': units[0][4][0][1], 'input': list(units[0][4][0][2][5])},
                    {'unit': 'c36cdiv', 'function': 'fdiv_int', 'input': ['-2147483648', '-1']},
                    {'unit': 'c36mview', 'function': 'mv_get1', 'input': ["bytearray(b'\\x07')", '1']}],
        'exhaustive': not skipped_all,
    }
    return cov, ['inputs are boundary grids; user-typed C arithmetic that is undefined by C semantics is excluded',
                 'signed-overflow detection relies on -fno-wrapv overriding the -fwrapv of the build farm']


REACH = ['__Pyx__PyNumber_PowerOf2', '__pyx_memoryview_slice_memviewslice', '__Pyx_GetItemInt_List_Fast', '__Pyx_GetItemInt_Tuple_Fast', '__Pyx_SetItemInt_Fast', '__Pyx_GetItemInt_Unicode_Fast',
         '__Pyx_GetItemInt_ByteArray_Fast', '__Pyx_PyObject_GetSlice', '__Pyx_PyLong_LshiftObjC', '__Pyx_PyLong_RshiftObjC',
         '__Pyx_PyLong_As_int', '__Pyx_PyLong_As_unsigned_PY_LONG_LONG', '__Pyx_PyLong_From_long', '__Pyx_div_int', '__Pyx_mod_long',
         '__Pyx_PyUnicode_From_int', '__Pyx_PyUnicode_From_size_t', '__pyx_memoryview_slice_memviewslice', '__Pyx_RaiseBufferIndexError',
         '__Pyx_PyLong_AddObjC', '__Pyx_Generator_New', '__Pyx_UnpackTupleError', '__Pyx_PyList_GetSlice', '__Pyx_DelItemInt_Fast']


def _div(exp, got):
    if exp[0] == 'exc' and got[0] == 'exc':
        return 'exc:%s->%s' % (exp[1], got[1])
    if exp[0] == 'exc':
        return 'missing-exc:%s' % exp[1]
    if got[0] == 'exc':
        return 'extra-exc:%s' % got[1]
    return 'value'


def _case(u, fname, tag, inp, **kw):
    name, ext, src, ref, funcs = u
    d = {'kind': 'c36', 'name': name, 'ext': ext, 'source': src, 'ref': list(ref) if ref != 'fault' else 'fault', 'fname': fname,
         'tag': tag, 'input': list(inp)}
    d.update(kw)
    return d


CANARY = '''
def overflow(int a):
    cdef int b = a + 1
    return b

def oob(Py_ssize_t i):
    cdef char buf[4]
    buf[0] = 1
    return (<char*>buf)[i]
'''


def sanitizer_canary(ctx, env):
    """A deliberately undefined program must be reported by UBSan (signed overflow) in a child: proves the preload works."""
    b = farm.build('c36canary', CANARY, ctx.workdir('c36'), ext='.pyx', cflags=SAN_CFLAGS, opt=SAN_OPT)
    if not b.ok:
        return 'canary does not build: %s' % b.errors[-300:]
    wd = ctx.workdir('c36')
    jf = os.path.join(wd, 'canary.json')
    unit = {'kind': 'diff', 'name': 'c36canary', 'so': b.so, 'ref': ['exec', 'def overflow(a):\n    return a + 1\n'],
            'work': [['overflow', 'canary', [['2147483647']]]]}
    with open(jf, 'w') as f:
        json.dump({'units': [unit], 'out': os.path.join(wd, 'canary.out'), 'progress': os.path.join(wd, 'canary.progress')}, f)
    results, incidents, _ = _run_job((jf, env, 120))
    if len(incidents) == 1 and 'signed integer overflow' in incidents[0]['stderr']:
        return True
    return 'incidents=%r results=%r' % ([(i['rc'], i['stderr'][-300:]) for i in incidents], results)


def replay(ctx, case):
    if case.get('kind') != 'c36':
        return 'not replayable'
    b = farm.build(case['name'], case['source'], ctx.workdir('replay'), ext=case['ext'], cflags=SAN_CFLAGS, opt=SAN_OPT)
    if not b.ok:
        return 'does not build (%s): %s' % (b.stage, b.errors[-600:])
    wd = ctx.workdir('replay')
    if case['ref'] == 'fault':
        return replay_fault(ctx, case, b, wd)
    ref = case['ref']
    if ref[0] == 'exec' and ref[1] is None:
        ref = ['exec', case['source']]
    unit = {'kind': 'diff', 'name': case['name'], 'so': b.so, 'ref': list(ref), 'work': [[case['fname'], case['tag'], [case['input']]]]}
    jf = os.path.join(wd, 'replay.json')
    with open(jf, 'w') as f:
        json.dump({'units': [unit], 'out': os.path.join(wd, 'replay.out'), 'progress': os.path.join(wd, 'replay.progress')}, f)
    results, incidents, _ = _run_job((jf, san_env(), 300))
    for inc in incidents:
        cls, attributed, summary = classify_report(inc['stderr'], inc['rc'] if isinstance(inc['rc'], int) else None, case['name'])
        if attributed:
            return '%s%r: %s (%s)' % (case['fname'], tuple(case['input']), summary, cls)
    for r in results:
        for fname, tag, inp, exp, got in r['mismatches']:
            return '%s%r: expected %r got %r' % (fname, tuple(inp), exp, got)
    return False


def replay_fault(ctx, case, b, wd):
    src = case['source']
    argexpr = case['input'][0]
    unit = {'kind': 'fault', 'name': case['name'], 'so': b.so, 'source': src, 'work': [[case['fname'], argexpr]]}
    jf = os.path.join(wd, 'replay.json')
    with open(jf, 'w') as f:
        json.dump({'units': [unit], 'out': os.path.join(wd, 'replay.out'), 'progress': os.path.join(wd, 'replay.progress')}, f)
    results, incidents, _ = _run_job((jf, san_env(), 300))
    for inc in incidents:
        cls, attributed, summary = classify_report(inc['stderr'], inc['rc'] if isinstance(inc['rc'], int) else None, case['name'])
        if attributed and inc['token'] and inc['token'][4] == case['tag']:
            return '%s %s: %s (%s)' % (case['fname'], case['tag'], summary, cls)
    for r in results:
        for fname, tag, inp, exp, got in r['mismatches']:
            if tag == case['tag']:
                return '%s %s: expected %r got %r' % (fname, tag, exp, got)
    return False
