"""C46 - cythonize rebuilds exactly the modules whose inputs changed.

Layer A (closure engine, exhaustive): for EVERY directed graph on <= 4 nodes (self-loops included for
n <= 3) and EVERY query order (all permutations, the whole permutation queried twice so that every
node is also asked when it is already memoised) one real `DependencyTree` has `cimported_files` /
`immediate_dependencies` stubbed by the graph (two extract variants: node + direct cimports as in
immediate_dependencies, and the node alone as in distutils_info0); the real transitive_merge /
transitive_merge_helper / _transitive_cache run unmodified and `all_dependencies(n)` must equal the
reachability closure after every query, and so must every memoised entry.  Thorough adds all 2**20 graphs on 5 nodes with the canonical and the reversed order.

Layer B (real files, real `cythonize()` in a fresh forked process per call):
  B1  static sweep: every digraph on 3 .pxd nodes (64) realised with cimport statements, include chains,
      packages with relative / absolute / from-package cimports, dependency files named like the special
      'cython' module (cython_x, cythonx, cy, Cython_x, cythonpkg/dep, cython_inc.pxi).  Real compile of the fresh tree: every
      module regenerated, the set of project files the compiler opens (audit hook) and
      DependencyTree.all_dependencies must both equal the true closure.  Then, for every file f in turn,
      f alone is made newer than all C files (and: equal to the C time, and: nothing touched) and the
      regenerated set must be exactly {m : f in closure(m)} (resp. empty).
  B2  explicit-state search: model state = (edge bits of a 5-file tree, order type of all mtimes, status
      of each generated C file in {missing, foreign Cython version, ok}).  Operations: touch f, set f
      to the C file's time, toggle a cimport/include edge by editing its owner file, delete a C file,
      replace it by one with a foreign version header, build.  BFS with canonical-state dedup to the
      depth bound from all 32 edge configurations; EVERY build transition is materialised as a real
      directory and executed by the real cythonize() (code generation stubbed by a writer of the
      version marker; dependency scan, DependencyTree and the rebuild decision are the real code;
      in-process with all dependency caches dropped, audited against forked children).
  B3  real histories (no materialisation, real code generation, mtimes as the real compile left them):
      all histories (op, build) and (op1, build, op2, build) over an operation alphabet on one tree.

Layer C (regex scanner): every dependency statement form x every placement (real, inside each string
literal kind, in a comment, across a line continuation, inside a nested f-string expression) and every
(hidden placement, following real form) pair through the real parse_dependencies(): the real names must
be reported and no hidden name may be.

Oracle everywhere: a module is regenerated iff its C file is missing/foreign or strictly older than
the newest file of its reflexive-transitive cimport/include closure computed from the TRUE edges.
"""
import os, sys, itertools, shutil, hashlib
from vlib import farm, runner

LEVEL = 'model_checking'
ENGINE = 'E3 histexplore'
TECHNIQUE = ('exhaustive graphs x query orders on the real DependencyTree closure code; explicit-state BFS over '
             'file-tree edit histories with every build transition executed by the real cythonize(); form x placement '
             'table for the regex scanner')
LEVEL_TEXT = ('Layer A: all digraphs on <= 4 nodes x all query orders (each order asked twice) against the real '
              'transitive_merge code, closure compared with Warshall after every query.  Layer B: 64+ real file trees '
              '(all 3-node cimport graphs, include chains, package forms) swept over every single-file touch with real '
              'compiles and an open() recorder; BFS over (edges, mtime order type, C-file status) states of a 5-file '
              'tree to depth 3 (4 thorough) from all 32 edge configurations with every build transition run on the '
              'real cythonize(); real two-step edit histories.  Layer C: statement form x placement table for '
              'parse_dependencies.  Oracle: regenerate iff C missing/foreign or older than the true closure.')
LEVEL_NOTE = ('Real code generation (B1 fresh builds, B3) runs in a child forked from a process that imported (and warmed) the '
              'compiler but never built a DependencyTree (function caches cleared) - this stands for a fresh process; two '
              'cythonize() calls inside one process (process-lifetime timestamp caches, by design) are out of scope.  In B1 '
              'touch variants and B2 code generation is replaced by a stub writing the version marker and cythonize() runs '
              'in-process after dropping _dep_tree and every cached_function cache (the decision code is real; a complete '
              'stated subset of the B2 build transitions is re-run in forked children and must agree).  Dependency statements are only generated at the start '
              'of a line (the scanner is line based by design).  Trees have <= 6 files; pure-mode cimports, '
              'cdef extern headers and build_dir are not part of the tree alphabet.')

BASE = 1500000000
SRC_EXT = ('.pyx', '.pxd', '.pxi')


# =========================================================================================== Layer A
def _closure(adj, n):
    reach = [set(adj[i]) | {i} for i in range(n)]
    changed = True
    while changed:
        changed = False
        for i in range(n):
            new = set(reach[i])
            for j in reach[i]:
                new |= reach[j]
            if new != reach[i]:
                reach[i] = new
                changed = True
    return reach


def _graph(n, g, selfloops):
    pairs = [(i, j) for i in range(n) for j in range(n) if selfloops or i != j]
    adj = [[] for _ in range(n)]
    for b, (i, j) in enumerate(pairs):
        if g >> b & 1:
            adj[i].append(j)
    return [tuple(a) for a in adj]


def _ngraphs(n, selfloops):
    return 1 << (n * n if selfloops else n * (n - 1))


def _layer_a_job(arg):
    n, selfloops, lo, hi, orders_mode, extract_mode = arg
    from Cython.Build.Dependencies import DependencyTree
    queries = 0
    states = 0
    bad = []
    outcomes = set()
    if orders_mode == 'all':
        orders = [p + p for p in itertools.permutations(range(n))]
    else:
        ident = tuple(range(n))
        orders = [ident + ident, ident[::-1] + ident[::-1]]
    for g in range(lo, hi):
        adj = _graph(n, g, selfloops)
        want = _closure(adj, n)
        memo_states = set()
        for order in orders:
            t = DependencyTree(None, quiet=True)
            t.cimported_files = lambda node, adj=adj: adj[node]
            if extract_mode == 'children':      # like immediate_dependencies: the node and its direct cimports
                t.immediate_dependencies = lambda node, adj=adj: {node, *adj[node]}
            else:                               # like distutils_info0: only the node's own contribution
                t.immediate_dependencies = lambda node: {node}
            for qi, q in enumerate(order):
                try:
                    got = t.all_dependencies(q)
                except Exception as e:
                    got = 'exception %s' % type(e).__name__
                queries += 1
                memo = ()
                for seen in t._transitive_cache.values():
                    memo = tuple(sorted(seen))
                memo_states.add(memo)
                if got != want[q]:
                    if len(bad) < 20:
                        bad.append((n, g, selfloops, list(order[:qi + 1]), sorted(want[q]),
                                    sorted(got) if isinstance(got, set) else got, extract_mode))
                    break
                # memoised entries must be complete closures too (they answer later queries)
                for seen in t._transitive_cache.values():
                    for k, v in seen.items():
                        if v != want[k] and len(bad) < 20:
                            bad.append((n, g, selfloops, list(order[:qi + 1]), sorted(want[k]), sorted(v), extract_mode))
            outcomes.add(tuple(len(w) for w in want))
        states += len(memo_states)
    return queries, states, bad, len(outcomes)


def layer_a(ctx):
    jobs = []
    for n, selfloops in ((1, True), (2, True), (3, True), (3, False), (4, False)):
        total = _ngraphs(n, selfloops)
        step = max(1, total // 64)
        for lo in range(0, total, step):
            for em in ('children', 'own'):
                jobs.append((n, selfloops, lo, min(total, lo + step), 'all', em))
    if not ctx.quick:
        total = _ngraphs(5, False)
        step = total // 256
        for lo in range(0, total, step):
            jobs.append((5, False, lo, min(total, lo + step), 'two', 'own'))
    order = list(range(len(jobs)))
    if ctx.seed:
        order = order[ctx.seed % len(order):] + order[:ctx.seed % len(order)]
    res = farm.pmap(_layer_a_job, [jobs[i] for i in order])
    queries = sum(r[0] for r in res)
    states = sum(r[1] for r in res)
    bad = sorted(b for r in res for b in r[2])
    for n, g, sl, order_, want, got, em in bad[:40]:
        adj = _graph(n, g, sl)
        cyc = any(i in _closure(adj, n)[j] and j in _closure(adj, n)[i] for i in range(n) for j in range(n) if i != j)
        if isinstance(got, str):
            cls = got
        else:
            cls = 'missing' if set(got) < set(want) else 'extra' if set(got) > set(want) else 'wrong'
        ctx.violation('A|closure|%s|%s' % (cls, 'cyclic' if cyc else 'acyclic'),
                      'all_dependencies(%r) = %r, closure is %r; graph %r, queries %r' % (order_[-1], got, want, adj, order_),
                      {'layer': 'A', 'n': n, 'graph': g, 'selfloops': sl, 'order': order_, 'extract': em})
    return {'graph_x_extract_variants': sum(j[3] - j[2] for j in jobs), 'queries': queries, 'memo_states': states,
            'mismatches': len(bad)}


def replay_a(case):
    from Cython.Build.Dependencies import DependencyTree
    n, g, sl = case['n'], case['graph'], case['selfloops']
    adj = _graph(n, g, sl)
    want = _closure(adj, n)
    t = DependencyTree(None, quiet=True)
    t.cimported_files = lambda node: adj[node]
    t.immediate_dependencies = (lambda node: {node, *adj[node]}) if case.get('extract', 'children') == 'children' else (lambda node: {node})
    for q in case['order']:
        got = t.all_dependencies(q)
        if got != want[q]:
            return 'all_dependencies(%d) = %r, closure %r (graph %r)' % (q, sorted(got), sorted(want[q]), adj)
        for seen in t._transitive_cache.values():
            for k, v in seen.items():
                if v != want[k]:
                    return 'memoised closure of %d = %r, closure %r (graph %r)' % (k, sorted(v), sorted(want[k]), adj)
    return False


# =========================================================================================== trees
class Tree:
    """A file tree family: files(bits) -> {relpath: text}; graph(bits) -> {file: [files it cimports/includes]}
    (true edges by construction, incl. the implicit m.pyx -> m.pxd); modules; toggles [(edge name, owner file)]."""
    def __init__(self, name, modules, nbits, files, graph, toggles=(), cls='plain'):
        self.name, self.modules, self.nbits = name, list(modules), nbits
        self.files, self.graph, self.toggles, self.cls = files, graph, list(toggles), cls

    def closure(self, bits):
        g = self.graph(bits)
        out = {}
        for m in self.modules:
            seen = {m}
            todo = [m]
            while todo:
                x = todo.pop()
                for y in g.get(x, ()):
                    if y not in seen:
                        seen.add(y)
                        todo.append(y)
            out[m] = seen
        return out

    def sources(self, bits):
        return sorted(f for f in self.files(bits) if f.endswith(SRC_EXT))


def _t1_files(bits):
    ab, ad, bc, cb, dc = bits
    return {
        'a.pyx': ('from b cimport bf\n' if ab else '') + ('include "d.pxi"\n' if ad else '') + 'def fa(x):\n    return x\n',
        'b.pxd': ('from c cimport ct\n' if bc else '') + 'cdef int bf(int x)\n',
        'b.pyx': 'cdef int bf(int x):\n    return x + 1\n',
        'c.pxd': ('cimport b\n' if cb else '') + 'ctypedef int ct\n',
        'd.pxi': ('cimport c\n' if dc else '') + 'dv = 3\n',
    }


def _t1_graph(bits):
    ab, ad, bc, cb, dc = bits
    return {'a.pyx': (['b.pxd'] if ab else []) + (['d.pxi'] if ad else []),
            'b.pyx': ['b.pxd'], 'b.pxd': ['c.pxd'] if bc else [], 'c.pxd': ['b.pxd'] if cb else [],
            'd.pxi': ['c.pxd'] if dc else []}


T1 = Tree('t1', ['a.pyx', 'b.pyx'], 5, _t1_files, _t1_graph,
          toggles=[('ab', 'a.pyx'), ('ad', 'a.pyx'), ('bc', 'b.pxd'), ('cb', 'c.pxd'), ('dc', 'd.pxi')])


def _g3_tree(k, form):
    """Graph k (6 bits) over the pxd nodes a, b, c; module a.pyx owns a.pxd."""
    names = 'abc'
    pairs = [(i, j) for i in range(3) for j in range(3) if i != j]
    adj = {x: [] for x in names}
    for b, (i, j) in enumerate(pairs):
        if k >> b & 1:
            adj[names[i]].append(names[j])

    def stmt(y):
        if form == 'cimport':
            return 'cimport %s\n' % y
        if form == 'from':
            return 'from %s cimport t%s\n' % (y, y)
        return 'from %s cimport (t%s)\n' % (y, y)

    def files(bits):
        out = {'a.pyx': 'def fa(x):\n    return x\n'}
        for x in names:
            out[x + '.pxd'] = ''.join(stmt(y) for y in adj[x]) + 'ctypedef int t%s\n' % x
        return out

    def graph(bits):
        g = {x + '.pxd': [y + '.pxd' for y in adj[x]] for x in names}
        g['a.pyx'] = ['a.pxd']
        return g
    return Tree('g3-%02d-%s' % (k, form), ['a.pyx'], 0, files, graph, cls='cimport-graph')


def _special_trees():
    out = []
    # include of include, the innermost cimports; a pxd that includes a pxi
    out.append(Tree('inc-chain', ['a.pyx'], 0,
                    lambda bits: {'a.pyx': 'include "d.pxi"\ndef fa(x):\n    return x + dv\n',
                                  'd.pxi': 'include "e.pxi"\ndv = 3\n', 'e.pxi': 'cimport c\nev = 4\n',
                                  'c.pxd': 'ctypedef int tc\n', 'z.pxd': 'ctypedef int tz\n'},
                    lambda bits: {'a.pyx': ['d.pxi'], 'd.pxi': ['e.pxi'], 'e.pxi': ['c.pxd']}, cls='include'))
    out.append(Tree('pxd-inc', ['a.pyx'], 0,
                    lambda bits: {'a.pyx': 'from b cimport tb\ndef fa(x):\n    return x\n',
                                  'b.pxd': 'include "d.pxi"\nctypedef int tb\n', 'd.pxi': 'cimport c\nctypedef int td\n',
                                  'c.pxd': 'ctypedef int tc\n'},
                    lambda bits: {'a.pyx': ['b.pxd'], 'b.pxd': ['d.pxi'], 'd.pxi': ['c.pxd']}, cls='include'))
    out.append(Tree('two-mods-diamond', ['a.pyx', 'b.pyx'], 0,
                    lambda bits: {'a.pyx': 'cimport b\ncimport c\ndef fa(x):\n    return x\n',
                                  'b.pyx': 'def fb(x):\n    return x\n', 'b.pxd': 'cimport e\nctypedef int tb\n',
                                  'c.pxd': 'cimport e\nctypedef int tc\n', 'e.pxd': 'ctypedef int te\n'},
                    lambda bits: {'a.pyx': ['b.pxd', 'c.pxd'], 'b.pyx': ['b.pxd'], 'b.pxd': ['e.pxd'], 'c.pxd': ['e.pxd']},
                    cls='cimport-graph'))
    # packages: statement forms inside pkg/a.pyx reaching pkg/b.pxd, which reaches pkg/sub/c.pxd
    forms = [('rel-from-mod', 'from .b cimport tb\n', 'from-module'),
             ('abs-from-mod', 'from pkg.b cimport tb\n', 'from-module'),
             ('abs-cimport', 'cimport pkg.b\n', 'cimport'),
             ('abs-from-pkg', 'from pkg cimport b\n', 'from-package-submodule'),
             ('rel-from-pkg', 'from . cimport b\n', 'from-package-submodule'),
             ('abs-from-pkg-paren', 'from pkg cimport (b)\n', 'from-package-submodule')]
    for name, stmt, cls in forms:
        out.append(Tree('pkg-' + name, ['pkg/a.pyx'], 0,
                        lambda bits, stmt=stmt: {'pkg/__init__.py': '', 'pkg/sub/__init__.py': '',
                                                 'pkg/a.pyx': stmt + 'def fa(x):\n    return x\n',
                                                 'pkg/b.pxd': 'from .sub.c cimport tc\nctypedef int tb\n',
                                                 'pkg/sub/c.pxd': 'ctypedef int tc\n',
                                                 'pkg/z.pxd': 'ctypedef int tz\n'},
                        lambda bits: {'pkg/a.pyx': ['pkg/b.pxd'], 'pkg/b.pxd': ['pkg/sub/c.pxd']}, cls=cls))
    # dependency files whose NAMES merely resemble the special 'cython' module
    names = [('cython_x', 'from cython_x cimport tn', 'cython_x.pxd'), ('cython_x-cimport', 'cimport cython_x', 'cython_x.pxd'),
             ('cythonx', 'from cythonx cimport tn', 'cythonx.pxd'), ('cy', 'cimport cy', 'cy.pxd'),
             ('Cython_x', 'from Cython_x cimport tn', 'Cython_x.pxd'),
             ('cythonpkg', 'from cythonpkg.dep cimport tn', 'cythonpkg/dep.pxd'),
             ('cythonpkg-cimport', 'cimport cythonpkg.dep', 'cythonpkg/dep.pxd')]
    for name, stmt, fn in names:
        out.append(Tree('name-' + name, ['a.pyx'], 0,
                        lambda bits, stmt=stmt, fn=fn: dict({'a.pyx': stmt + '\ndef fa(x):\n    return x\n',
                                                              fn: 'from leaf cimport tl\nctypedef int tn\n',
                                                              'leaf.pxd': 'ctypedef int tl\n', 'z.pxd': 'ctypedef int tz\n'},
                                                             **({'cythonpkg/__init__.py': ''} if '/' in fn else {})),
                        lambda bits, fn=fn: {'a.pyx': [fn], fn: ['leaf.pxd']}, cls='cython-like-name'))
    out.append(Tree('name-cython_inc', ['a.pyx'], 0,
                    lambda bits: {'a.pyx': 'include "cython_inc.pxi"\ndef fa(x):\n    return x + NI\n',
                                  'cython_inc.pxi': 'cimport leaf\nNI = 1\n', 'leaf.pxd': 'ctypedef int tl\n'},
                    lambda bits: {'a.pyx': ['cython_inc.pxi'], 'cython_inc.pxi': ['leaf.pxd']}, cls='cython-like-name'))
    return out


def _g3_acyclic(k):
    pairs = [(i, j) for i in range(3) for j in range(3) if i != j]
    adj = [[j for b, (i, j) in enumerate(pairs) if k >> b & 1 and i == x] for x in range(3)]
    clo = _closure(adj, 3)
    return not any(i in clo[j] and j in clo[i] for i in range(3) for j in range(3) if i != j)


def all_b1_trees(tier):
    """All 64 cimport graphs on 3 pxd nodes; `from x cimport name` forms only on the acyclic ones (a cyclic
    from-cimport of a *name* is a compile error, i.e. not a legal tree)."""
    trees = [_g3_tree(k, 'cimport') for k in range(64)]
    acyclic = [k for k in range(64) if _g3_acyclic(k)]
    if tier == 'thorough':
        trees += [_g3_tree(k, f) for k in acyclic for f in ('from', 'paren')]
    else:
        trees += [_g3_tree(k, 'from') for k in (0b000001, 0b001001, 0b001011, 0b100010)]
    return trees + _special_trees()


def tree_by_name(name):
    if name == 't1':
        return T1
    if name.startswith('g3-'):
        _, k, form = name.split('-')
        return _g3_tree(int(k), form)
    for t in _special_trees():
        if t.name == name:
            return t
    raise KeyError(name)


# =========================================================================================== real cythonize in a child
def _child_build(treedir, modules, stub):
    """Runs in a forked child: one real cythonize() call in `treedir`."""
    os.chdir(treedir)
    import Cython.Build.Dependencies as D
    from Cython import Utils
    if D._dep_tree is not None:
        raise RuntimeError('harness: dependency tree exists before cythonize')
    reads = {}
    cur = [None]

    def hook(event, args):
        if event == 'open' and cur[0] is not None:
            p = args[0]
            if isinstance(p, bytes):
                p = os.fsdecode(p)
            if isinstance(p, str) and p.endswith(SRC_EXT):
                reads[cur[0]].add(p)
    sys.addaudithook(hook)
    real = D.cythonize_one
    calls = []

    def wrapped(pyx_file, c_file, *a, **k):
        calls.append(pyx_file)
        if stub:
            if os.path.exists(c_file):
                os.unlink(c_file)
            with open(c_file, 'w') as f:
                f.write(Utils.GENERATED_BY_MARKER + '\n/* stub */\n')
            return None
        cur[0] = pyx_file
        reads[pyx_file] = set()
        try:
            return real(pyx_file, c_file, *a, **k)
        finally:
            cur[0] = None
    D.cythonize_one = wrapped
    D.cythonize(list(modules), quiet=True, language_level=3)
    root = os.path.realpath(treedir)

    def rel(p):
        return os.path.relpath(os.path.realpath(os.path.join(treedir, p)), root)
    tree = D._dep_tree
    alldeps = {m: sorted(rel(p) for p in tree.all_dependencies(m)) for m in modules}
    rd = {m: sorted({rel(p) for p in s if os.path.realpath(os.path.join(treedir, p)).startswith(root + os.sep)})
          for m, s in reads.items()}
    return {'calls': calls, 'reads': rd, 'alldeps': alldeps}


def _cfile(m):
    return os.path.splitext(m)[0] + '.c'


def _cstat(treedir, m):
    try:
        st = os.stat(os.path.join(treedir, _cfile(m)))
        return (st.st_ino, st.st_mtime_ns)
    except OSError:
        return None


def _inproc_stub_build(treedir, modules):
    """One real cythonize() call in THIS process with code generation stubbed, after dropping every piece of
    process-lifetime dependency state (module-level _dep_tree, all cached_function caches) - equivalent to a fresh
    process for the decision code; the equivalence is audited against forked children (B2 audit, B1/B3 forks)."""
    import io, contextlib
    import Cython.Build.Dependencies as D
    from Cython import Utils
    D._dep_tree = None
    Utils.clear_function_caches()
    cwd = os.getcwd()
    real = D.cythonize_one

    def stubbed(pyx_file, c_file, *a, **k):
        if os.path.exists(c_file):
            os.unlink(c_file)
        with open(c_file, 'w') as f:
            f.write(Utils.GENERATED_BY_MARKER + '\n/* stub */\n')
    os.chdir(treedir)
    D.cythonize_one = stubbed
    buf = io.StringIO()
    try:
        with contextlib.redirect_stdout(buf), contextlib.redirect_stderr(buf):
            D.cythonize(list(modules), quiet=True, language_level=3)
        return None
    except Exception as e:
        import traceback
        return 'cythonize raised %s\n%s\n%s' % (type(e).__name__, traceback.format_exc()[-1500:], buf.getvalue()[-500:])
    finally:
        D.cythonize_one = real
        os.chdir(cwd)
        D._dep_tree = None
        Utils.clear_function_caches()


def run_build(treedir, modules, stub, fork=None):
    """-> (regenerated list, info dict) or (None, error text).  Real code generation always runs in a forked child;
    stubbed builds run in-process unless fork=True."""
    before = {m: _cstat(treedir, m) for m in modules}
    if stub and not fork:
        err = _inproc_stub_build(treedir, modules)
        if err:
            return None, err
        info = {}
    else:
        r = runner.forked(_child_build, treedir, list(modules), stub, timeout=300)
        if r.kind != 'ok':
            return None, 'cythonize %s: %s\n%s' % (r.kind, str(r.value)[-1500:], r.output[-1500:])
        info = r.value
    after = {m: _cstat(treedir, m) for m in modules}
    regen = sorted(m for m in modules if after[m] is not None and after[m] != before[m])
    return regen, info


def write_tree(treedir, files):
    for fn, text in files.items():
        p = os.path.join(treedir, fn)
        os.makedirs(os.path.dirname(p), exist_ok=True)
        with open(p, 'w') as f:
            f.write(text)


def set_mtime(path, t):
    os.utime(path, (t, t))


def _marker():
    from Cython import Utils
    return Utils.GENERATED_BY_MARKER


FOREIGN = '/* Generated by Cython 0.29.1 */\n/* foreign */\n'


# =========================================================================================== B1
def _b1_job(arg):
    """One tree: real fresh build + single-file touch sweep.  Returns (stats, violations)."""
    name, workdir = arg
    tree = tree_by_name(name)
    bits = (0,) * tree.nbits
    viol = []
    builds = 0
    d0 = os.path.join(workdir, name, 'base')
    os.makedirs(d0, exist_ok=True)
    files = tree.files(bits)
    write_tree(d0, files)
    srcs = tree.sources(bits)
    clo = tree.closure(bits)
    regen, info = run_build(d0, tree.modules, stub=False)
    builds += 1
    outcomes = set()
    if regen is None:
        viol.append(('B1|%s|fresh-build|failed' % tree.cls, info, {'layer': 'B1', 'tree': name, 'touch': None}))
        return {'builds': builds, 'outcomes': []}, viol
    if regen != sorted(tree.modules):
        viol.append(('B1|%s|fresh-build|not-all-generated' % tree.cls, 'fresh tree: regenerated %r of %r' % (regen, tree.modules),
                     {'layer': 'B1', 'tree': name, 'touch': None}))
    for m in tree.modules:
        want = sorted(clo[m])
        if info['alldeps'].get(m) != want:
            got = info['alldeps'].get(m)
            cls = 'missing' if set(got or ()) < set(want) else 'extra' if set(got or ()) > set(want) else 'wrong'
            viol.append(('B1|%s|all_dependencies|%s' % (tree.cls, cls),
                         '%s: all_dependencies(%s) = %r, true closure %r' % (name, m, got, want),
                         {'layer': 'B1', 'tree': name, 'touch': None}))
        if info['reads'].get(m) != want:
            got = info['reads'].get(m)
            cls = 'missing' if set(got or ()) < set(want) else 'extra' if set(got or ()) > set(want) else 'wrong'
            viol.append(('B1|%s|compiler-reads-vs-model|%s' % (tree.cls, cls),
                         '%s: compiler opened %r while compiling %s, model closure %r' % (name, got, m, want),
                         {'layer': 'B1', 'tree': name, 'touch': None}))
    # normalise times: sources BASE, generated C BASE+10
    for f in files:
        set_mtime(os.path.join(d0, f), BASE)
    for m in tree.modules:
        set_mtime(os.path.join(d0, _cfile(m)), BASE + 10)
    variants = [(None, None)] + [(f, BASE + 20) for f in srcs] + [(f, BASE + 10) for f in srcs]
    for i, (f, t) in enumerate(variants):
        d = os.path.join(workdir, name, 'v%d' % i)
        shutil.copytree(d0, d, copy_function=shutil.copy2)
        if f is not None:
            set_mtime(os.path.join(d, f), t)
        want = sorted(m for m in tree.modules if f is not None and t > BASE + 10 and f in clo[m])
        regen, info = run_build(d, tree.modules, stub=True)
        builds += 1
        shutil.rmtree(d, ignore_errors=True)
        kind = 'none' if f is None else ('newer' if t > BASE + 10 else 'equal')
        if regen is None:
            viol.append(('B1|%s|touch-%s|failed' % (tree.cls, kind), info, {'layer': 'B1', 'tree': name, 'touch': f, 't': t}))
            continue
        outcomes.add((kind, tuple(regen)))
        if regen != want:
            cls = 'missed-rebuild' if set(regen) < set(want) else 'spurious-rebuild'
            viol.append(('B1|%s|touch-%s|%s' % (tree.cls, kind, cls),
                         '%s: %s made %s than the C files: regenerated %r, expected %r' % (name, f, kind, regen, want),
                         {'layer': 'B1', 'tree': name, 'touch': f, 't': t}))
    shutil.rmtree(os.path.join(workdir, name), ignore_errors=True)
    return {'builds': builds, 'outcomes': sorted(outcomes)}, viol


def replay_b1(ctx, case):
    wd = ctx.workdir('replay-b1')
    st, viol = _b1_job((case['tree'], wd))
    for key, what, c in viol:
        if c.get('touch') == case.get('touch') and c.get('t') == case.get('t'):
            return what
    return False


# =========================================================================================== B2 model
def _norm(bits, ft, cs):
    ranks = sorted(set(ft) | {r for k, r in cs if k != 'missing'})
    mp = {r: i for i, r in enumerate(ranks)}
    return (bits, tuple(mp[r] for r in ft), tuple((k, mp[r] if k != 'missing' else -1) for k, r in cs))


class Model:
    def __init__(self, tree):
        self.tree = tree
        self.files = tree.sources((1,) * tree.nbits)
        self.fidx = {f: i for i, f in enumerate(self.files)}
        self._clo = {}

    def closure(self, bits):
        c = self._clo.get(bits)
        if c is None:
            c = self._clo[bits] = self.tree.closure(bits)
        return c

    def initial(self, bits):
        return _norm(bits, (0,) * len(self.files), (('ok', 1),) * len(self.tree.modules))

    def expected_regen(self, state):
        bits, ft, cs = state
        clo = self.closure(bits)
        out = []
        for mi, m in enumerate(self.tree.modules):
            k, r = cs[mi]
            newest = max(ft[self.fidx[f]] for f in clo[m])
            if k != 'ok' or r < newest:
                out.append(m)
        return out

    def ops(self, state):
        bits, ft, cs = state
        out = [('touch', f) for f in self.files]
        okr = [r for k, r in cs if k == 'ok']
        if okr:
            out += [('sync', f) for f in self.files if ft[self.fidx[f]] != max(okr)]
        out += [('toggle', e) for e, _ in self.tree.toggles]
        out += [('delc', m) for mi, m in enumerate(self.tree.modules) if cs[mi][0] != 'missing']
        out += [('foreign', m) for mi, m in enumerate(self.tree.modules) if cs[mi][0] != 'foreign']
        out.append(('build',))
        return out

    def apply(self, state, op):
        bits, ft, cs = state
        ft = list(ft)
        cs = list(cs)
        top = max(list(ft) + [r for k, r in cs]) + 1
        if op[0] == 'touch':
            ft[self.fidx[op[1]]] = top
        elif op[0] == 'sync':
            ft[self.fidx[op[1]]] = max(r for k, r in cs if k == 'ok')
        elif op[0] == 'toggle':
            names = [e for e, _ in self.tree.toggles]
            i = names.index(op[1])
            bits = bits[:i] + (1 - bits[i],) + bits[i + 1:]
            ft[self.fidx[self.tree.toggles[i][1]]] = top
        elif op[0] == 'delc':
            cs[self.tree.modules.index(op[1])] = ('missing', -1)
        elif op[0] == 'foreign':
            cs[self.tree.modules.index(op[1])] = ('foreign', top)
        elif op[0] == 'build':
            for m in self.expected_regen(state):
                cs[self.tree.modules.index(m)] = ('ok', top)
        return _norm(bits, tuple(ft), tuple(cs))

    def materialise(self, d, state):
        bits, ft, cs = state
        files = self.tree.files(bits)
        write_tree(d, files)
        for f in files:
            set_mtime(os.path.join(d, f), BASE + 2 * ft[self.fidx[f]] if f in self.fidx else BASE)
        for mi, m in enumerate(self.tree.modules):
            k, r = cs[mi]
            p = os.path.join(d, _cfile(m))
            if k == 'missing':
                continue
            with open(p, 'w') as f:
                f.write(_marker() + '\n/* stub */\n' if k == 'ok' else FOREIGN)
            set_mtime(p, BASE + 2 * r)


def explore_model(model, depth, seed=0):
    """BFS over the model to `depth` operations.  Returns (states dict state->history, build transitions
    [(state, history)], transitions, dedup_hits)."""
    inits = [model.initial(bits) for bits in itertools.product((0, 1), repeat=model.tree.nbits)]
    if seed:
        inits = inits[seed % len(inits):] + inits[:seed % len(inits)]
    seen = {}
    frontier = []
    for s in inits:
        if s not in seen:
            seen[s] = ()
            frontier.append(s)
    builds = []
    transitions = 0
    hits = 0
    for dpt in range(depth):
        nxt = []
        for s in frontier:
            for op in model.ops(s):
                transitions += 1
                if op[0] == 'build':
                    builds.append(s)
                s2 = model.apply(s, op)
                if s2 in seen:
                    hits += 1
                    continue
                seen[s2] = seen[s] + (op,)
                nxt.append(s2)
        frontier = nxt
    return seen, builds, transitions, hits


def _b2_job(arg):
    states, workdir, idx, fork = arg
    model = Model(T1)
    out = []
    for j, state in enumerate(states):
        d = os.path.join(workdir, 'b2-%d-%d-%d' % (idx, j, fork))
        os.makedirs(d)
        model.materialise(d, state)
        want = model.expected_regen(state)
        regen, info = run_build(d, T1.modules, stub=True, fork=fork)
        shutil.rmtree(d, ignore_errors=True)
        out.append((regen, want, None if regen is not None else info))
    return out


def _b2_key(model, state, regen, want):
    """Root key: which kind of file is newest in the closure of the mis-decided module + C status + direction."""
    bits, ft, cs = state
    clo = model.closure(bits)
    parts = []
    for mi, m in enumerate(T1.modules):
        if (m in regen) == (m in want):
            continue
        k, r = cs[mi]
        newest = max(ft[model.fidx[f]] for f in clo[m])
        top = sorted(f for f in clo[m] if ft[model.fidx[f]] == newest)
        g = model.tree.graph(bits)
        rel = 'self' if m in top else 'direct' if any(f in g.get(m, ()) for f in top) else 'indirect'
        cmpc = 'n/a' if k != 'ok' else 'older' if r < newest else 'equal' if r == newest else 'newer'
        outside = sorted(f for f in model.files if f not in clo[m] and (k != 'ok' or ft[model.fidx[f]] > r))
        parts.append('%s:c=%s/%s:newest=%s%s' % ('missed' if m in want else 'spurious', k, cmpc, rel,
                                                 ':newer-nondep' if outside and m not in want else ''))
    return 'B2|' + ','.join(sorted(set(parts)))


def layer_b2(ctx):
    model = Model(T1)
    depth = 3 if ctx.quick else 4
    seen, builds, transitions, hits = explore_model(model, depth, ctx.seed)
    builds = sorted(set(builds))
    wd = ctx.workdir('b2')
    nchunk = max(1, min(len(builds), farm.NPROC * 6))
    chunks = [builds[i::nchunk] for i in range(nchunk)]
    res = farm.pmap(_b2_job, [(c, wd, i, False) for i, c in enumerate(chunks)])
    nviol = 0
    outcomes = set()
    verdict = {}
    for c, rs in zip(chunks, res):
        for state, (regen, want, err) in zip(c, rs):
            verdict[state] = regen
            if regen is None:
                nviol += 1
                ctx.violation('B2|cythonize-failed', err, {'layer': 'B2', 'state': state, 'history': seen.get(state)})
                continue
            outcomes.add(tuple(regen))
            if regen != want:
                nviol += 1
                ctx.violation(_b2_key(model, state, regen, want),
                              'state %r (history %r): regenerated %r, expected %r' % (state, seen.get(state), regen, want),
                              {'layer': 'B2', 'state': state, 'history': seen.get(state), 'want': want, 'got': regen})
    # audit of the in-process reset: the same build transitions in forked children must give the same verdicts.
    # quick: the 32 initial states and every state one operation away whose edge configuration is B3_BITS;
    # thorough: every state <= 1 operation from an initial state.
    audit_depth = 1
    audit = sorted(s_ for s_ in builds if len(seen[s_]) == 0 or (len(seen[s_]) == 1 and (not ctx.quick or s_[0] == B3_BITS)))
    achunks = [audit[i::farm.NPROC * 2] for i in range(farm.NPROC * 2)]
    achunks = [c for c in achunks if c]
    ares = farm.pmap(_b2_job, [(c, wd, 1000 + i, True) for i, c in enumerate(achunks)])
    audit_bad = 0
    for c, rs in zip(achunks, ares):
        for state, (regen, want, err) in zip(c, rs):
            if regen != verdict.get(state):
                audit_bad += 1
                ctx.violation('B2|harness|inprocess-vs-forked', 'state %r: in-process build regenerated %r, forked child %r (%s)'
                              % (state, verdict.get(state), regen, err), {'layer': 'B2', 'state': state, 'history': seen.get(state),
                                                                          'audit': True})
    samples = []
    for s in builds[:: max(1, len(builds) // 3)][:3]:
        samples.append({'history': [list(o) for o in seen[s]] + [['build']], 'state': repr(s),
                        'expected_regenerated': model.expected_regen(s)})
    return {'states': len(seen), 'transitions': transitions, 'dedup_hits': hits, 'build_transitions_on_impl': len(builds),
            'depth': depth, 'distinct_regen_sets': len(outcomes), 'violating': nviol,
            'fork_audit': {'build_transitions': len(audit), 'max_ops': audit_depth, 'disagreements': audit_bad}}, samples


def replay_b2(ctx, case):
    model = Model(T1)
    st = case['state']
    state = (tuple(st[0]), tuple(st[1]), tuple((k, r) for k, r in st[2]))
    d = os.path.join(ctx.workdir('replay-b2'), 'x')
    shutil.rmtree(d, ignore_errors=True)
    os.makedirs(d)
    model.materialise(d, state)
    want = model.expected_regen(state)
    regen, info = run_build(d, T1.modules, stub=True)
    if regen is None:
        return info
    if regen != want:
        return 'regenerated %r, expected %r' % (regen, want)
    return False


# =========================================================================================== B3 real histories
B3_BITS = (1, 1, 1, 0, 0)


def _b3_ops(full):
    files = T1.sources((1,) * 5)
    ops = [('touch', f) for f in files] + [('sync', f) for f in files] + [('toggle', e) for e, _ in T1.toggles]
    ops += [('delc', m) for m in T1.modules] + [('foreign', m) for m in T1.modules]
    if not full:
        keep = {('touch', 'c.pxd'), ('touch', 'd.pxi'), ('touch', 'b.pyx'), ('sync', 'b.pxd'), ('toggle', 'bc'), ('toggle', 'cb'),
                ('toggle', 'ad'), ('delc', 'a.pyx'), ('foreign', 'b.pyx')}
        ops = [o for o in ops if o in keep]
    return ops


def _real_state(d, bits):
    """Expected regeneration computed from the real files' stats and the true edges."""
    clo = T1.closure(bits)
    marker = _marker().encode()
    want = []
    for m in T1.modules:
        p = os.path.join(d, _cfile(m))
        ok = False
        if os.path.exists(p):
            with open(p, 'rb') as f:
                ok = f.read(len(marker)) == marker
        if not ok:
            want.append(m)
            continue
        ct = os.stat(p).st_mtime_ns
        if any(os.stat(os.path.join(d, f)).st_mtime_ns > ct for f in clo[m]):
            want.append(m)
    return want


def _apply_real(d, bits, op):
    names = [f for f in os.listdir(d) if f.endswith(SRC_EXT + ('.c',))]
    top = max(os.stat(os.path.join(d, f)).st_mtime_ns for f in names)
    newer = (top + 2 * 10**9)
    if op[0] == 'touch':
        os.utime(os.path.join(d, op[1]), ns=(newer, newer))
    elif op[0] == 'sync':
        cts = [os.stat(os.path.join(d, _cfile(m))).st_mtime_ns for m in T1.modules if os.path.exists(os.path.join(d, _cfile(m)))]
        if cts:
            os.utime(os.path.join(d, op[1]), ns=(max(cts), max(cts)))
    elif op[0] == 'toggle':
        i = [e for e, _ in T1.toggles].index(op[1])
        bits = bits[:i] + (1 - bits[i],) + bits[i + 1:]
        owner = T1.toggles[i][1]
        with open(os.path.join(d, owner), 'w') as f:
            f.write(T1.files(bits)[owner])
        os.utime(os.path.join(d, owner), ns=(newer, newer))
    elif op[0] == 'delc':
        p = os.path.join(d, _cfile(op[1]))
        if os.path.exists(p):
            os.unlink(p)
    elif op[0] == 'foreign':
        p = os.path.join(d, _cfile(op[1]))
        with open(p, 'w') as f:
            f.write(FOREIGN)
        os.utime(p, ns=(newer, newer))
    return bits


def _b3_job(arg):
    hist, base, workdir, idx = arg
    d = os.path.join(workdir, 'h%d' % idx)
    shutil.copytree(base, d, copy_function=shutil.copy2)
    bits = B3_BITS
    builds = 0
    try:
        for i, op in enumerate(hist):
            bits = _apply_real(d, bits, tuple(op))
            want = _real_state(d, bits)
            regen, info = run_build(d, T1.modules, stub=False)
            builds += 1
            if regen is None:
                return builds, ('B3|cythonize-failed', info, i)
            clo = T1.closure(bits)
            for m in regen:
                if info['reads'].get(m) != sorted(clo[m]):
                    return builds, ('B3|compiler-reads-vs-model', 'after %r: compiler opened %r for %s, closure %r'
                                    % (hist[:i + 1], info['reads'].get(m), m, sorted(clo[m])), i)
            for m in T1.modules:
                if info['alldeps'].get(m) != sorted(clo[m]):
                    return builds, ('B3|all_dependencies', 'after %r: all_dependencies(%s) = %r, closure %r'
                                    % (hist[:i + 1], m, info['alldeps'].get(m), sorted(clo[m])), i)
            if regen != want:
                cls = 'missed-rebuild' if set(regen) < set(want) else 'spurious-rebuild'
                return builds, ('B3|%s|%s' % ('/'.join(o[0] for o in hist[:i + 1]), cls),
                                'history %r then build: regenerated %r, expected %r' % (hist[:i + 1], regen, want), i)
            # the harness clock (+2 s per operation) can run ahead of the wall clock: a C file written "now" must not
            # look older than sources that were touched "later" on the harness clock
            names = [f for f in os.listdir(d) if f.endswith(SRC_EXT)]
            top = max(os.stat(os.path.join(d, f)).st_mtime_ns for f in names)
            for m in regen:
                p = os.path.join(d, _cfile(m))
                if os.stat(p).st_mtime_ns <= top:
                    os.utime(p, ns=(top + 2 * 10**9, top + 2 * 10**9))
            if _real_state(d, bits):
                return builds, ('B3|not-up-to-date-after-build', 'after %r + build the tree is still stale: %r'
                                % (hist[:i + 1], _real_state(d, bits)), i)
    finally:
        shutil.rmtree(d, ignore_errors=True)
    return builds, None


def layer_b3(ctx):
    wd = ctx.workdir('b3')
    base = os.path.join(wd, 'base')
    os.makedirs(base)
    write_tree(base, T1.files(B3_BITS))
    regen, info = run_build(base, T1.modules, stub=False)
    if regen is None or regen != sorted(T1.modules):
        ctx.violation('B3|fresh-build', 'fresh build of the base tree: %r %r' % (regen, info), {'layer': 'B3', 'history': []})
        return {'histories': 0, 'real_builds': 1}, []
    ops = _b3_ops(not ctx.quick)
    hists = [[o] for o in ops] + [[o1, o2] for o1 in ops for o2 in ops]
    if ctx.seed:
        k = ctx.seed % len(hists)
        hists = hists[k:] + hists[:k]
    res = farm.pmap(_b3_job, [(h, base, wd, i) for i, h in enumerate(hists)])
    builds = 1
    for h, (b, bad) in zip(hists, res):
        builds += b
        if bad:
            ctx.violation(bad[0], bad[1], {'layer': 'B3', 'history': [list(o) for o in h]})
    return ({'histories': len(hists), 'real_builds': builds, 'alphabet': [list(o) for o in ops]},
            [{'real_history': [list(o) for o in hists[len(hists) // 2]], 'note': 'a build follows every operation'}])


def replay_b3(ctx, case):
    wd = ctx.workdir('replay-b3')
    base = os.path.join(wd, 'base')
    shutil.rmtree(base, ignore_errors=True)
    os.makedirs(base)
    write_tree(base, T1.files(B3_BITS))
    regen, info = run_build(base, T1.modules, stub=False)
    if regen is None:
        return info
    b, bad = _b3_job(([tuple(o) for o in case['history']], base, wd, 0))
    return bad[1] if bad else False


# =========================================================================================== Layer C
# (name, statement text with names R1.. as real / H1.. when hidden, required cimports, required includes, required externs)
def _forms(p):
    """p = name prefix ('real' or 'hid').  -> list of (form name, text, cimports, includes, externs)"""
    return [
        ('cimport', 'cimport %sa\n' % p, [p + 'a'], [], []),
        ('cimport-list', 'cimport %sa, %sb\n' % (p, p), [p + 'a', p + 'b'], [], []),
        ('cimport-dotted', 'cimport %sa.sub\n' % p, [p + 'a.sub'], [], []),
        ('cimport-as', 'cimport %sa as q\n' % p, [p + 'a'], [], []),
        ('from-cimport', 'from %sa cimport name\n' % p, [p + 'a', p + 'a.name'], [], []),
        ('from-cimport-list', 'from %sa cimport n1, n2\n' % p, [p + 'a', p + 'a.n1', p + 'a.n2'], [], []),
        ('from-cimport-paren', 'from %sa cimport (n1, n2)\n' % p, [p + 'a', p + 'a.n1', p + 'a.n2'], [], []),
        ('from-cimport-multiline', 'from %sa cimport (\n    n1,\n    n2)\n' % p, [p + 'a', p + 'a.n1', p + 'a.n2'], [], []),
        ('from-dotted-cimport', 'from %sa.sub cimport name\n' % p, [p + 'a.sub', p + 'a.sub.name'], [], []),
        ('indented-cimport', 'IF X:\n    cimport %sa\n' % p, [p + 'a'], [], []),
        ('include', 'include "%sa.pxi"\n' % p, [], [p + 'a.pxi'], []),
        ('include-sq', "include '%sa.pxi'\n" % p, [], [p + 'a.pxi'], []),
        ('extern', 'cdef extern from "%sa.h":\n    int f()\n' % p, [], [], [p + 'a.h']),
        ('pure-from', 'from cython.cimports.%sa import name\n' % p, [p + 'a'], [], []),
        ('pure-import', 'import cython.cimports.%sa\n' % p, [p + 'a'], [], []),
        ('continued-from', 'from %sa \\\n    cimport name\n' % p, [p + 'a', p + 'a.name'], [], []),
        ('continued-cimport', 'cimport \\\n    %sa\n' % p, [p + 'a'], [], []),
        ('continued-after-cimport', 'from %sa cimport \\\n    name\n' % p, [p + 'a', p + 'a.name'], [], []),
    ]


def _placements(stmt):
    """Hidden placements of a statement (the statement keeps its own line start inside the literal)."""
    body = stmt.rstrip('\n')
    has_dq = '"' in body
    has_sq = "'" in body
    out = []
    for pre in ('', 'r', 'b', 'u', 'f', 'rb'):
        out.append(('tq-dq-' + (pre or 'plain'), 's = %s"""\n%s\n"""\n' % (pre, body.replace('"', "'") if has_dq else body)))
        out.append(('tq-sq-' + (pre or 'plain'), "s = %s'''\n%s\n'''\n" % (pre, body.replace("'", '"') if has_sq else body)))
    out.append(('docstring', 'def f():\n    """\n%s\n    """\n' % body.replace('"', "'")))
    out.append(('str-continued', 's = "x \\\n%s"\n' % body.replace('"', "'").replace('\n', ' ')))
    out.append(('comment', '\n'.join('#' + l for l in body.split('\n')) + '\n'))
    out.append(('comment-indented', '\n'.join('    # ' + l for l in body.split('\n')) + '\n'))
    out.append(('after-quote-in-comment', "# it's\n" + '\n'.join('#' + l for l in body.split('\n')) + '\n'))
    out.append(('fstring-expr', 's = f"{x + \'\'\'\n%s\n\'\'\'}"\n' % body.replace("'", '"')))
    out.append(('fstring-text-braces', 's = f"""{{\n%s\n}}"""\n' % body.replace('"', "'")))
    out.append(('tq-with-inner-quotes', 's = """ "\' \n%s\n \'" """\n' % body.replace('"', "'")))
    return out


def _scan(text, wd, tag):
    from Cython.Build.Dependencies import parse_dependencies
    fn = os.path.join(wd, 'scan_%s.pyx' % tag)
    with open(fn, 'w') as f:
        f.write(text)
    f = getattr(parse_dependencies, 'uncached', parse_dependencies)
    cimports, includes, externs, info = f(fn)
    os.unlink(fn)
    return list(cimports), list(includes), list(externs)


def _check_scan(text, real, wd, tag):
    """real = (cimports, includes, externs) required.  Returns None or (class, description, subname?)."""
    try:
        got = _scan(text, wd, tag)
    except Exception as e:
        return ('exception', 'parse_dependencies raised %s: %s' % (type(e).__name__, e), False)
    for kind, need, have in zip(('cimport', 'include', 'extern'), real, got):
        for n in need:
            if n not in have:
                sub = kind == 'cimport' and '.' in n and n.rsplit('.', 1)[0] in have
                return ('required-%s-missing' % kind, 'expected %s %r not reported; got %r' % (kind, n, got), sub)
    for kind, have in zip(('cimport', 'include', 'extern'), got):
        for h in have:
            if 'hid' in h:
                return ('hidden-%s-reported' % kind, '%s %r is inside a literal/comment but was reported; got %r'
                        % (kind, h, got), False)
    return None


def _layer_c_cases():
    cases = []
    real_forms = _forms('real')
    hid_forms = _forms('hid')
    filler = 'x = 1\n'
    for name, text, ci, inc, ext in real_forms:
        cases.append(('real|%s' % name, name, 'real', filler + text + 'def g():\n    return 1\n', (ci, inc, ext)))
        cases.append(('real-first-line|%s' % name, name, 'real', text, (ci, inc, ext)))
        cases.append(('real-trailing-comment|%s' % name, name, 'real', text.rstrip('\n') + '  # c\n', (ci, inc, ext)))
    for hname, htext, _, _, _ in hid_forms:
        for pname, ptext in _placements(htext):
            cases.append(('hidden|%s|%s' % (hname, pname), hname, pname, filler + ptext + filler, ([], [], [])))
            # a real statement right after the hidden one: the stripper must have resynchronised
            for name, text, ci, inc, ext in real_forms[:1] + real_forms[4:5] + real_forms[10:11] + real_forms[12:13]:
                cases.append(('hidden-then-real|%s|%s|%s' % (hname, pname, name), name, pname, ptext + text + filler,
                              (ci, inc, ext)))
    return cases


def _layer_c_job(arg):
    cases, wd, idx = arg
    out = []
    for j, (cid, form, placement, text, real) in enumerate(cases):
        out.append(_check_scan(text, real, wd, '%d_%d' % (idx, j)))
    return out


def layer_c(ctx):
    cases = _layer_c_cases()
    wd = ctx.workdir('scan')
    n = farm.NPROC
    chunks = [cases[i::n] for i in range(n)]
    res = farm.pmap(_layer_c_job, [(c, wd, i) for i, c in enumerate(chunks)])
    bad = 0
    outcomes = set()
    for c, rs in zip(chunks, res):
        for (cid, form, placement, text, real), r in zip(c, rs):
            outcomes.add((form, placement != 'real', r is None))
            if r is None:
                continue
            bad += 1
            if r[2]:
                # "from X cimport n": X reported, X.n not - independent of what precedes the statement
                key = 'C|from-cimport-subname-missing|%s' % form
            else:
                key = 'C|%s|%s|%s' % (r[0], form, placement)
            ctx.violation(key, '%s: %s' % (cid, r[1]), {'layer': 'C', 'text': text, 'real': real, 'id': cid})
    return {'scanner_cases': len(cases), 'scanner_mismatches': bad, 'forms': len(_forms('x')),
            'placements': len(_placements('cimport x\n')), 'distinct_outcomes': len(outcomes)}


def replay_c(ctx, case):
    r = _check_scan(case['text'], tuple(case['real']), ctx.workdir('replay-scan'), 'r')
    return r[1] if r else False


# =========================================================================================== driver
def _warm(ctx):
    """Warm the compiler (utility code caches) on an unrelated file, then drop every path/dependency cache so
    that forked children start like a fresh process with respect to the dependency machinery."""
    wd = ctx.workdir('warm')
    farm.build('warm0', 'cimport cython\ncdef int f(int x):\n    return x\ndef g(x):\n    return f(x)\n', wd, cc=False)
    import Cython.Build.Dependencies as D
    import concurrent.futures.process  # noqa  (imported lazily by cythonize)
    from distutils.extension import Extension  # noqa
    from Cython import Utils
    Utils.clear_function_caches()
    assert D._dep_tree is None


def run(ctx):
    only = os.environ.get('C46_LAYERS')      # debugging aid only (evidence then says exhaustive: false)
    want = set(only.split(',')) if only else {'A', 'B1', 'B2', 'B3', 'C'}
    _warm(ctx)
    a = {'queries': 0, 'memo_states': 0}
    if 'A' in want:
        a = layer_a(ctx)
        ctx.log('layer A: %r' % a)
    c = {}
    if 'C' in want:
        c = layer_c(ctx)
        ctx.log('layer C: %r' % c)
    trees = all_b1_trees(ctx.tier) if 'B1' in want else []
    wd = ctx.workdir('b1')
    order = list(range(len(trees)))
    if ctx.seed and order:
        order = order[ctx.seed % len(order):] + order[:ctx.seed % len(order)]
    res = farm.pmap(_b1_job, [(trees[i].name, wd) for i in order])
    b1_builds = 0
    b1_outcomes = set()
    for i, (st, viol) in zip(order, res):
        b1_builds += st['builds']
        b1_outcomes.update((o[0], len(o[1])) for o in st['outcomes'])
        for key, what, case in viol:
            ctx.violation(key, what, case)
    ctx.log('layer B1: %d trees, %d builds' % (len(trees), b1_builds))
    b2, samples = ({'states': 0, 'transitions': 0, 'build_transitions_on_impl': 0}, [])
    if 'B2' in want:
        b2, samples = layer_b2(ctx)
        ctx.log('layer B2: %r' % b2)
    b3, s3 = ({'real_builds': 0}, [])
    if 'B3' in want:
        b3, s3 = layer_b3(ctx)
        ctx.log('layer B3: %r' % {k: v for k, v in b3.items() if k != 'alphabet'})
    cov = {
        'states': b2['states'] + a['memo_states'],
        'transitions': b2['transitions'] + a['queries'],
        'traces_validated_against_impl': a['queries'] + b2['build_transitions_on_impl'] + b1_builds + b3['real_builds'],
        'layer_a': a, 'layer_b1': {'trees': len(trees), 'builds': b1_builds, 'distinct_outcomes': sorted(b1_outcomes)},
        'layer_b2': b2, 'layer_b3': b3, 'layer_c': c,
        'samples': samples + s3 + [{'layer_a': 'graph on 3 nodes 0->1, 1->2, 2->1; queries 1,2,0,1,2,0: closure after each'}],
        'exhaustive': not only,
    }
    return cov, ['a child forked from a warmed parent with cleared path caches behaves like a fresh cythonize process',
                 'the rebuild decision depends on mtimes only through their order (B2 canonical states; B3 runs real histories)',
                 'B2/B1-touch stub code generation: the decision is taken before cythonize_one runs']


def replay(ctx, case):
    _warm(ctx)
    layer = case.get('layer')
    if layer == 'A':
        return replay_a(case)
    if layer == 'B1':
        return replay_b1(ctx, case)
    if layer == 'B2':
        return replay_b2(ctx, case)
    if layer == 'B3':
        return replay_b3(ctx, case)
    if layer == 'C':
        return replay_c(ctx, case)
    return 'unknown case'
