"""C15 - indexing and slicing of builtin sequences match CPython.

Complete product, compiled vs CPython executing the identical pure-Python-mode source:

  operations   get, get-into-C-variable, set, set-invalid-value, augmented set, del,
               slice get / slice set / slice del
  index forms  literal constant | C short, int, unsigned char, unsigned int, Py_ssize_t, size_t, long long,
               unsigned long long parameter | Python object (int, bool, int subclass, __index__ object,
               wrong type)
  receivers    untyped parameter and parameter typed list / tuple / str / bytes / bytearray
  containers   list, tuple, str (ASCII, Latin-1, UCS-2, UCS-4), bytes, bytearray of EVERY length 0..8, None,
               and (untyped receiver only) deque, array, range, memoryview, dict with int keys, list/tuple
               subclasses, a Python-level sequence class
  indices      every integer in [-10, 10] plus 2^31, 2^32, 2^63, 2^64 boundaries +-1 (restricted to the
               range of the C type of the form so that argument conversion is not what is tested)
  slices       all (start, stop) pairs and all (start, stop, step) triples over
               {None, -10, -9, -3, -1, 0, 1, 2, 8, 9, 10, +-2^63, 2^63-1, 2^64} with step also in {-2, 2, 0},
               as Python objects, as C Py_ssize_t / int parameters, and as literal constants

Oracle: result type+repr, mutated container (the functions return it), exception type.
"""
import itertools, os
from vlib import e2, support
from props import _g5_common as g5
from props._g5_common import Prod

LEVEL = 'exploration'
ENGINE = 'E2 diffexplore'
TECHNIQUE = 'exhaustive product (operation x index form x receiver typing x container length 0..8 x index/slice alphabet), compiled vs CPython on identical source'
LEVEL_TEXT = ('Every combination of operation (get/set/del/augmented, slice get/set/del), index form (literal, 8 C integer '
              'types, Python object incl. __index__), receiver typing (untyped, list, tuple, str, bytes, bytearray) is '
              'compiled as its own function and run on every container of every length 0..8 (4 str kinds, subclasses, '
              'deque/array/range/dict/user sequence for untyped receivers) x every index in [-10,10] and at the 2^31/2^32/'
              '2^63/2^64 boundaries, resp. every slice pair/triple over the boundary set; result, mutated container and '
              'exception type must equal CPython running the same source.')
LEVEL_NOTE = ('Default directives only (boundscheck/wraparound on).  C-typed index parameters only receive values inside '
              'the C type range (argument conversion overflow is C05).  Storing an invalid byte value at an index beyond '
              'Py_ssize_t (two errors apply, CPython 3.12 reports IndexError, Cython ValueError) and reading an item into a '
              'C-typed variable from an untyped receiver are outside the property and not enumerated.  `del s[i]` on a parameter typed str/bytes with a C '
              'integer index is reported together with `s[i] = v` as one finding (compile-time failure instead of a '
              'run-time TypeError).  Quick tier uses container lengths {0,1,3,8} for the 3-element slice sweeps and a '
              'smaller literal-constant set; thorough uses every length 0..8.  Trusted: CPython 3.12 as reference, gcc.')

REACH = ['__Pyx_GetItemInt_Fast', '__Pyx_GetItemInt_List_Fast', '__Pyx_GetItemInt_Tuple_Fast', '__Pyx_GetItemInt_Unicode',
         '__Pyx_GetItemInt_Bytes', '__Pyx_GetItemInt_ByteArray', '__Pyx_SetItemInt_Fast', '__Pyx_SetItemInt_ByteArray',
         '__Pyx_DelItemInt_Fast', '__Pyx_PyObject_GetSlice', '__Pyx_PyObject_SetSlice', '__Pyx_PyUnicode_Substring',
         '__Pyx_PyList_GetSlice', '__Pyx_PyTuple_GetSlice', '__Pyx_PyObject_GetItem', '__Pyx_GetItemInt_Generic',
         '__Pyx_PyIndex_AsSsize_t', '__Pyx_GetItemInt_wraparound']

# ----------------------------------------------------------------------------- alphabets
LENGTHS = list(range(9))
_STR_HEADS = {'ascii': "'a'", 'latin1': 'chr(0xe9)', 'ucs2': 'chr(0x20ac)', 'ucs4': 'chr(0x1f600)'}


def containers(kind, lengths):
    out = []
    for n in lengths:
        if kind == 'list':
            out.append('list(range(10, %d))' % (10 + n))
        elif kind == 'tuple':
            out.append('tuple(range(10, %d))' % (10 + n))
        elif kind == 'bytes':
            out.append("b'a\\xffc\\x00efg\\x80'[:%d]" % n)
        elif kind == 'bytearray':
            out.append("bytearray(b'a\\xffc\\x00efg\\x80'[:%d])" % n)
        elif kind in _STR_HEADS:
            out.append("(%s + 'bcdefgh')[:%d]" % (_STR_HEADS[kind], n))
        elif kind == 'deque':
            out.append('deque(range(10, %d))' % (10 + n))
        elif kind == 'array':
            out.append("array('i', range(10, %d))" % (10 + n))
        elif kind == 'range':
            out.append('range(10, %d)' % (10 + n))
        elif kind == 'memoryview':
            out.append("memoryview(b'abcdefgh'[:%d])" % n)
        elif kind == 'ListSub':
            out.append('ListSub(range(10, %d))' % (10 + n))
        elif kind == 'TupleSub':
            out.append('TupleSub(range(10, %d))' % (10 + n))
        elif kind == 'SeqObj':
            out.append('SeqObj(range(10, %d))' % (10 + n))
        elif kind == 'dict':
            out.append('{k: k * 2 for k in range(%d, %d)}' % (-(n // 2), n - n // 2))
        else:
            raise ValueError(kind)
    return out


STR_KINDS = ['ascii', 'latin1', 'ucs2', 'ucs4']
BUILTIN_KINDS = ['list', 'tuple'] + STR_KINDS + ['bytes', 'bytearray']
EXTRA_KINDS = ['deque', 'array', 'range', 'memoryview', 'ListSub', 'TupleSub', 'SeqObj', 'dict']
RECV_KINDS = {'obj': BUILTIN_KINDS + EXTRA_KINDS, 'list': ['list'], 'tuple': ['tuple'], 'str': STR_KINDS,
              'bytes': ['bytes'], 'bytearray': ['bytearray']}
RECV_DECL = {'obj': 'x', 'list': 'x: list', 'tuple': 'x: tuple', 'str': 'x: str', 'bytes': 'x: bytes',
             'bytearray': 'x: bytearray'}
MUTABLE = ('obj', 'list', 'bytearray')


def recv_containers(recv, lengths, extra_lengths=(0, 1, 3, 8)):
    out = []
    for k in RECV_KINDS[recv]:
        out += containers(k, [n for n in lengths if k not in EXTRA_KINDS or n in extra_lengths])
    return out + ['None']


SMALL = list(range(-10, 11))
BIG = [2 ** 31 - 1, 2 ** 31, -2 ** 31, -2 ** 31 - 1, 2 ** 32 - 1, 2 ** 32, 2 ** 63 - 1, 2 ** 63, -2 ** 63 + 1, -2 ** 63,
       -2 ** 63 - 1, 2 ** 64 - 1, 2 ** 64, -2 ** 64]
CTYPES = {  # name -> (annotation, lo, hi)
    'short': ('cython.short', -2 ** 15, 2 ** 15 - 1),
    'int': ('cython.int', -2 ** 31, 2 ** 31 - 1),
    'uchar': ('cython.uchar', 0, 255),
    'uint': ('cython.uint', 0, 2 ** 32 - 1),
    'ssize_t': ('cython.Py_ssize_t', -2 ** 63, 2 ** 63 - 1),
    'size_t': ('cython.size_t', 0, 2 ** 64 - 1),
    'longlong': ('cython.longlong', -2 ** 63, 2 ** 63 - 1),
    'ulonglong': ('cython.ulonglong', 0, 2 ** 64 - 1),
}


def idx_for(ctype):
    _, lo, hi = CTYPES[ctype]
    vals = [v for v in SMALL + BIG + [lo, lo + 1, hi - 1, hi] if lo <= v <= hi]
    return [repr(v) for v in sorted(set(vals))]


OBJ_IDX = ([repr(v) for v in SMALL + BIG] + ['IndexOnly(%d)' % v for v in SMALL + BIG] +
           ['True', 'False', 'IntSub(1)', 'IntSub(-1)', 'IntSub(9)', 'IntSub(2**64)', 'None', '1.0', "'a'",
            "IndexOnly('x')", 'IndexOnly(1.0)', 'IntOnly(1)', 'slice(1, 3)', 'slice(None, None, -1)', '(0,)'])

SL_BOUNDS = [None, -10, -9, -3, -1, 0, 1, 2, 8, 9, 10, 2 ** 63, -2 ** 63, 2 ** 63 - 1, 2 ** 64]
SL_STEPS = SL_BOUNDS + [-2, 0]          # 2 is already in SL_BOUNDS
SL_OBJ_B = [repr(v) for v in SL_BOUNDS] + ['IndexOnly(1)', 'IndexOnly(-2)', 'IndexOnly(2**64)', '1.5', 'True']
SL_OBJ_S = [repr(v) for v in SL_STEPS] + ['IndexOnly(-1)', '1.5']
SL_C = {ct: [repr(v) for v in SL_BOUNDS if v is not None and CTYPES[ct][1] <= v <= CTYPES[ct][2]]
        for ct in ('ssize_t', 'int', 'size_t')}
SL_CONST_Q = [None, -9, -1, 0, 2, 9]
SL_CONST_T = [None, -10, -9, -3, -1, 0, 1, 2, 8, 9, 10]
SL_CONST_STEP = [None, -2, -1, 1, 2, 0]
CONST_IDX_Q = [-10, -9, -8, -4, -3, -2, -1, 0, 1, 2, 3, 7, 8, 9, 2 ** 31, 2 ** 63 - 1, 2 ** 63, -2 ** 63 - 1, 2 ** 64]
CONST_IDX_T = SMALL + BIG

def _fits_ssize(expr):
    v = eval(expr, g5.namespace())
    v = getattr(v, 'v', v)
    return not isinstance(v, int) or -2 ** 63 <= v < 2 ** 63


def _fits_ssize(expr):
    v = eval(expr, g5.namespace())
    v = getattr(v, 'v', v)
    return not isinstance(v, int) or -2 ** 63 <= v < 2 ** 63


OPS = {
    'get': '    return x[%s]',
    'getc': None,   # per receiver, see below
    'set': '    x[%s] = 77\n    return x',
    'setbad': '    x[%s] = 256\n    return x',
    'aug': '    x[%s] += 1\n    return x',
    'del': '    del x[%s]\n    return x',
    'two': '    return x[%s], x[%s]',      # the same index used twice (temps)
}
SLOPS = {
    'slget': '    return x[%s]',
    'slset': '    x[%s] = (55, 56)\n    return x',
    'sldel': '    del x[%s]\n    return x',
}


class Builder:
    def __init__(self):
        self.parts = []       # (Part, inputs_key)
        self.sets = {}
        self.n = 0

    def add(self, params, body, tag, inputs, setname):
        name = 'f%d' % self.n
        self.n += 1
        self.sets[setname] = inputs
        self.parts.append(e2.Part('def %s(%s):\n%s\n' % (name, params, body), [e2.Func(name, tag, setname)]))


def index_ops(recv):
    ops = ['get', 'two']
    if recv in MUTABLE:
        ops += ['set', 'setbad', 'aug', 'del']
    elif recv == 'tuple':
        ops += ['set', 'del']          # compiles, must raise TypeError
    if recv in ('str', 'bytes'):
        ops.append('getc')          # item read into a C variable (Py_UCS4 / unsigned char) and returned
    return ops


def op_body(op, recv, idx):
    if op == 'getc':
        ct = {'str': 'cython.Py_UCS4', 'bytes': 'cython.uchar'}[recv]
        return '    c: %s = x[%s]\n    return c' % (ct, idx)
    if op == 'two':
        return OPS[op] % (idx, idx)
    return OPS[op] % idx


def build_family(tier):
    quick = tier == 'quick'
    b = Builder()
    conts = {r: recv_containers(r, LENGTHS) for r in RECV_DECL}
    sl_lengths = [0, 1, 3, 8] if quick else LENGTHS
    conts_sl = {r: recv_containers(r, sl_lengths, extra_lengths=(0, 3)) for r in RECV_DECL}
    for recv, decl in RECV_DECL.items():
        for op in index_ops(recv):
            # C-typed index parameter
            for ct, (ann, lo, hi) in CTYPES.items():
                if quick and ct in ('short', 'uchar', 'ulonglong'):
                    continue
                idx, sfx = idx_for(ct), ''
                if op == 'setbad':
                    # invalid value AND an index beyond Py_ssize_t: which of the two errors wins is not fixed
                    idx, sfx = [e for e in idx if _fits_ssize(e)], '_ss'
                b.add('%s, i: %s' % (decl, ann), op_body(op, recv, 'i'), '%s/%s/%s' % (op, ct, recv),
                      Prod(conts[recv], idx), 'i_%s_%s%s' % (recv, ct, sfx))
            # object index
            if op == 'getc':
                continue            # a slice/None index makes the C-typed variable reject what Python accepts
            idx, sfx = OBJ_IDX, ''
            if op == 'setbad':
                idx, sfx = [e for e in OBJ_IDX if _fits_ssize(e)], '_ss'
            b.add('%s, i' % decl, op_body(op, recv, 'i'), '%s/pyobj/%s' % (op, recv), Prod(conts[recv], idx),
                  'i_%s_obj%s' % (recv, sfx))
            # literal constant index
            for c in (CONST_IDX_Q if quick else CONST_IDX_T):
                if op in ('two', 'setbad') and (quick or abs(c) > 10):
                    continue
                b.add(decl, op_body(op, recv, repr(c)), '%s/const[%d]/%s' % (op, c, recv),
                      Prod(conts[recv]), 'c_%s' % recv)
    # ---- slices
    for recv, decl in RECV_DECL.items():
        ops = ['slget'] + (['slset', 'sldel'] if recv in MUTABLE else [])
        if recv == 'tuple':
            ops += ['slset']
        for op in ops:
            body = SLOPS[op]
            # object bounds
            b.add('%s, a, b' % decl, body % 'a:b', '%s/obj2/%s' % (op, recv), Prod(conts[recv], SL_OBJ_B, SL_OBJ_B),
                  's2_%s' % recv)
            b.add('%s, a, b, c' % decl, body % 'a:b:c', '%s/obj3/%s' % (op, recv),
                  Prod(conts_sl[recv], SL_OBJ_B, SL_OBJ_B, SL_OBJ_S), 's3_%s' % recv)
            b.add('%s, a' % decl, body % 'a:', '%s/obj_lo/%s' % (op, recv), Prod(conts[recv], SL_OBJ_B), 's1_%s' % recv)
            b.add('%s, a' % decl, body % ':a', '%s/obj_hi/%s' % (op, recv), Prod(conts[recv], SL_OBJ_B), 's1_%s' % recv)
            b.add('%s, a' % decl, body % '::a', '%s/obj_step/%s' % (op, recv), Prod(conts[recv], SL_OBJ_S), 's1s_%s' % recv)
            # C-typed bounds
            for ct in ('ssize_t', 'int', 'size_t'):
                if quick and ct == 'size_t' and op != 'slget':
                    continue
                ann = CTYPES[ct][0]
                b.add('%s, a: %s, b: %s' % (decl, ann, ann), body % 'a:b', '%s/%s2/%s' % (op, ct, recv),
                      Prod(conts[recv], SL_C[ct], SL_C[ct]), 'sc2_%s_%s' % (recv, ct))
                b.add('%s, a: %s' % (decl, ann), body % 'a:', '%s/%s_lo/%s' % (op, ct, recv),
                      Prod(conts[recv], SL_C[ct]), 'sc1_%s_%s' % (recv, ct))
                b.add('%s, a: %s' % (decl, ann), body % ':a', '%s/%s_hi/%s' % (op, ct, recv),
                      Prod(conts[recv], SL_C[ct]), 'sc1_%s_%s' % (recv, ct))
                b.add('%s, a: %s, b' % (decl, ann), body % 'a:b', '%s/%s+obj/%s' % (op, ct, recv),
                      Prod(conts[recv], SL_C[ct], SL_OBJ_B), 'scm_%s_%s' % (recv, ct))
                b.add('%s, a, b: %s' % (decl, ann), body % 'a:b', '%s/obj+%s/%s' % (op, ct, recv),
                      Prod(conts[recv], SL_OBJ_B, SL_C[ct]), 'smc_%s_%s' % (recv, ct))
            # literal bounds
            cs = SL_CONST_Q if quick else SL_CONST_T
            for a, c in itertools.product(cs, cs):
                sl = '%s:%s' % ('' if a is None else a, '' if c is None else c)
                b.add(decl, body % sl, '%s/const[%s]/%s' % (op, sl, recv), Prod(conts[recv]), 'c_%s' % recv)
            if op == 'slget' or not quick:
                small = [None, -1, 0, 2, 9]
                for a, c, s in itertools.product(small, small, SL_CONST_STEP):
                    if s is None:
                        continue
                    sl = '%s:%s:%s' % ('' if a is None else a, '' if c is None else c, s)
                    b.add(decl, body % sl, '%s/const[%s]/%s' % (op, sl, recv), Prod(conts[recv]), 'c_%s' % recv)
    return b


def immutable_target_family():
    """`s[i] = v`, `s[i] += v`, `del s[i]` with s typed str/bytes and a C integer / literal index: CPython raises
    TypeError at run time.  One function per module (these are expected to be able to fail the build)."""
    b = Builder()
    conts = {r: recv_containers(r, [0, 1, 3]) for r in ('str', 'bytes')}
    for recv in ('str', 'bytes'):
        for op in ('set', 'aug', 'del'):
            for form, params, idx in (('int', '%s, i: cython.int', 'i'), ('ssize_t', '%s, i: cython.Py_ssize_t', 'i'),
                                      ('const[0]', '%s', '0'), ('const[-1]', '%s', '-1')):
                ins = Prod(conts[recv], ['-1', '0', '1', '5']) if 'const' not in form else Prod(conts[recv])
                b.add(params % RECV_DECL[recv], op_body(op, recv, idx), 'immutable-item-target/%s/%s/%s' % (op, form, recv),
                      ins, 'im_%s_%s' % (recv, 'c' if 'const' in form else 'i'))
    return b


# ----------------------------------------------------------------------------- key normalisation
def _idx_class(expr, n):
    try:
        v = eval(expr, g5.namespace())
    except Exception:
        return 'expr'
    if v is None:
        return 'None'
    if type(v) in (int, bool, support.IntSub) or isinstance(v, support.IndexOnly):
        t = '' if type(v) is int else type(v).__name__ + ':'
        if isinstance(v, support.IndexOnly):
            v = v.v
        if not isinstance(v, int):
            return t + 'nonint'
        if abs(v) >= 2 ** 63 - 1:
            return t + ('huge+' if v > 0 else 'huge-')
        if abs(v) >= 2 ** 31 - 1:
            return t + ('big+' if v > 0 else 'big-')
        if n is None:
            return t + ('neg' if v < 0 else 'nonneg')
        if v < -n:
            return t + 'neg-out'
        if v < 0:
            return t + 'neg-in'
        if v < n:
            return t + 'in'
        return t + 'out'
    return type(v).__name__


_OPFAM = {'get': 'get', 'getc': 'get', 'two': 'get', 'set': 'set', 'setbad': 'set', 'aug': 'set', 'del': 'del'}
_NONEXACT = ('range', 'memoryview', 'ListSub', 'TupleSub', 'deque', 'array')
_CINT = r'ulonglong|longlong|ssize_t|size_t|short|uchar|uint|int'


def keyfn(tag, inp, exp, got):
    """Root key: operation family / index form class (all C integer types collapsed; for slices obj | cint |
    mixed | const) / receiver typing class | container type class (untyped receivers only; str kind only for
    value divergences) | index classes relative to the container length (slices: the set of magnitude classes)
    | divergence class."""
    import re
    div = e2.divclass(exp, got)
    try:
        cv = eval(inp[0], g5.namespace())
        ctype = type(cv).__name__
        if isinstance(cv, str) and cv and div in ('value', 'crash') :
            ctype += ':' + ('ascii' if ord(max(cv)) < 128 else 'latin1' if ord(max(cv)) < 256 else
                            'ucs2' if ord(max(cv)) < 65536 else 'ucs4')
        if ctype in _NONEXACT:
            ctype = 'nonexact-seq'
        n = len(cv)
    except Exception:
        ctype, n = 'expr', None
    m = re.search(r'const\[(.*?)\]', tag)
    idx = list(inp[1:])
    if m:
        tag = tag.replace(m.group(0), 'const')
        idx = [p if p else 'None' for p in m.group(1).split(':')]
    op, form, recv = tag.split('/')
    classes = [_idx_class(e, n).split(':')[-1] for e in idx]
    if op.startswith('sl'):
        has_c = re.search(_CINT, form) is not None
        form = 'const' if form == 'const' else 'mixed' if (has_c and 'obj' in form) else 'cint' if has_c else 'obj'
        mag = {'in': 'small', 'out': 'small', 'neg-in': 'small', 'neg-out': 'small', 'neg': 'small', 'nonneg': 'small',
               'big+': 'big', 'big-': 'big'}
        classes = sorted(set(mag.get(c, c) for c in classes))
        if re.search(r'(?<!s)size_t|ulonglong', tag.split('/')[1]) and not div.endswith('OverflowError'):
            # an UNSIGNED C bound above PY_SSIZE_T_MAX is cast to a negative Py_ssize_t: its own class, distinct from the
            # signed-limit class below (which is where an out-of-bounds regression of the slice cropping would show)
            try:
                vals = [eval(e, g5.namespace()) for e in idx]
            except Exception:
                vals = []
            if any(type(v) is int and v > 2 ** 63 - 1 for v in vals):
                return '%s/%s|unsigned-bound-above-ssize_t-max|wrong-slice' % (op, 'typed' if recv != 'obj' else 'obj')
        if any(c.startswith('huge') for c in classes) and (recv != 'obj' or has_c):
            # a bound at/beyond the Py_ssize_t limits (typed receiver, or a C-typed bound on any receiver): the index
            # form, the container and the other bound do not matter; "got OverflowError" and "anything else" (wrong
            # value, MemoryError, crash: reads outside the object are not deterministic) are the two divergence classes
            d = 'OverflowError' if div.endswith('OverflowError') else 'wrong-result-or-crash'
            return '%s/%s|bound-at-ssize_t-limit|%s' % (op, 'typed' if recv != 'obj' else 'obj', d)
        if recv != 'obj':
            recv, ctype = 'typed', (ctype if ':' in ctype else '-')
    else:
        form = re.sub(_CINT, 'cint', form)
        if recv != 'obj':
            ctype = ctype if ':' in ctype else '-'
    return '%s/%s/%s|%s|%s|%s' % (_OPFAM.get(op, op), form, recv, ctype, ','.join(classes), div)


def build_key(m, r):
    tags = [f.tag for f in m.funcs]
    t = tags[0] if tags else m.name
    if t.startswith('immutable-item-target/'):
        return 'build-failure|immutable-item-target'
    import re
    return 'build-failure|%s|%s' % (r.stage, re.sub(r'const\[.*?\]', 'const', t))


def make_mods(b, prefix, per=120, **kw):
    prelude = 'import cython\n'
    mods = []
    parts = b.parts
    for i in range(0, len(parts), per):
        mods.append(e2.Mod('%s_%d' % (prefix, i // per), prelude, parts[i:i + per], b.sets, ext='.py', **kw))
    return mods


def run(ctx):
    b = build_family(ctx.tier)
    im = immutable_target_family()
    flt = os.environ.get('VERIF_G5_FILTER')          # development aid only: restrict to tags containing the text
    if flt:
        b.parts = [p for p in b.parts if flt in p.funcs[0].tag]
        im.parts = [p for p in im.parts if flt in p.funcs[0].tag]
        ctx.note_filter = flt
    mods = make_mods(b, 'c15') + make_mods(im, 'c15im', per=1)
    ctx.log('%d functions in %d modules' % (b.n + im.n, len(mods)))
    st = g5.run_diff(ctx, mods, keyfn=keyfn, reach=REACH, build_key=build_key, groups_per_mod=6,
                     max_crash_reports=150)
    samples = [{'function': b.parts[0].src, 'inputs': [b.sets[b.parts[0].funcs[0].inputs].axes[0][3], '-4']},
               {'function': b.parts[len(b.parts) // 2].src, 'tag': b.parts[len(b.parts) // 2].funcs[0].tag},
               {'function': b.parts[-1].src, 'tag': b.parts[-1].funcs[0].tag}]
    cov = g5.cov_from(st, 'complete product (operation, index form, receiver typing) x (container, index/slice) alphabet; a case '
                      'is counted once per distinct (function, reference outcome) pair', samples,
                      {'container_lengths': LENGTHS, 'index_values': len(SMALL + BIG), 'slice_bounds': len(SL_OBJ_B),
                       'slice_steps': len(SL_OBJ_S)})
    return cov, ['default directives only; C-typed parameters only receive in-range values',
                 'indices outside [-10,10] are covered only at the listed 2^31/2^32/2^63/2^64 boundaries']


def replay(ctx, case):
    return g5.replay(ctx, case)
