"""C03 - C-integer // and % follow Python semantics (cdivision off) resp. C truncation (cdivision on).

Complete product: (operand type pair | type x constant divisor) x {//, %, //=, %=} x cdivision {off, on} is
compiled as one sweep function each (.pyx, the loop over operand tuples runs in compiled code); every function
is run on the COMPLETE operand alphabet of its types - all 256 x 256 pairs for 8-bit types, all pairs of the
boundary grid for 16/32/64-bit types - and every outcome is judged by a Python model: result type T by
Cython's promotion rule, then floor quotient / remainder with the divisor's sign (cdivision off), truncation
and C remainder (cdivision on), ZeroDivisionError for a zero divisor (cdivision off).
Pairs the property does not speak about are removed from the alphabet before running: MIN_T // -1 (result does
not fit T: C04/C36), a zero divisor or MIN_T % -1 under cdivision on (C undefined behaviour).  Pairs where an
operand does not fit the type the division is executed in (mixed signedness: the operand is converted first, so
the mathematical result of the original operands is not what the C code computes) are run - they must not crash -
but their value is not judged.  That type is Cython's result type T when the __Pyx_div/__Pyx_mod helpers are used
and the C "usual arithmetic conversions" type when Cython emits the raw infix operator (cdivision on, unsigned T).
"""
import re
from vlib import farm
from props import _g3_cint as g

LEVEL = 'exploration'
ENGINE = 'E2 diffexplore'
TECHNIQUE = 'exhaustive (type pair x form x divisor kind x cdivision) x complete operand alphabet, compiled sweep vs Python model of promotion + floor/trunc semantics'
LEVEL_TEXT = ('Every combination of operand types (13 integer C types, homogeneous and mixed-signedness pairs), form '
              '(a // b, a % b, a //= b, a %= b), divisor kind (variable, integer literal, typed constant <T>c incl. 0, '
              '+-1, MIN, MAX) and cdivision setting is compiled and run on the complete operand alphabet: all 65536 '
              'pairs for 8-bit types, all pairs of a 40-60 value boundary grid per 16/32/64-bit type.  Each result is '
              'compared with a Python model (promotion to the result type, floor resp. truncation semantics, '
              'ZeroDivisionError); a killed process is attributed to the exact operand pair.')
LEVEL_NOTE = ('16/32/64-bit operands are boundary grids, not all pairs.  Removed from the alphabet (outside the statement): '
              'MIN // -1, and under cdivision=True a zero divisor and MIN % -1 (C undefined behaviour).  Values computed from '
              'operands that do not fit the type the division is executed in (Cython result type, resp. the C usual-arithmetic-'
              'conversion type for raw infix code) are not judged.  In-place results that do not fit the target variable '
              '(narrowing) are not judged.  Quick tier: reduced literal set, in-place forms only for homogeneous pairs.  '
              'Trusted: the 60-line model, gcc, LP64 type widths.')

JUDGE = 'props.C03_cint_divmod:judge'
KEEP = 'props.C03_cint_divmod:keep'

HOMOG = ['schar', 'char', 'uchar', 'short', 'ushort', 'int', 'uint', 'long', 'ulong', 'ssize_t', 'size_t', 'longlong',
         'ulonglong']
MIXED = [('schar', 'uchar'), ('uchar', 'schar'), ('short', 'ushort'), ('ushort', 'short'), ('int', 'uint'),
         ('uint', 'int'), ('long', 'ulong'), ('ulong', 'long'), ('longlong', 'ulonglong'), ('ulonglong', 'longlong'),
         ('long', 'size_t'), ('size_t', 'long'), ('int', 'long'), ('long', 'int'), ('schar', 'int'), ('int', 'schar'),
         ('uint', 'long'), ('long', 'uint'), ('short', 'int'), ('uchar', 'long'), ('longlong', 'ulong'),
         ('ssize_t', 'ulong'), ('ssize_t', 'int'), ('longlong', 'int'), ('int', 'longlong'), ('ushort', 'uint'),
         ('uchar', 'ulonglong')]
LITS = ['1', '-1', '2', '-2', '3', '-3', '7', '-7', '0', '127', '-128', '255', '32767', '-32768', '65535',
        '2147483647', '-2147483648', '3U', '4294967295U', '9223372036854775807LL', '-9223372036854775807LL',
        '18446744073709551615ULL']
LITS_Q = ['1', '-1', '2', '-3', '7', '0', '-128', '2147483647', '-2147483648', '3U', '9223372036854775807LL',
          '18446744073709551615ULL']
OPS = [('//', 'div'), ('%', 'mod')]


def ctext(v):
    if -2**31 <= v < 2**31:
        return str(v)
    if v == -2**63:
        return '(-9223372036854775807LL - 1)'
    if v < 2**63:
        return '%dLL' % v
    return '%dULL' % v


def types_of(tag):
    """(type of a, Cython result type T, type the C division is executed in, constant divisor or None).

    With cdivision on, or an unsigned T, Cython emits the raw infix `a / b`: gcc then applies the C usual arithmetic
    conversions, which differ from Cython's T for e.g. long long x unsigned long; otherwise the operands are
    passed to __Pyx_div_T / __Pyx_mod_T and so converted to T."""
    ta = g.TYPES[tag['ta']]
    if tag['form'] in ('var', 'ip'):
        tb = tcb = g.TYPES[tag['tb']]
        b = None
    elif tag['form'] == 'lit':
        tb = g.literal_type(tag['const'])
        tcb = g.c_literal_type(tag['const'])
        b = g.literal_value(tag['const'])
    else:
        tb = tcb = ta
        b = tag['cval']
    T = g.promote(ta, tb)
    raw = tag['cdiv'] or not T.signed
    return ta, T, (g.c_common(ta, tcb) if raw else T), b


def keep(tag, t):
    """Alphabet restriction (see module docstring); decided on the operands as converted to the type the C
    division is executed in."""
    ta, T, X, b = types_of(tag)
    a = X.wrap(t[0])
    b = X.wrap(t[1] if b is None else b)
    if b == 0:
        return not tag['cdiv']
    if X.signed and a == X.lo and b == -1:
        return tag['op'] == '%' and not tag['cdiv']
    return True


def judge(tag, tuples, got):
    v = g.Verdict()
    ta, T, X, bc = types_of(tag)
    op, cdiv, ip = tag['op'], tag['cdiv'], tag['form'] == 'ip'
    ident = tag['id']
    for t, r in zip(tuples, got):
        a = t[0]
        b = t[1] if bc is None else bc
        v.evals += 1
        if not (T.fits(a) and T.fits(b) and X.fits(a) and X.fits(b)):
            v.count('operand_converted_not_judged')
            if isinstance(r, str) and not (r == 'ZeroDivisionError' and b == 0):
                v.bad(t, 'a value', r, 'extra-exc:' + r)
            continue
        if b == 0:
            exp = 'ZeroDivisionError'
        elif a == T.lo and b == -1 and T.signed:
            exp = 0
        elif cdiv:
            exp = g.cdiv(a, b) if op == '//' else g.cmod(a, b)
        else:
            exp = a // b if op == '//' else a % b
        if not isinstance(exp, str):
            if not T.fits(exp):
                v.count('result_outside_T_not_judged')
                continue
            if ip and not ta.fits(exp):
                v.count('inplace_narrowing_not_judged')
                continue
            if not cdiv and exp != (g.cdiv(a, b) if op == '//' else g.cmod(a, b)):
                v.count('floor_differs_from_trunc')
        v.outcomes.add(hash((ident, exp)))
        if r != exp or type(r) is not type(exp):
            if isinstance(exp, str):
                div = 'missing-exc:' + exp if not isinstance(r, str) else 'exc-type:%s->%s' % (exp, r)
            elif isinstance(r, str):
                div = 'extra-exc:' + r
            else:
                div = 'value'
            v.bad(t, exp, r, div)
    return v.pack()


def _classes(tag, inp, crash=False):
    ta, T, X, bc = types_of(tag)
    a = X.wrap(inp[0])
    b = X.wrap(inp[1] if bc is None else bc)
    kind = 'var' if tag['form'] in ('var', 'ip') else tag['form']
    ca, cb = g.vclass(a, X), g.vclass(b, X)
    if crash:
        # a killed process is a property of the emitted division itself: the helper templates are shared by all
        # result types, and for a zero divisor the dividend is irrelevant (but the divisor kind is not)
        if b == 0:
            return '%s|%s|cdiv%d|a:any,b:0' % (tag['op'], kind, tag['cdiv'])
        return '%s|*|cdiv%d|a:%s,b:%s' % (tag['op'], tag['cdiv'], ca, cb)
    return '%s|%s|cdiv%d|T=%s|a:%s,b:%s' % (tag['op'], kind, tag['cdiv'], X.decl, ca, cb)


def keyfn(tag, inp, exp, got, div):
    return '%s|%s' % (_classes(tag, inp), div)


def crashfn(tag, inp):
    return '%s|crash' % _classes(tag, inp, crash=True)


def functions(tier, cdiv):
    fns = []

    def add(tag, decls, stmts, result, types):
        name = 'f%d' % len(fns)
        tag = dict(tag, cdiv=cdiv)
        tag['id'] = '%s/%s/%s%s/cdiv%d' % (tag['form'], tag['op'], tag['ta'],
                                           '.' + (tag.get('tb') or tag.get('const') or str(tag.get('cval'))), cdiv)
        # a constant zero divisor gives the same outcome for every dividend: reduced dividend grid
        zero = tag.get('const') == '0' or tag.get('cval') == 0
        gen = {'types': types, 'keep': KEEP, 'arg': tag, 'small': zero, 'dense': tier == 'thorough' and not zero}
        fns.append(g.Fn(name, g.sweep_func(name, decls, stmts, result), tag, gen))

    pairs = [(k, k) for k in HOMOG] + MIXED
    for ka, kb in pairs:
        ta, tb = g.TYPES[ka], g.TYPES[kb]
        decls = [('a', ta.decl), ('b', tb.decl)]
        for op, _ in OPS:
            add({'form': 'var', 'op': op, 'ta': ka, 'tb': kb}, decls, [], 'a %s b' % op, [ka, kb])
            if ka == kb or tier == 'thorough':
                add({'form': 'ip', 'op': op, 'ta': ka, 'tb': kb}, decls, ['a %s= b' % op], 'a', [ka, kb])
    for ka in g.TEN + ['ssize_t']:
        ta = g.TYPES[ka]
        decls = [('a', ta.decl)]
        for op, _ in OPS:
            for c in (LITS if tier == 'thorough' else LITS_Q):
                if cdiv and c == '0':
                    continue
                add({'form': 'lit', 'op': op, 'ta': ka, 'const': c}, decls, [], 'a %s %s' % (op, c), [ka])
            cvals = [0, 1, 2, 3, 7, ta.hi, ta.hi - 1]
            if ta.signed:
                cvals += [-1, -2, -3, -7, ta.lo, ta.lo + 1]
            for cv in cvals:
                if cdiv and cv == 0:
                    continue
                add({'form': 'cast', 'op': op, 'ta': ka, 'cval': cv}, decls, [],
                    'a %s <%s>(%s)' % (op, ta.decl, ctext(cv)), [ka])
    return fns


def run(ctx):
    mods = []
    for cdiv in (0, 1):
        fns = functions(ctx.tier, cdiv)
        mods += g.pack('c03cd%d' % cdiv, fns, 60, directives={'cdivision': bool(cdiv)}, cfg='cdivision=%d' % cdiv)
    built = g.build(ctx, mods, ctx.workdir('c03'))
    ctx.log('built %d/%d modules' % (len(built), len(mods)))
    # reach: helpers instantiated, and both b_is_constant specialisations called
    reach = g.reach(built, ['__Pyx_div_int(', '__Pyx_mod_int(', '__Pyx_div_long(', '__Pyx_mod_long(',
                            '__Pyx_div_PY_LONG_LONG(', '__Pyx_mod_PY_LONG_LONG(', '__Pyx_div_Py_ssize_t(',
                            '__Pyx_mod_Py_ssize_t(', 'integer division or modulo by zero'])
    const_calls = {0: 0, 1: 0}
    for m in built:
        txt = open(m.c_file, encoding='utf-8', errors='replace').read()
        for mm in re.finditer(r'__Pyx_(?:div|mod)_\w+\([^;\n]*, ([01])\)\)?;', txt):
            const_calls[int(mm.group(1))] += 1
    reach['calls b_is_constant=0'] = const_calls[0]
    reach['calls b_is_constant=1'] = const_calls[1]
    gaps = sorted(k for k, n in reach.items() if not n)
    for k in gaps:
        ctx.log('WARN reach gap: %s' % k)
    st = g.run_sweeps(ctx, built, JUDGE, keyfn, crashfn, slice_size=8192)
    allf = [f for m in mods for f in m.fns]
    cov = {
        'evaluations': st['evaluations'], 'distinct_nontrivial': st['distinct_outcomes'],
        'rule': 'complete product (type pair|constant, form, cdivision) x operand alphabet; counted once per distinct '
                '(function, expected outcome) pair, i.e. operand pairs with the same expected result for the same '
                'function collapse',
        'programs': st['functions'], 'modules_built': st['modules_built'], 'mismatches': st['mismatches'],
        'crashes': st['crashes'], 'counters': st['counters'], 'crash_refinement_rounds': st['crash_refinement_rounds'],
        'reach': reach, 'reach_gaps': gaps, 'configs': ['cdivision=False', 'cdivision=True'],
        'alphabet_sizes': {k: len(g.alphabet(k)) for k in HOMOG},
        'samples': [{'function': allf[0].src, 'operands': [-128, -1]},
                    {'function': allf[len(allf) // 3].src, 'operands': list(g.expand(allf[len(allf) // 3].gen)[5])},
                    {'function': allf[-1].src, 'operands': list(g.expand(allf[-1].gen)[3])}],
        'exhaustive': not st['storm_skipped'], 'crash_storms': st['storms'],
        'not_run_after_crash_storm': st['storm_skipped'], 'refinement_forks': st['refinement_forks'],
    }
    if st['storm_skipped']:
        cov['cap'] = ('crash storm: after %d crashes with one normalised key in a slice (%d in the run) the rest of that slice '
                      'is not run' % (g.STORM_PER_SLICE, g.STORM_PER_KEY))
    return cov, ['16/32/64-bit operand values outside the boundary grids are not covered',
                 'the Python model of promotion and floor/trunc semantics is trusted']


def replay(ctx, case):
    return g.replay(ctx, case)
