"""Operand classes for the conversion check C05 (group g3)."""


class Both:
    """Integer-like object the way NumPy scalars are: __index__ and __int__ agree."""
    def __init__(self, v): self.v = v
    def __index__(self): return self.v
    def __int__(self): return self.v
    def __repr__(self): return 'Both(%r)' % (self.v,)


class Neither:
    """No integer protocol at all."""
    def __repr__(self): return 'Neither()'


class RaisesIndex:
    """__index__/__int__ raise a user exception, which must propagate unchanged."""
    def __index__(self): raise KeyError('index')
    def __int__(self): raise KeyError('index')
    def __repr__(self): return 'RaisesIndex()'
