"""g11 helper: the Python model of the typed (.pyx) C36 programs (kept import-light: it is loaded in every
sanitizer child).  model(tag, *args) returns / raises the expected outcome; SkipOutcome means that only the
sanitizer / crash oracle applies to the case."""
import collections
from vlib import support

# C type table (LP64)
CT = collections.OrderedDict([
    ('schar', ('signed char', 8, True)), ('short', ('short', 16, True)), ('int', ('int', 32, True)),
    ('long', ('long', 64, True)), ('longlong', ('long long', 64, True)), ('ssize_t', ('Py_ssize_t', 64, True)),
    ('uchar', ('unsigned char', 8, False)), ('ushort', ('unsigned short', 16, False)), ('uint', ('unsigned int', 32, False)),
    ('ulong', ('unsigned long', 64, False)), ('ulonglong', ('unsigned long long', 64, False)), ('size_t', ('size_t', 64, False)),
])


def bounds(t):
    _, bits, signed = CT[t]
    return (-(1 << (bits - 1)), (1 << (bits - 1)) - 1) if signed else (0, (1 << bits) - 1)


class SkipOutcome(Exception):
    """Raised by the model when only the sanitizer/crash oracle applies to a case."""


def _as_int(x):
    if type(x) in (int, bool) or isinstance(x, int):
        return int(x)
    if isinstance(x, support.IndexOnly):
        v = x.v
        if type(v) is int:
            return v
    raise SkipOutcome()


def model(tag, *args):
    """Expected outcome of the typed (.pyx) programs.  tag = 'family:op:type[:extra]'."""
    p = tag.split(':')
    fam, op = p[0], p[1]
    if fam == 'conv':
        lo, hi = bounds(p[2])
        v = _as_int(args[0])
        if not lo <= v <= hi:
            raise OverflowError(v)
        return v
    if fam == 'cdiv':
        lo, hi = bounds(p[2])
        a, b = args
        if b == 0:
            raise ZeroDivisionError()
        r = a // b if op == 'fdiv' else a % b
        if not lo <= r <= hi:
            if CT[p[2]][1] >= 32:
                raise OverflowError(r)
            raise SkipOutcome()          # operands are promoted to int: the quotient wraps on narrowing (C semantics)
        return r
    if fam == 'cshift':
        a, n = args
        return a << n if op == 'shl' else a >> n
    if fam == 'fmt':
        v = args[0]
        return [format(v, s) for s in FMT_SPECS] + ['%d' % v, '%5d|%-5d|%05d' % (v, v, v), str(v), '%x %o %X' % (v, v, v)
                                                     if v >= 0 else 'neg']
    if fam == 'idx':
        x, i = args[0], args[1]
        nidx = {'get': 1, 'set': 1, 'del': 1, 'slice': 2}[op]
        for k in args[1:1 + nidx]:
            if not -2 ** 63 <= k < 2 ** 63:
                raise OverflowError(k)
        if op == 'get':
            return x[i]
        if op == 'set':
            x[i] = args[2]
            return x
        if op == 'del':
            del x[i]
            return x
        if op == 'slice':
            return x[i:args[2]]
    if fam == 'mview':
        for k in args[1:]:
            if type(k) is int and not -2 ** 63 <= k < 2 ** 63:
                raise OverflowError(k)
        m = args[0]
        if op == 'get1':
            return bytes(m)[args[1]]
        if op == 'set1':
            b = bytearray(bytes(m))
            b[args[1]] = args[2]
            return bytes(b)
        if op == 'sliceget':
            return bytes(m)[args[1]:args[2]][args[3]]
        if op == 'stepget':
            b = bytes(m)
            return [b[::2][args[1]], b[::-1][args[1]]]
        if op == 'slicelen':
            b = bytes(m)[args[1]:args[2]]
            return (len(b), b)
        if op == 'get2':
            rows = m.tolist()
            return rows[args[1]][args[2]]
        if op == 'set2':
            rows = m.tolist()
            rows[args[1]][args[2]] = args[3]
            return rows
    if fam == 'mvslice':
        # op = which bounds are present, e.g. 'abc', 'a_c', '_bc', '__c', 'ab_', 'a__', '_b_'; p[2] = literal step or ''
        m = args[0]
        it = iter(args[1:])
        a = next(it) if op[0] == 'a' else None
        b = next(it) if op[1] == 'b' else None
        c = next(it) if op[2] == 'c' else (int(p[2]) if len(p) > 2 and p[2] else None)
        if c == 0:
            raise ValueError('step')
        vals = list(m.tolist() if isinstance(m, memoryview) else m)
        r = vals[a:b:c]
        return (len(r), r)
    if fam == 'mvslice2':
        # 2-D: one axis sliced with run-time a:b:c, the other axis by the fixed form in p[2]
        m, a, b, c = args[:4]
        if c == 0:
            raise ValueError('step')
        rows = m.tolist()
        other = {'all': slice(None), 'rev': slice(None, None, -1)}.get(p[2])
        if op == 'ax0':
            sel = rows[a:b:c]
            return [r[other] if other is not None else r[args[4]] for r in sel]
        sel = rows[other]
        return [r[a:b:c] for r in sel]
    raise RuntimeError('no model for %s' % tag)


FMT_SPECS = ['', 'd', '5', '>25', 'x', 'o', 'X', '08d', '030', '<7d', '+d', '#x']

