"""Shared harness helpers of group g6 (never imported by generated test programs)."""
from vlib import e2


class _Quiet:
    def __init__(self, ctx):
        self.scratch = ctx.scratch
        self._ctx = ctx

    def workdir(self, name):
        return self._ctx.workdir(name)

    def log(self, msg):
        pass


class ConfirmCtx:
    """ctx stand-in handed to e2.run_diff: a crash / timeout of compiled code is only reported after it was reproduced
    by replaying exactly that evaluation (module rebuilt, fresh child); value mismatches pass through unchanged.

    A crash that does not reproduce in `attempts` replays is recorded in `unreproduced` (goes to the evidence) and does not
    affect the exit status: on a shared, overloaded machine children occasionally die for reasons unrelated to the code
    under test, and DESIGN 2.3 only promotes crash-class outcomes that recur.  The first reproduced crash of a key confirms
    the key; later crashes with the same key are passed on without another replay (they are only counted anyway)."""

    def __init__(self, ctx, keyfn, attempts=2):
        self._ctx = ctx
        self.scratch = ctx.scratch
        self._keyfn = keyfn
        self.attempts = attempts
        self.confirmed = set()
        self.tried = {}
        self.unreproduced = []

    def workdir(self, name):
        return self._ctx.workdir(name)

    def log(self, msg):
        self._ctx.log(msg)

    def _is_crash(self, case):
        got = case.get('got') if isinstance(case, dict) else None
        return bool(case.get('kind') == 'e2' and got and got[0] == 'crash')

    def confirm(self, key, case):
        """True if the crash in `case` is (or already was, for this key) reproduced."""
        if key in self.confirmed:
            return True
        if self.tried.get(key, 0) >= 3 * self.attempts:
            return False
        for _ in range(self.attempts):
            self.tried[key] = self.tried.get(key, 0) + 1
            try:
                r = e2.replay(_Quiet(self._ctx), case)
            except Exception as e:      # a harness problem must not hide a crash
                r = 'replay failed: %r' % (e,)
            if r:
                self.confirmed.add(key)
                return True
        return False

    def violation(self, key, what, case):
        if self._is_crash(case) and not self.confirm(key, case):
            if len(self.unreproduced) < 20:
                self.unreproduced.append({'key': key, 'what': str(what)[:300]})
            self._ctx.log('crash not reproduced in %d replays (not reported): %s' % (self.attempts, str(what)[:160]))
            return False
        return self._ctx.violation(key, what, case)
