"""Shared harness helpers of group g6 (never imported by generated test programs)."""
from vlib import e2


class _Quiet:
    def __init__(self, ctx):
        self.scratch = ctx.scratch
        self._ctx = ctx

    def workdir(self, name):
        return self._ctx.workdir(name)

    def log(self, msg):
        pass


class ConfirmCtx:
    """ctx stand-in handed to e2.run_diff: a crash / timeout of compiled code is only reported after it was reproduced
    by replaying exactly that evaluation (module rebuilt, fresh child); value mismatches pass through unchanged.

    A crash that does not reproduce in `attempts` replays is recorded in `unreproduced` (goes to the evidence) and does not
    affect the exit status: on a shared, overloaded machine children occasionally die for reasons unrelated to the code
    under test, and DESIGN 2.3 only promotes crash-class outcomes that recur.  The first reproduced crash of a key confirms
    the key; later crashes with the same key are passed on without another replay (they are only counted anyway)."""

    def __init__(self, ctx, keyfn, attempts=2):
        self._ctx = ctx
        self.scratch = ctx.scratch
        self._keyfn = keyfn
        self.attempts = attempts
        self.confirmed = set()
        self.tried = {}
        self.unreproduced = []

    def workdir(self, name):
        return self._ctx.workdir(name)

    def log(self, msg):
        self._ctx.log(msg)

    def _is_crash(self, case):
        got = case.get('got') if isinstance(case, dict) else None
        return bool(case.get('kind') == 'e2' and got and got[0] == 'crash')

    def confirm(self, key, case):
        """True if the crash in `case` is (or already was, for this key) reproduced."""
        if key in self.confirmed:
            return True
        if len(self.confirmed) >= 3:
            # three different crash classes were already reproduced in this run: this is a real crash storm, not a flaky
            # child; further classes are accepted without spending a rebuild each
            self.confirmed.add(key)
            return True
        if self.tried.get(key, 0) >= 3 * self.attempts:
            return False
        variants = []
        if case.get('source_reduced'):
            variants.append(dict(case, source=case['source_reduced'], name=case['name'] + 'r'))   # fast: only that function
        variants.extend([case] * self.attempts)
        for c in variants:
            self.tried[key] = self.tried.get(key, 0) + 1
            try:
                r = e2.replay(_Quiet(self._ctx), c)
            except Exception as e:      # a harness problem must not hide a crash
                r = 'replay failed: %r' % (e,)
            if r and not str(r).startswith('does not build'):
                self.confirmed.add(key)
                return True
        return False

    def violation(self, key, what, case):
        if self._is_crash(case) and not self.confirm(key, case):
            if len(self.unreproduced) < 20:
                self.unreproduced.append({'key': key, 'what': str(what)[:300]})
            self._ctx.log('crash not reproduced in %d replays (not reported): %s' % (self.attempts, str(what)[:160]))
            return False
        return self._ctx.violation(key, what, case)


# ---------------------------------------------------------------------------------------------------------------------
# Differential sweep with a crash-storm breaker.  Same contract as vlib.e2.run_diff (which it reuses for building, the
# child-side sweep and the replay cases); only the treatment of crashed sweep groups differs: e2 re-runs EVERY evaluation
# of a crashed group in its own child, which does not terminate in reasonable time when a change makes thousands of
# evaluations crash.  Here a crashed group is refined function by function (run_cases restarts a child after each crash),
# crashing functions input by input, and as soon as `storm` crashes with the same storm class (default: the normalised
# violation key, which for crashes depends on the program class only) were seen, further functions / inputs of that class
# are skipped.  Skipped work is counted and the caller marks the evidence `exhaustive: false`.
import collections
from vlib import runner, farm
from vlib.diff import short


def run_diff(ctx, mods, keyfn=e2.default_key, on_build_failure='violation', workdir=None, timeout=900, reach=None,
             storm=3, stormkey=None, max_crash_reports=60):
    workdir = workdir or ctx.workdir('e2')
    built, failures = e2.build_all(ctx, mods, workdir)
    stats = {'evaluations': 0, 'pairs': 0, 'programs': 0, 'modules_built': len(built), 'mismatches': 0,
             'crashes': 0, 'build_failures': len(failures), 'rejected': [],
             'storm': {'limit_per_class': storm, 'classes_saturated': [], 'functions_skipped': 0, 'evaluations_skipped': 0}}
    ctx.log('built %d modules (%d failures)' % (len(built), len(failures)))
    for m, r in failures:
        tags = [f.tag for f in m.funcs]
        if on_build_failure == 'violation':
            ctx.violation('build-failure|%s|%s' % (r.stage, tags[0] if tags else m.name),
                          'program does not build (%s): %s' % (r.stage, r.errors[-800:]),
                          {'kind': 'build', 'source': m.source, 'ext': m.ext, 'directives': m.directives,
                           'cflags': list(m.cflags), 'cplus': m.cplus, 'stage': r.stage, 'errors': r.errors[-3000:]})
        else:
            stats['rejected'].append((tags, r.stage, r.errors[-500:]))
    if reach:
        found = {k: 0 for k in reach}
        for m in built:
            try:
                with open(m.c_file, encoding='utf-8', errors='replace') as f:
                    txt = f.read()
            except OSError:
                continue
            for k in reach:
                if k in txt:
                    found[k] += 1
        stats['reach'] = found
        stats['reach_gaps'] = sorted(k for k, v in found.items() if not v)
        for k in stats['reach_gaps']:
            ctx.log('WARN reach gap: no built module mentions %s' % k)
    cases, owners = [], []
    for m in built:
        light = m.light()
        fl = m.funcs
        stats['programs'] += len(fl)
        total = sum(len(m.input_sets[f.inputs]) for f in fl)
        target = max(1, total // 4)
        cur, curn = [], 0
        for f in fl:
            ins = m.input_sets[f.inputs]
            cur.append((f.name, f.tag, ins)); curn += len(ins)
            if curn >= target:
                cases.append((light, cur)); owners.append(m); cur, curn = [], 0
        if cur:
            cases.append((light, cur)); owners.append(m)
    results = runner.run_cases(e2._sweep, cases, chunk=1, timeout=timeout, scratch=ctx.scratch)

    def handle(m, r):
        stats['evaluations'] += r['evals']
        stats['pairs'] += r['pairs']
        stats['mismatches'] += len(r['mismatches']) + r['more']
        for fname, tag, inp, exp, got in r['mismatches']:
            ctx.violation(keyfn(tag, inp, exp, got),
                          '%s%r: expected %s got %s' % (tag, tuple(inp), short(exp), short(got)),
                          e2._replay_case(m, fname, tag, inp, exp, got))

    def harness(m, r):
        ctx.violation('harness-exc|%s' % m.name, 'driver exception: %s' % r[1][-1500:],
                      {'kind': 'harness', 'source': m.source, 'trace': r[1][-3000:]})

    part_src = {}
    for m in built:
        for p in m.parts:
            for f in p.funcs:
                part_src[(m.name, f.name)] = p.src

    def crash_case(m, fname, tag, inp, got):
        c = e2._replay_case(m, fname, tag, inp, None, got)
        src = part_src.get((m.name, fname))
        if src:
            c['source_reduced'] = m.prelude + '\n' + src + '\n'
        return c

    crashed_funcs = []          # (light, m, fname, tag, ins)
    for (light, work), m, r in zip(cases, owners, results):
        if r[0] == 'ok':
            handle(m, r[1])
        elif r[0] == 'exc':
            harness(m, r)
        else:
            for fname, tag, ins in work:
                crashed_funcs.append((light, m, fname, tag, ins))
    if not crashed_funcs:
        return stats

    counts = collections.Counter()
    st = stats['storm']
    crashgot = ('crash', 'crash', 0)

    def klass(tag, inp):
        return (stormkey or keyfn)(tag, inp, None, crashgot)

    def saturated(tag, inp):
        k = klass(tag, inp)
        if counts[k] >= storm or stats['crashes'] >= max_crash_reports:
            if k not in st['classes_saturated']:
                st['classes_saturated'].append(k)
            return True
        return False

    ctx.log('%d functions in crashed sweep groups: refining with crash-storm breaker (%d per class)' % (len(crashed_funcs), storm))
    # stage A: one case per function (run_cases restarts a child after a crash), in waves so that saturation is seen early;
    # stage B: the crashing functions of a wave, at most `storm - seen` per class, ALL their inputs as single cases in one
    # parallel call.
    pos = 0
    nwave = 0
    while pos < len(crashed_funcs):
        wave = 64 if nwave < 3 else 256
        nwave += 1
        chunk_items, pos = crashed_funcs[pos:pos + wave], pos + wave
        batch = []
        for item in chunk_items:
            light, m, fname, tag, ins = item
            if ins and saturated(tag, ins[0]):
                st['functions_skipped'] += 1
                st['evaluations_skipped'] += len(ins)
            else:
                batch.append(item)
        if not batch:
            continue
        rr = runner.run_cases(e2._sweep, [(b[0], [(b[2], b[3], b[4])]) for b in batch], timeout=300, scratch=ctx.scratch)
        taken = collections.Counter()
        singles = []
        for item, r in zip(batch, rr):
            if r[0] == 'ok':
                handle(item[1], r[1])
            elif r[0] == 'exc':
                harness(item[1], r)
            else:
                light, m, fname, tag, ins = item
                k = klass(tag, ins[0]) if ins else None
                if k is None or saturated(tag, ins[0]) or counts[k] + taken[k] >= storm:
                    st['functions_skipped'] += 1
                    st['evaluations_skipped'] += len(ins)
                    if k is not None and k not in st['classes_saturated']:
                        st['classes_saturated'].append(k)
                    continue
                taken[k] += 1
                for inp in ins:
                    singles.append((light, m, fname, tag, inp))
        if singles:
            r2 = runner.run_cases(e2._sweep, [(x[0], [(x[2], x[3], [x[4]])]) for x in singles], timeout=60, scratch=ctx.scratch)
            for (light, m, fname, tag, inp), r in zip(singles, r2):
                if r[0] == 'ok':
                    handle(m, r[1])
                elif r[0] in ('crash', 'timeout'):
                    stats['evaluations'] += 1
                    k = klass(tag, inp)
                    if counts[k] >= storm or stats['crashes'] >= max_crash_reports:
                        st['evaluations_skipped'] += 1      # crashed, class already saturated: counted, not reported again
                        continue
                    stats['crashes'] += 1
                    counts[k] += 1
                    got = ('crash', r[0], r[1])
                    ctx.violation(keyfn(tag, inp, ('ok', ('?', '?')), got),
                                  '%s%r: %s %s; output tail: %s' % (tag, tuple(inp), r[0], r[1], (r[2] or '')[-400:]),
                                  crash_case(m, fname, tag, inp, got))
                else:
                    harness(m, r)
    if st['functions_skipped'] or st['evaluations_skipped']:
        ctx.log('crash-storm breaker: %d functions / %d evaluations of saturated crash classes were not refined'
                % (st['functions_skipped'], st['evaluations_skipped']))
    return stats


def storm_note(cov, stats):
    """Put the breaker's bookkeeping into the coverage dict; a run in which it skipped work is not exhaustive."""
    st = stats.get('storm') or {}
    cov['crash_storm_breaker'] = st
    if st.get('functions_skipped') or st.get('evaluations_skipped'):
        cov['exhaustive'] = False
        cov['exhaustive_note'] = ('crash-storm breaker: after %d crashing evaluations of one crash class the remaining functions/'
                                  'inputs of that class in crashed sweep groups were not re-run (%d functions, %d evaluations); '
                                  'every other evaluation was performed' % (st.get('limit_per_class', 0), st.get('functions_skipped', 0),
                                                                            st.get('evaluations_skipped', 0)))
    return cov
