"""C05 - Python int <-> C integer conversion is exact or raises.

Complete product: every integer C type (13 standard types, Py_hash_t, Py_UCS4, an unsigned and a signed C enum,
bint) x conversion site (typed def argument, <T>obj cast, typed local assignment, typed cdef-class attribute,
and C -> Python on return) is one compiled function; every function is run on the complete input alphabet: all
PyLong digit-count boundaries +-1 (support.INTS), the type's bounds -2..+2, bools, int subclasses, objects with
__index__ (in range / out of range / negative / returning a non-int / raising), and objects that are not
integers (str, bytes, None, tuple, list, complex, a plain object).  Oracle: v = operator.index(x) (TypeError if x is
not an integer), v if lo <= v <= hi else OverflowError; the round trip returns an int equal to v.
"""
import operator
from vlib import e2, support
from props import _g3_cint as g

LEVEL = 'exploration'
ENGINE = 'E2 diffexplore'
TECHNIQUE = 'exhaustive (C integer type x conversion site x build config) x complete boundary alphabet of Python objects, compiled vs operator.index + range model'
LEVEL_TEXT = ('Every integer C type (char..long long signed/unsigned, Py_ssize_t, size_t, Py_hash_t, Py_UCS4, two C enums, '
              'bint) x conversion site (typed argument, <T> cast, typed assignment, cdef-class attribute, C->Python return) is '
              'compiled with and without CYTHON_USE_PYLONG_INTERNALS and run on every value of an alphabet covering all '
              'PyLong digit-count boundaries +-1, the type bounds -2..+2, bools, int subclasses, __index__ objects (in/out of '
              'range, non-int result, raising) and non-integers; result value/type and exception type must equal the '
              'operator.index + range-check model.')
LEVEL_NOTE = ('Integers are a boundary alphabet, not all values.  Removed from the alphabet as by-design behaviour: objects that have '
              '__int__ but no __index__ (float, Decimal, Fraction, user classes) - Cython converts them through __int__ '
              '(tests/run/c_int_types_T255.pyx) where CPython 3.12 raises TypeError; 1-character str for Py_UCS4.  Enum '
              'ranges are those gcc chooses (unsigned int / int).  Limited-API configuration only in the thorough tier.  '
              'Trusted: operator.index, the 20-line model.')

X = "__import__('props._g3_conv', fromlist='x')."

# name -> (declaration, lo, hi, protocol)
SPECIAL = {
    'hash_t': ('Py_hash_t', -2**63, 2**63 - 1),
    'ucs4': ('Py_UCS4', 0, 0x10FFFF),
    'enum_u': ('EU', 0, 2**32 - 1),
    'enum_s': ('ES', -2**31, 2**31 - 1),
}
PRELUDE = '''
cdef enum EU:
    EU_A = 1
    EU_B = 70000
cdef enum ES:
    ES_A = -1
    ES_B = 5
'''


def type_table():
    tt = {}
    for k, t in g.TYPES.items():
        tt[k] = (t.decl, t.lo, t.hi)
    tt.update(SPECIAL)
    return tt


TT = type_table()


def model(tag, x):
    site, k = tag.split('/')
    if k == 'bint':
        return bool(x)
    v = int(x) if isinstance(x, int) else operator.index(x)
    decl, lo, hi = TT[k]
    if not lo <= v <= hi:
        raise OverflowError(k)
    return int(v)


OBJECTS = ['True', 'False', 'IntSub(5)', 'IntSub(2**70)', 'IntSub(-3)', 'IntSub(255)', 'IndexOnly(3)', 'IndexOnly(2**70)',
           'IndexOnly(-1)', "IndexOnly('x')", X + 'Both(3)', X + 'Both(2**70)', X + 'Both(-1)', X + "Both('x')",
           X + 'Both(200)', X + 'RaisesIndex()']
NONINT = [X + 'Neither()', 'None', "b'a'", '()', '[]', '1j', "'1'", "''", "'ab'"]


def inputs_for(k):
    decl, lo, hi = TT[k] if k != 'bint' else ('bint', 0, 1)
    vals = set(support.INT_VALUES)
    for d in range(-2, 3):
        vals.add(lo + d)
        vals.add(hi + d)
    exprs = [repr(v) for v in sorted(vals)] + OBJECTS
    exprs += [e for e in NONINT if not (k == 'ucs4' and e.startswith("'"))]
    fit = [repr(v) for v in sorted(vals) if lo <= v <= hi]
    return [(e,) for e in exprs], [(e,) for e in fit]


def parts_and_inputs():
    parts, sets = [], {}
    keys = list(TT) + ['bint']
    for k in keys:
        decl = TT[k][0] if k != 'bint' else 'bint'
        allin, fit = inputs_for(k)
        sets['all_' + k] = allin
        sets['fit_' + k] = fit
        ret = '<long>x' if k == 'ucs4' else 'x'
        rety = '<long>y' if k == 'ucs4' else 'y'
        parts.append(e2.Part('def arg_%s(%s x):\n    return %s\n' % (k, decl, ret), [e2.Func('arg_' + k, 'arg/' + k, 'all_' + k)]))
        parts.append(e2.Part('def cast_%s(x):\n    y = <%s>x\n    return %s\n' % (k, decl, rety),
                             [e2.Func('cast_' + k, 'cast/' + k, 'all_' + k)]))
        parts.append(e2.Part('def asg_%s(x):\n    cdef %s y\n    y = x\n    return %s\n' % (k, decl, rety),
                             [e2.Func('asg_' + k, 'asg/' + k, 'all_' + k)]))
        if k not in ('ucs4',):
            parts.append(e2.Part('cdef class H_%s:\n    cdef public %s v\n\ndef attr_%s(x):\n    h = H_%s()\n    h.v = x\n'
                                 '    return h.v\n' % (k, decl, k, k), [e2.Func('attr_' + k, 'attr/' + k, 'all_' + k)]))
        if k not in ('bint', 'ucs4', 'enum_u', 'enum_s'):
            wide = 'unsigned long long' if TT[k][1] == 0 else 'long long'
            parts.append(e2.Part('def topy_%s(x):\n    cdef %s w = x\n    cdef %s y = <%s>w\n    return y\n' % (k, wide, decl, decl),
                                 [e2.Func('topy_' + k, 'topy/' + k, 'fit_' + k)]))
    return parts, sets


REACH = ['__Pyx_PyLong_As_int', '__Pyx_PyLong_As_signed_char', '__Pyx_PyLong_As_unsigned_char', '__Pyx_PyLong_As_short',
         '__Pyx_PyLong_As_unsigned_short', '__Pyx_PyLong_As_unsigned_int', '__Pyx_PyLong_As_long',
         '__Pyx_PyLong_As_unsigned_long', '__Pyx_PyLong_As_PY_LONG_LONG', '__Pyx_PyLong_As_unsigned_PY_LONG_LONG',
         '__Pyx_PyLong_As_size_t', '__Pyx_PyIndex_AsSsize_t', '__Pyx_PyLong_From_int', '__Pyx_PyLong_From_signed_char',
         '__Pyx_PyLong_From_unsigned_PY_LONG_LONG', '__Pyx_PyLong_From_PY_LONG_LONG', '__Pyx_PyLong_From_long',
         '__PYX_VERIFY_RETURN_INT', '__Pyx_PyNumber_Long', '__Pyx_PyObject_IsTrue']


def keyfn(tag, inp, exp, got):
    # plain ints: one key per (direction/type, digit class, divergence).  Other objects: the object protocol handling is
    # shared by all sites and all types using the same protocol, so the key is (protocol family, input class, what
    # the compiled code did) - one root cause, one key.
    site, k = tag.split('/')
    cls = ','.join(support.classify(e) for e in inp)
    if cls.startswith(('int:', 'IntSub', 'bool')):
        # the four from-Python sites share __Pyx_PyLong_As_<type>
        return '%s/%s|%s|%s' % ('topy' if site == 'topy' else 'frompy', k, cls, e2.divclass(exp, got))
    fam = 'index-protocol' if k in ('ssize_t', 'hash_t') else 'bint' if k == 'bint' else 'int-protocol'
    did = 'crash' if got[0] == 'crash' else 'got-exc:' + got[1] if got[0] == 'exc' else 'got-value'
    return 'frompy|%s|%s|%s' % (fam, cls, did)


def run(ctx):
    parts, sets = parts_and_inputs()
    configs = [('d', ()), ('nopl', ('-DCYTHON_USE_PYLONG_INTERNALS=0',))]
    if ctx.tier == 'thorough':
        # Limited API: no PyLong internals, no type slots (PyNumber_Long), no _PyLong_AsByteArray (bit-chunk path)
        configs.append(('limited', ('-DCYTHON_LIMITED_API=1', '-DPy_LIMITED_API=0x030c0000')))
    mods = []
    per = 30
    for cname, cflags in configs:
        for i in range(0, len(parts), per):
            mods.append(e2.Mod('c05%s_%d' % (cname, i // per), PRELUDE, parts[i:i + per], sets, ext='.pyx',
                               ref=('model', 'props.C05_cint_convert:model'), cflags=cflags))
    st = e2.run_diff(ctx, mods, keyfn=keyfn, reach=REACH)
    classes = {}
    for k in TT:
        for (e,) in sets['all_' + k]:
            c = '%dbit:%s' % (g.TYPES[k].bits if k in g.TYPES else 32 if k != 'hash_t' else 64, support.classify(e))
            classes[c] = classes.get(c, 0) + 1
    cov = {
        'evaluations': st['evaluations'], 'distinct_nontrivial': st['pairs'],
        'rule': 'complete product (type, site, config) x input alphabet; counted once per distinct (function, expected '
                'outcome) pair',
        'programs': st['programs'], 'modules_built': st['modules_built'], 'mismatches': st['mismatches'],
        'crashes': st['crashes'], 'build_failures': st['build_failures'], 'reach': st.get('reach'),
        'reach_gaps': st.get('reach_gaps'), 'configs': [c[0] for c in configs], 'types': sorted(TT) + ['bint'],
        'inputs_per_type': {k: len(sets['all_' + k]) for k in TT}, 'input_classes_by_width': classes,
        'samples': [{'function': parts[0].src, 'input': sets['all_schar'][40][0]},
                    {'function': parts[len(parts) // 2].src, 'input': OBJECTS[6]},
                    {'function': parts[-1].src, 'input': 'None'}],
        'exhaustive': True,
    }
    return cov, ['integers outside the boundary alphabet are not covered',
                 'objects with __int__ but no __index__ are by-design outside the judged alphabet']


def replay(ctx, case):
    return e2.replay(ctx, case)
