"""C07 - the power operator follows the documented cpow rules.

Every cell (type of a) x (form of b) x (cpow unset / True / False) is one compiled function returning
(cython.typeof(a ** b), a ** b); each function is run on the complete product of a base alphabet and an
exponent alphabet.  Oracles:
  * result TYPE: transcription of docs/src/userguide/cpow_table.csv (cross-checked against the csv file of the
    checked tree at run time);
  * VALUE, Python-object results: CPython's a ** b (value, type, exception type);
  * VALUE, C integer results: exact a ** b whenever the exponent is >= 0 and the result fits the C type
    (otherwise unspecified, not compared);
  * VALUE, C double/float results: libm pow()/powf() called through ctypes on the operands converted to that type;
  * VALUE, (soft) complex results: CPython's result within a relative tolerance (libm cpow is not correctly rounded),
    finite non-zero bases only (special values of complex pow belong to C08).
"""
import math, struct, ctypes, ctypes.util, csv, os
from vlib import e2, support
from props._g3b_common import warm, permute, run_judged, replay_judged, fcls, sfcls

LEVEL = 'exploration'
ENGINE = 'E2 diffexplore'
TECHNIQUE = ('exhaustive product (operand type x exponent form x cpow setting) x base alphabet x exponent alphabet, '
             'compiled result type vs cpow table and value vs CPython / exact integer power / libm pow')
LEVEL_TEXT = ('Every cell of a-type {int, long, unsigned int, float, double, double complex, object} x b-form {negative int '
              'constants, non-negative int constants 0..5/31/62/63, unsigned/int/long variable, double variable, double '
              'constants, object} x cpow {unset, True, False} is compiled as its own function returning '
              '(cython.typeof(a**b), a**b) and run on the full product of boundary bases and exponents; the type must be the '
              'one the cpow table gives, Python-object results must equal CPython, integer results with exponent >= 0 that fit '
              'the C type must be exact, double results must equal libm pow on the converted operands.')
LEVEL_NOTE = ('Bases/exponents are boundary alphabets.  Integer results that overflow the C type or have a negative exponent are '
              'unspecified and only counted.  Complex and soft-complex values are compared to CPython with relative tolerance '
              '1e-12 and only for finite bases with 1e-100 <= |a| <= 1e100 (special/extreme values of complex pow are C08 territory); the table says nothing about '
              'complex operands, so no type is demanded there beyond "a complex type".  Exponents whose Python result would be '
              'astronomically large are left out of the Python-object cells.  Trusted: CPython 3.12, glibc pow/powf, the '
              'transcription of the table (asserted against the csv at run time).')

INT_TYPES = {'int': (-2**31, 2**31 - 1), 'long': (-2**63, 2**63 - 1), 'unsigned int': (0, 2**32 - 1),
             'unsigned long': (0, 2**64 - 1), 'long long': (-2**63, 2**63 - 1), 'unsigned long long': (0, 2**64 - 1),
             'short': (-2**15, 2**15 - 1), 'unsigned short': (0, 2**16 - 1), 'Py_ssize_t': (-2**63, 2**63 - 1),
             'size_t': (0, 2**64 - 1)}
FLOAT_TYPES = ('float', 'double')
COMPLEX_TYPES = ('soft double complex', 'double complex', 'float complex')

A_TYPES = ['int', 'long', 'unsigned int', 'float', 'double', 'double complex', 'object']
NEG_CONSTS = ['-1', '-2', '-3']
POS_CONSTS = ['0', '1', '2', '3', '4', '5', '31', '62', '63']
DBL_CONSTS = ['0.5', '2.0', '-2.0', '-0.5', '3.0']
B_FORMS = ([('negc', None, c) for c in NEG_CONSTS] + [('posc', None, c) for c in POS_CONSTS] +
           [('uvar', 'unsigned int', None), ('svar', 'int', None), ('lvar', 'long', None), ('dvar', 'double', None)] +
           [('dc', None, c) for c in DBL_CONSTS] + [('obj', 'object', None)])
CPOWS = [('u', None), ('t', True), ('f', False)]

A_INPUTS = {
    'int': ['0', '1', '-1', '2', '-2', '3', '-3', '10', '32768', '46341', '2147483647', '-2147483648'],
    'long': ['0', '1', '-1', '2', '-2', '3', '-3', '10', '32768', '2147483647', '-2147483648', '3037000499', '3037000500',
             '2**62', '2**63-1', '-2**63'],
    'unsigned int': ['0', '1', '2', '3', '10', '32768', '65535', '65536', '2147483647', '4294967295'],
    'float': support.FLOATS + ['2.0', '-2.0', '10.0', '-3.0'],
    'double': support.FLOATS + ['2.0', '-2.0', '10.0', '-3.0'],
    'double complex': ['(3+0j)', '(-4+0j)', '(1+2j)', '(0.5-1.5j)', '-1j', '(-2.5-0.5j)', '2.0', '3'],
    'object': ['0', '1', '-1', '2', '-2', '3', '10', '2**31', '-2**31-1', '2**62', '2**64+1', '0.0', '-0.0', '0.5', '-1.5', '2.0',
               '-8.0', "float('inf')", "float('nan')", '1e200', 'True', 'None', "'a'", 'IntSub(3)', 'FloatSub(1.5)',
               'Fraction(1, 3)', "Decimal('1.5')", 'Refl()', 'NotImpl()', '1j', '(1+2j)', '[1]'],
}
B_INPUTS = {
    'uvar': ['0', '1', '2', '3', '4', '5', '6', '7', '8', '15', '16', '31', '32', '33', '62', '63', '64', '65535', '4294967295'],
    'svar': ['-2147483648', '-3', '-2', '-1', '0', '1', '2', '3', '4', '5', '6', '7', '8', '15', '16', '31', '32', '33', '62', '63',
             '64', '2147483647'],
    'lvar': ['-2**63', '-3', '-2', '-1', '0', '1', '2', '3', '4', '5', '6', '7', '8', '15', '16', '31', '32', '33', '62', '63',
             '64', '2**62', '2**63-1'],
    'dvar': ['-2.0', '-1.0', '-0.5', '-0.0', '0.0', '0.5', '1.0', '1.5', '2.0', '3.0', '4.0', '5.0', '31.0', '64.0', '1024.0',
             "float('inf')", "float('-inf')", "float('nan')", '1e308', '5e-324', '-3.0', '0.1'],
    'obj': ['-65', '-2', '-1', '0', '1', '2', '3', '4', '5', '31', '62', '63', '64', '65', '0.5', '-0.5', '2.0', '-0.0',
            "float('inf')", "float('nan')", 'True', 'False', 'None', "'a'", 'IntSub(2)', 'FloatSub(0.5)', 'Fraction(1, 2)',
            "Decimal('2')", 'Refl()', 'NotImpl()', '1j', 'IndexOnly(2)'],
}
# exponents for the constant-base cell 2 ** x (PyNumberPow2 shift fast path and its boundaries)
POW2_EXPS = ['-3', '-1', '0', '1', '2', '29', '30', '31', '32', '61', '62', '63', '64', '65', '127', '128', '200', '1000',
             '2**15', 'True', 'False', 'IntSub(3)', 'IntSub(63)', 'IntSub(-1)', '0.5', '-1.0', '2.0', 'None', "'a'",
             'Fraction(1, 2)', 'Refl()', 'NotImpl()', '1j', 'IndexOnly(2)', "Decimal('3')", 'FloatSub(2.0)']

# literal bases x exponent forms (the constant-base fast paths of PowNode: PyNumberPow2 is meant for the int literal 2 only)
LITERALS = ['2', '2.0', '(-2)', '3', '4', '10', '0.5', '1', '0', 'True']
LIT_EXP_INTS = ['-2', '-1', '0', '1', '2', '3', '10', '31', '62', '63', '64', '65', '100', '1023', '1024', '1025']
LIT_INPUTS = {
    'obj': LIT_EXP_INTS + ['0.5', '2.0', 'True', 'IntSub(3)', 'IntSub(1024)', 'None'],
    'svar': LIT_EXP_INTS,
    'uvar': [e for e in LIT_EXP_INTS if not e.startswith('-')],
    'dvar': [e + '.0' for e in LIT_EXP_INTS] + ['0.5', '-0.5'],
}
LIT_BTYPES = {'obj': 'object', 'svar': 'int', 'uvar': 'unsigned int', 'dvar': 'double'}

REACH = ['__Pyx_pow_long', '__Pyx_pow_int', '__Pyx_pow_unsigned_int', '__Pyx__PyNumber_PowerOf2', '__pyx_Py_FromSoftComplex', '__Pyx_SoftComplexToDouble',
         '__Pyx_c_pow_double', 'pow(', 'powf(', 'PyNumber_Power']


# ------------------------------------------------------------------------------------------- the table
def table_types(atype, bform, cpow):
    """Allowed typeof() strings per docs/src/userguide/cpow_table.csv, or None where the table is silent.
    Returns (set of allowed names, row text)."""
    a_int, a_flt = atype in INT_TYPES, atype in FLOAT_TYPES
    b_int = bform in ('negc', 'posc', 'uvar', 'svar', 'lvar')
    b_flt = bform in ('dvar', 'dc')
    if atype == 'object' or bform == 'obj':
        return {'Python object'}, 'object operand: Python semantics'
    if a_int and bform == 'negc':
        return {'double'}, 'C integer ** negative integer constant: C double'
    if a_int and bform in ('posc', 'uvar'):
        return set(INT_TYPES), 'C integer ** C integer known >= 0: integer'
    if a_int and bform in ('svar', 'lvar'):
        if cpow is True:
            return set(INT_TYPES), 'C integer ** C integer (may be negative), cpow=True: integer'
        return {'double'}, 'C integer ** C integer (may be negative), cpow=False: C double'
    if a_flt and b_int:
        return set(FLOAT_TYPES), 'C floating point ** C integer: floating point'
    if (a_flt or a_int) and b_flt:
        if cpow is True:
            return set(FLOAT_TYPES), 'C floating point (or integer) ** C floating point, cpow=True: floating point'
        return set(FLOAT_TYPES) | set(COMPLEX_TYPES), 'C floating point (or integer) ** C floating point, cpow=False: C real or complex'
    return None, 'not in the table'


def check_table_file(stage_root):
    """The transcription above must still describe the csv of the checked tree (5 rows, same key phrases)."""
    p = os.path.join(os.environ.get('VERIF_REPO', '/repo'), 'docs', 'src', 'userguide', 'cpow_table.csv')
    if not os.path.exists(p):
        p = '/repo/docs/src/userguide/cpow_table.csv'
    with open(p, encoding='utf-8') as f:
        rows = list(csv.reader(f))
    want = [('C integer', 'Negative integer compile-time constant', 'C double', 'C double'),
            ('C integer', '>= 0', 'integer', 'integer'),
            ('C integer', 'may be negative', 'integer', 'C double'),
            ('C floating point', 'C integer', 'floating point', 'floating point'),
            ('C floating point (or C integer)', 'C floating point', 'floating point', 'real or complex')]
    body = rows[1:]
    if len(body) != len(want):
        return 'cpow_table.csv has %d rows, transcription has %d' % (len(body), len(want))
    for r, w in zip(body, want):
        for cell, phrase in zip(r, w):
            if phrase not in cell:
                return 'cpow_table.csv row %r no longer contains %r' % (r, phrase)
    return None


# ------------------------------------------------------------------------------------------- value oracles
_libm = None


def _lm():
    global _libm
    if _libm is None:
        _libm = ctypes.CDLL(ctypes.util.find_library('m') or 'libm.so.6')
        _libm.pow.restype = ctypes.c_double
        _libm.pow.argtypes = [ctypes.c_double, ctypes.c_double]
        _libm.powf.restype = ctypes.c_float
        _libm.powf.argtypes = [ctypes.c_float, ctypes.c_float]
    return _libm


def _f32(x):
    try:
        return struct.unpack('f', struct.pack('f', x))[0]
    except OverflowError:
        return math.copysign(math.inf, x)


def _py(f, *a):
    try:
        return ('ok', f(*a))
    except Exception as e:
        return ('exc', type(e).__name__)


def _canon(v):
    from vlib.diff import canon
    return canon(v)


def _close(x, y, tol=1e-12):
    if x != x or y != y:
        return (x != x) == (y != y)
    if math.isinf(x) or math.isinf(y):
        return x == y
    return abs(x - y) <= tol * max(1.0, abs(x), abs(y))


def _as_c(atype, v):
    """The Python-level value the compiled function sees for an argument declared with C type `atype`."""
    if atype in INT_TYPES:
        return int(v)
    if atype == 'float':
        return _f32(float(v))
    if atype == 'double':
        return float(v)
    if atype == 'double complex':
        return complex(v)
    return v


def split_tag(tag):
    # 'pow/<cpow u|t|f>/<atype index>/<bform>/<const or ->'   |   'pow2/<form>'
    t = tag.split('/')
    return t


def judge(tag, args, got):
    """None if the outcome is allowed, else (divergence class, expected description)."""
    t = tag.split('/')
    if t[0] == 'pow2':
        exp = _py(lambda x: 2 ** x, args[0])
        exp = ('ok', _canon(exp[1])) if exp[0] == 'ok' else exp
        return None if got == exp else (e2.divclass(exp, got), repr(exp))
    if t[0] == 'assign':
        return judge_assign(t, args, got)
    if t[0] == 'lit':
        return judge_literal(t, args, got)
    cpow = {'u': None, 't': True, 'f': False}[t[1]]
    atype = A_TYPES[int(t[2])]
    bform = t[3]
    const = t[4]
    a = _as_c(atype, args[0])
    if bform in ('negc', 'posc'):
        b = int(const)
    elif bform == 'dc':
        b = float(const)
    elif bform in ('uvar', 'svar', 'lvar'):
        b = int(args[1])
    elif bform == 'dvar':
        b = float(args[1])
    else:
        b = args[1]
    allowed, row = table_types(atype, bform, cpow)
    return _judge_cell(allowed, row, a, b, got)


def _judge_cell(allowed, row, a, b, got, skip_type=False):
    """Oracle of one (typeof, value) outcome.  allowed: set of admissible typeof() strings, {'Python object'} for
    Python semantics, None where the table is silent (complex operand); skip_type: the reported type is that of a
    variable, not of the ** expression (in-place forms), so only the value rules apply."""
    if allowed == {'Python object'}:
        exp = _py(lambda x, y: ('Python object', x ** y), a, b)
        exp = ('ok', _canon(exp[1])) if exp[0] == 'ok' else exp
        return None if got == exp else ('object:' + e2.divclass(exp, got), repr(exp))
    if got[0] != 'ok':
        return ('extra-exc:' + got[1], 'a value of C type (%s)' % row)
    try:
        (_, ((_, tname_repr), (vtype, vrepr))) = got[1]
        tname = eval(tname_repr)
    except Exception:
        return ('shape', 'a (typeof, value) tuple')
    if not skip_type:
        if allowed is not None and tname not in allowed:
            return ('type:%s' % tname, '%s; allowed %s' % (row, sorted(allowed)))
        if allowed is None and tname not in COMPLEX_TYPES:
            return ('type:%s' % tname, 'a complex type for a complex operand')
    elif tname not in INT_TYPES and tname not in FLOAT_TYPES and tname not in COMPLEX_TYPES:
        return ('type:%s' % tname, 'a C numeric type')
    # ---- value
    if tname in INT_TYPES:
        if vtype != 'int':
            return ('pytype:%s' % vtype, 'Python int from C integer result')
        if b < 0:
            return None                      # unspecified (documented: C integer power cannot represent it)
        exact = a ** b if abs(a) <= 1 or b <= 64 else None
        if exact is None:
            return None                      # certainly overflows every C integer type
        lo, hi = INT_TYPES[tname]
        if not (lo <= exact <= hi):
            return None                      # does not fit: unspecified
        return None if int(vrepr) == exact else ('intvalue', repr(exact))
    if tname in FLOAT_TYPES:
        if vtype != 'float':
            return ('pytype:%s' % vtype, 'Python float from C floating result')
        if tname == 'float':
            e = _lm().powf(_f32(float(a)), _f32(float(b)))
        else:
            e = _lm().pow(float(a), float(b))
        return None if repr(float(vrepr)) == repr(float(e)) else ('floatvalue', 'libm pow -> %r' % e)
    # complex / soft complex
    if vtype not in ('float', 'complex'):
        return ('pytype:%s' % vtype, 'Python float or complex')
    if tname != 'soft double complex' and vtype != 'complex':
        return ('pytype:%s' % vtype, 'Python complex from a C complex result')
    ca = complex(a)
    if ca == 0 or any(fcls(x) in ('nan', 'inf') for x in (ca.real, ca.imag)) or not (1e-100 <= abs(ca) <= 1e100):
        return None                          # special and extreme bases of complex pow are C08's alphabet
    cb = complex(b)
    if any(fcls(x) in ('nan', 'inf') for x in (cb.real, cb.imag)) or abs(cb) > 1024 or 0 < abs(cb) < 1e-300:
        return None                          # libm cpow loses everything for huge exponents: not Cython code
    exp = _py(lambda x, y: x ** y, a, b)
    if exp[0] != 'ok':
        return None                          # CPython overflows / divides by zero: C value unspecified
    e = complex(exp[1])
    g = complex(vrepr)
    if any(fcls(x) in ('nan', 'inf') for x in (e.real, e.imag)):
        return None
    scale = max(1.0, abs(e))
    if abs(e - g) <= 1e-12 * scale:
        return None
    return ('complexvalue', repr(exp[1]))


def judge_literal(t, args, got):
    """'lit/<cpow>/<ret|ip>/<literal index>/<bform>': LITERAL ** b.  Object exponents: CPython on the same expression
    (type, repr, exception type).  C exponents: the table with the literal as 'C integer' / 'C floating point' operand
    (return form) and the C value rules."""
    cpow = {'u': None, 't': True, 'f': False}[t[1]]
    form, lit, bform = t[2], LITERALS[int(t[3])], t[4]
    a = eval(lit)
    if bform == 'obj':
        return _judge_cell({'Python object'}, 'literal ** object: Python semantics', a, args[0], got)
    b = float(args[0]) if bform == 'dvar' else int(args[0])
    if form == 'ip':
        # 'r = LITERAL; r **= b': safe type inference keeps an int-valued r a Python object (documented: arithmetic on
        # inferred integers must not overflow), so the operation has Python semantics whenever typeof(r) says so
        is_obj = got[0] == 'exc'
        if got[0] == 'ok':
            try:
                is_obj = eval(got[1][1][0][1]) == 'Python object'
            except Exception:
                is_obj = False
        if is_obj:
            return _judge_cell({'Python object'}, 'in-place on an inferred Python object: Python semantics', a, b, got)
    if type(a) is bool:
        allowed, row, skip = None, 'bool literal base', True
        a = int(a)
    else:
        allowed, row = table_types('long' if type(a) is int else 'double', bform, cpow)
        skip = form == 'ip'
    return _judge_cell(allowed, row, a, b, got, skip_type=skip)


def judge_assign(t, args, got):
    """'assign/<cpow>/<kind>': cdef double c = a ** b; return c   (a ** b coerced directly to a C double)."""
    cpow = {'u': None, 't': True, 'f': False}[t[1]]
    a, b = float(args[0]), float(args[1])
    e = _lm().pow(a, b)
    if cpow is False:
        # soft complex coerced to double: TypeError when the result is not real.  Calibration (measured on the unchanged
        # tree): with native C99 complex, libm cpow gives a tiny non-zero imaginary part for negative bases with
        # integer-valued exponents and underflows for subnormal bases, so only 'ordinary' operands are held to the oracle.
        ordinary = (1e-100 <= abs(a) <= 1e100) and (b == 0 or 1e-3 <= abs(b) <= 1024) and fcls(e) not in ('inf',)
        if not ordinary:
            return None
        if a < 0 and b != int(b):
            return None if got == ('exc', 'TypeError') else (e2.divclass(('exc', 'TypeError'), got), 'TypeError (complex result)')
        if a < 0:
            return None                   # real result, but native cpow may leave an imaginary residue -> TypeError
        if got[0] != 'ok' or got[1][0] != 'float':
            return (e2.divclass(('ok', ('float', repr(e))), got), 'float %r' % e)
        return None if _close(float(got[1][1]), e) else ('floatvalue', 'about %r' % e)
    exp = ('ok', ('float', repr(float(e))))
    return None if got == exp else (e2.divclass(exp, got) if got[0] != 'ok' else 'floatvalue', 'libm pow -> %r' % e)


# ------------------------------------------------------------------------------------------- programs
def feasible(atype, bform, a_expr, b_expr):
    """Leave out operand pairs whose CPython result is astronomically large (Python-object cells only)."""
    if atype != 'object' and bform != 'obj':
        return True
    ns = support.namespace()
    try:
        a, b = eval(a_expr, ns), eval(b_expr, ns)
    except Exception:
        return True
    if isinstance(b, int) and not isinstance(b, bool) and abs(b) > 70:
        if type(a) is int:
            return abs(a) <= 1
        return type(a) in (float, bool, complex, type(None), str, list, support.Refl, support.NotImpl)
    return True


def programs(tier, seed):
    parts, sets = [], {}
    n = 0
    for cname, cpow in CPOWS:
        deco = '' if cpow is None else '@cython.cpow(%s)\n' % cpow
        for ai, at in enumerate(A_TYPES):
            for bform, btype, const in B_FORMS:
                name = 'f%d' % n
                n += 1
                if const is None:
                    sig = '%s a, %s b' % (at, btype)
                    bexpr = 'b'
                    key = '%s|%s' % (at, bform)
                    if key not in sets:
                        sets[key] = permute([(a, b) for a in A_INPUTS[at] for b in B_INPUTS[bform]
                                             if feasible(at, bform, a, b)], seed, key)
                else:
                    sig = '%s a' % at
                    bexpr = const
                    key = at
                    if key not in sets:
                        sets[key] = permute([(a,) for a in A_INPUTS[at]], seed, key)
                src = '%sdef %s(%s):\n    return cython.typeof(a ** %s), a ** %s\n' % (deco, name, sig, bexpr, bexpr)
                tag = 'pow/%s/%d/%s/%s' % (cname, ai, bform, const if const is not None else '-')
                parts.append(e2.Part(src, [e2.Func(name, tag, key)]))
        # a ** b assigned directly to a C double
        name = 'f%d' % n
        n += 1
        src = '%sdef %s(double a, double b):\n    cdef double c = a ** b\n    return c\n' % (deco, name)
        key = 'double|dvar'
        parts.append(e2.Part(src, [e2.Func(name, 'assign/%s/dd' % cname, key)]))
    # LITERAL ** b, complete product literal x exponent form x (return | in-place)
    for cname, cpow in (CPOWS if tier == 'thorough' else CPOWS[:1]):
        deco = '' if cpow is None else '@cython.cpow(%s)\n' % cpow
        for li, lit in enumerate(LITERALS):
            for bform in ('obj', 'svar', 'uvar', 'dvar'):
                key = 'lit|' + bform
                if key not in sets:
                    sets[key] = permute([(e,) for e in LIT_INPUTS[bform]], seed, key)
                for form, body in (('ret', '    return cython.typeof(%s ** b), %s ** b' % (lit, lit)),
                                   ('ip', '    r = %s\n    r **= b\n    return cython.typeof(r), r' % lit)):
                    name = 'f%d' % n
                    n += 1
                    src = '%sdef %s(%s b):\n%s\n' % (deco, name, LIT_BTYPES[bform], body)
                    parts.append(e2.Part(src, [e2.Func(name, 'lit/%s/%s/%d/%s' % (cname, form, li, bform), key)]))
    # constant base 2 with object exponent: shift fast path
    sets['pow2'] = permute([(e,) for e in POW2_EXPS], seed, 'pow2')
    for form, src in [('ret', 'def %s(x):\n    return 2 ** x\n'),
                      ('loc', 'def %s(x):\n    y = 2 ** x\n    return y\n'),
                      ('typed', 'def %s(x):\n    cdef object y = x\n    return 2 ** y\n')]:
        name = 'f%d' % n
        n += 1
        parts.append(e2.Part(src % name, [e2.Func(name, 'pow2/%s' % form, 'pow2')]))
    return parts, sets


def cell_key(tag, inp, div, got):
    """Root key: cell (cpow, a type, b form) x divergence class x coarse operand class."""
    t = tag.split('/')
    if t[0] == 'pow2':
        return 'pow2|%s|%s|%s' % (t[1], support.classify(inp[0]) if inp else '?', div)
    if t[0] == 'lit':
        # return / in-place forms and the cpow setting share the code path for a given literal and exponent form
        return 'lit|base=%s|%s|%s' % (LITERALS[int(t[3])], t[4], div)
    if t[0] == 'assign':
        return 'assign|cpow=%s|%s' % ({'u': 'unset', 't': 'True', 'f': 'False'}[t[1]], div)
    at = A_TYPES[int(t[2])]
    acls = 'Cint' if at in INT_TYPES else ('Cfloat' if at in FLOAT_TYPES else at.replace(' ', '_'))
    cell = 'cpow=%s|%s**%s' % ({'u': 'unset', 't': 'True', 'f': 'False'}[t[1]], acls, t[3])
    if div.startswith('type:') or div.startswith('build-failure'):
        return 'type|%s|%s' % (cell, div)
    if div == 'intvalue':
        ns = support.namespace()
        b = int(t[4]) if t[4] != '-' else int(eval(inp[1], ns))
        bcls = str(b) if 0 <= b <= 5 else ('loop' if b > 5 else 'neg')
        # the integer power helper is the same template whatever the cpow setting / exponent form
        return 'value|Cint**Cint|e=%s|%s' % (bcls, div)
    return 'value|%s|%s' % (cell, div)


def run(ctx):
    warm(ctx)
    parts, sets = programs(ctx.tier, ctx.seed)
    prelude = 'cimport cython\n'
    per = 60
    configs = [('d', (), None)]
    if ctx.tier == 'thorough':
        configs += [('cc0', ('-DCYTHON_CCOMPLEX=0',), None), ('nopl', ('-DCYTHON_USE_PYLONG_INTERNALS=0',), None)]
    mods = []
    for cname, cflags, _ in configs:
        for i in range(0, len(parts), per):
            mods.append(e2.Mod('c07%s_%d' % (cname, i // per), prelude, parts[i:i + per], sets, ext='.pyx', cflags=cflags,
                               opt='-O0'))
    bad = check_table_file(ctx.stage_root)
    if bad:
        ctx.violation('table-transcription', bad, {'kind': 'table', 'problem': bad})
    st, raw = run_judged(ctx, mods, 'props.C07_pow:judge', reach=REACH)
    for tag, inp, div, exp, got, what, case in raw:
        if div in ('harness-exc',):
            ctx.violation('harness-exc|%s' % tag, what, case)
        else:
            ctx.violation(cell_key(tag, inp, div, got), what, case)
    cells = len(CPOWS) * len(A_TYPES) * len(B_FORMS)
    cov = {
        'evaluations': st['evaluations'], 'distinct_nontrivial': st['pairs'],
        'rule': 'a case is counted once per distinct (compiled function, observed (typeof, value) outcome) pair',
        'programs': st['programs'], 'modules_built': st['modules_built'], 'cells': cells,
        'a_types': A_TYPES, 'b_forms': sorted(set(b[0] for b in B_FORMS)), 'cpow_settings': ['unset', 'True', 'False'],
        'literal_base_cells': len(LITERALS) * 4 * 2, 'literal_bases': LITERALS,
        'mismatches': st['mismatches'], 'crashes': st['crashes'], 'build_failures': st['build_failures'],
        'reach': st.get('reach'), 'reach_gaps': st.get('reach_gaps'), 'configs': [c[0] for c in configs],
        'samples': [{'function': parts[3].src, 'operands': list(sets['int'][0])},
                    {'function': parts[13].src, 'operands': list(sets['int|svar'][5])},
                    {'function': parts[-1].src, 'operands': list(sets['pow2'][3])}],
        'exhaustive': True,
    }
    return cov, ['C integer results that overflow or have a negative exponent are unspecified and not compared',
                 'libm pow/powf (ctypes) is the value reference for C floating results',
                 'complex results are compared to CPython with relative tolerance 1e-12 on finite non-zero bases only']


def replay(ctx, case):
    if case.get('kind') == 'table':
        return check_table_file(ctx.stage_root) or False
    return replay_judged(ctx, case)
