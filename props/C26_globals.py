"""C26 - global and builtin lookups always see the current binding.

Explicit-state search over histories of module-dict / builtins mutations interleaved with reads, on a live compiled
module whose global-name read sites carry per-call-site static caches (dict version + borrowed cached value).
The module (one source text) is compiled in several build configurations and also executed by CPython.  Per
configuration a zygote process (fresh small interpreter, props/_g7_zygote.py) loads the compiled module once and explores
breadth-first ALL histories up to the bound with dedup on the canonical state (bindings of X / of the shadowed builtin in
module dict and builtins, and per read-site group: what it saw last and whether the module dict was written since).
Every history is replayed on the compiled module and on the CPython module in lock-step and compared after every step
(read value / NameError; result of compiled mutators).  Each replay starts from a reset (initial bindings restored by
real writes, which bump the dict version, so every per-site cache is invalid exactly as when never used); histories of
length <= 2 (quick) / <= 3 (thorough) are additionally executed in a child FORKED from the pristine zygote (exact
snapshot of the untouched static caches) and must agree with the in-process replay.  (Forking every transition, the
original design, costs 0.5-1 s per fork on the loaded machine.)  The thorough tier re-explores bound 5 without dedup
(audit of the abstraction).

Alphabet: external writes setattr/delattr(mod,'X'), mod.__dict__['X']=v / pop, compiled `global X` set / del /
read-then-set, unrelated write mod.Z (bumps the dict version), shadow / unshadow the builtin name `oct` in the module
(externally and by compiled code), builtins.X = v / del (fall-through target), builtins.oct = fake / restore,
reads: site group A (one site), group B (six further sites incl. two reads in one function, a call and a loop).
With Options.cache_builtins=False additionally builtins.divmod / builtins.round = fake / restore and a read + a call of
these undeclared names.
"""
import os, sys, json, subprocess, itertools
from vlib import farm
from props import _g7_c26world as W

LEVEL = 'model_checking'
ENGINE = 'E3 histexplore'
TECHNIQUE = 'zygote-fork BFS over all mutation/read histories of a live compiled module vs CPython module, canonical-state dedup'
LEVEL_TEXT = ('All histories of length <= 6 (quick) / <= 8 (thorough) over 19 module-dict, builtins and read operations are '
              'explored breadth-first with canonical-state dedup on the real compiled module (per-call-site static caches) and '
              'compared step by step with CPython executing the same module source; histories of length <= 2 / <= 3 also run '
              'in children forked from the pristine zygote process.  Builds: default, CYTHON_USE_DICT_VERSIONS=1, '
              'CYTHON_AVOID_BORROWED_REFS=1, Options.cache_builtins=False (+ combinations in thorough).')
LEVEL_NOTE = ('Bounded depth; dedup abstraction (bindings + per-site-group last observation and freshness) audited by a no-dedup '
              'run of a smaller bound in the thorough tier.  Histories longer than the fork depth start from a reset state '
              '(bindings restored by writes that bump the dict version => all site caches invalid) instead of a forked snapshot.  '
              'By design only builtin names that the module itself declares as globals are shadowed through the module '
              'namespace; changes to the builtins module for undeclared names are only checked with Options.cache_builtins=False '
              'and only for reads and for calls of builtins without a C-level mapping; `del` of a missing global (not a lookup) '
              'is not in the alphabet.  Trusted: CPython module semantics as reference.')

HERE = os.path.dirname(os.path.abspath(__file__))
ZYGOTE = os.path.join(HERE, '_g7_zygote.py')
WORLD = os.path.join(HERE, '_g7_c26world.py')

OPCLASS = {'w_sXa': 'mod.X=v', 'w_sXb': 'mod.X=v', 'w_dictXa': 'mod.X=v', 'w_dX': 'del mod.X', 'w_popX': 'del mod.X',
           'c_sXc': 'global X=v', 'c_dX': 'global del X', 'c_str': 'global read+set X', 'w_Z': 'mod.Z=v',
           'w_soct': 'mod.shadow', 'c_soct': 'global shadow', 'w_doct': 'mod.unshadow', 'c_doct': 'global unshadow',
           'b_sX': 'builtins.X=v', 'b_dX': 'del builtins.X', 'b_soct': 'builtins.shadow', 'b_roct': 'builtins.restore',
           'b_sund': 'builtins.undeclared=f', 'b_rund': 'builtins.undeclared restore', 'RA': 'read', 'RB': 'read*'}


def configs(tier):
    c = [('default', (), None, False),
         ('dictver', ('-DCYTHON_USE_DICT_VERSIONS=1',), None, False),
         ('noborrow', ('-DCYTHON_AVOID_BORROWED_REFS=1',), None, False),
         ('nocache', (), {'cache_builtins': False}, True)]
    if tier == 'thorough':
        c += [('dictver+noborrow', ('-DCYTHON_USE_DICT_VERSIONS=1', '-DCYTHON_AVOID_BORROWED_REFS=1'), None, False),
              ('nocache+dictver', ('-DCYTHON_USE_DICT_VERSIONS=1',), {'cache_builtins': False}, True)]
    return c


def build_all(ctx, cfgs):
    jobs = [dict(name='c26_' + n.replace('+', '_'), source=W.MOD_SRC, workdir=ctx.workdir('c26'), ext='.py',
                 cflags=tuple(fl), module_options=mo) for n, fl, mo, nc in cfgs]
    res = farm.build_many(jobs)
    for (n, fl, mo, nc), r in zip(cfgs, res):
        if not r.ok:
            raise RuntimeError('C26 module does not build in config %s: %s %s' % (n, r.stage, r.errors[-2000:]))
    return res


def zygote(cfg, timeout=3000):
    from props import _g7_zygote
    return _g7_zygote.launch(WORLD, cfg, timeout)


def _zy_job(cfg):
    return zygote(cfg)


def opclasses(hist):
    return '/'.join(OPCLASS.get(o, o) for o in hist)


def run(ctx):
    thorough = ctx.tier == 'thorough'
    depth = 8 if thorough else 6
    cfgs = configs(ctx.tier)
    builds = build_all(ctx, cfgs)
    reach = {}
    for (n, fl, mo, nc), b in zip(cfgs, builds):
        t = b.c_text()
        reach[n] = {'__Pyx_GetModuleGlobalName': '__Pyx_GetModuleGlobalName' in t,
                    '__pyx_dict_cached_value': '__pyx_dict_cached_value' in t,
                    '__Pyx_GetBuiltinName': '__Pyx_GetBuiltinName' in t}
    width = 64
    zc = []
    for (n, fl, mo, nc), b in zip(cfgs, builds):
        zc.append({'so': b.so, 'modname': b.name, 'depth': depth, 'dedup': True, 'width': width,
                   'fork_depth': int(os.environ.get('VERIF_FORKDEPTH', 3 if thorough else 2)), 'progress': os.path.join(os.path.dirname(b.so), 'progress.json'),
                   'thorough': thorough, 'nocache': nc, 'config': n})
    ctx.log('%d configurations, depth %d' % (len(cfgs), depth))
    results = farm.pmap(_zy_job, zc)
    cov = {'states': 0, 'transitions': 0, 'traces_validated_against_impl': 0, 'dedup_hits': 0, 'forks': 0,
           'per_config': {}, 'max_depth': 0, 'depth_bound': depth, 'reach': reach,
           'alphabet': W.WRITES + (W.WRITES_T if thorough else []) + W.READS + ['(nocache) ' + o for o in W.WRITES_U]}
    raw = {}      # (opclasses, divclass) -> {config: history}
    outcomes = 0
    for z, r in zip(zc, results):
        n = z['config']
        if 'zygote_crash' in r:
            ctx.violation('%s|%s|crash' % (n, opclasses(r['history'] or [])),
                          'compiled module killed the exploring process (signal %s) while replaying %s' % (r['zygote_crash'], r['history']),
                          {'config': n, 'history': r['history'] or []})
            cov['exhaustive'] = False
            continue
        if 'fatal' in r:
            ctx.violation('%s|init|crash' % n, 'module cannot be loaded / initial state fails: %r' % (r['fatal'],),
                          {'config': n, 'history': []})
            continue
        for e in r['errors'][:3]:
            ctx.violation('harness-error', 'replay raised in the harness: %s' % e['error'][-400:], {'config': n, 'history': e['history']})
        cov['states'] += r['states']; cov['transitions'] += r['transitions']; cov['forks'] += r['forks']
        cov['traces_validated_against_impl'] += r['transitions']
        cov['dedup_hits'] += r['dedup_hits']; cov['max_depth'] = max(cov['max_depth'], r['max_depth'])
        cov['per_config'][n] = {k: r[k] for k in ('states', 'transitions', 'dedup_hits', 'distinct_outcomes', 'per_level', 'wall', 'pristine_histories')}
        outcomes = max(outcomes, r['distinct_outcomes'])
        if r.get('capped'):
            cov['exhaustive'] = False
        for v in r['violations']:
            dc = v['div'] if isinstance(v['div'], str) else W.div_class(tuple(v['div']))
            raw.setdefault((opclasses(v['history']), dc), {}).setdefault(n, v)
        if n == 'dictver':
            cov['samples'] = r['samples']
    cov['distinct_step_outcomes'] = outcomes
    cov.setdefault('samples', [{'history': ['w_sXa', 'RA', 'w_dX', 'RA', 'b_sX', 'RA']}])
    if not cov['samples']:
        cov['samples'] = [{'history': ['w_sXa', 'RA', 'w_dX', 'RA', 'b_sX', 'RA']}]
    cov['raw_divergence_classes'] = len(raw)
    report(ctx, zc, raw)
    assumptions = ['histories longer than the bound are covered only through the canonical-state abstraction',
                   'builtin names not declared in the module are bound at compile time by design (not shadowed through the module)']
    if thorough:
        # dedup audit: same bound with and without dedup must agree on verdicts and on the set of step outcomes
        ad = 5
        a1 = farm.pmap(_zy_job, [dict(z, depth=ad, dedup=True, fork_depth=1) for z in zc])
        a2 = farm.pmap(_zy_job, [dict(z, depth=ad, dedup=False, fork_depth=1) for z in zc])
        agree = all(bool(x.get('violations')) == bool(y.get('violations')) and x.get('outcome_digest') == y.get('outcome_digest')
                    for x, y in zip(a1, a2))
        cov['dedup_audit'] = {'depth': ad, 'transitions_dedup': sum(x.get('transitions', 0) for x in a1),
                              'transitions_nodedup': sum(y.get('transitions', 0) for y in a2), 'agree': agree}
        cov['transitions'] += sum(y.get('transitions', 0) for y in a2)
        cov['traces_validated_against_impl'] += sum(y.get('transitions', 0) for y in a2)
        if not agree:
            ctx.violation('dedup-audit', 'dedup and no-dedup exploration disagree at depth %d' % ad, {'audit': True})
    return cov, assumptions


def report(ctx, zc, raw):
    """Root keys: one per (divergence class, class of the last write before the divergent step); the shortest raw
    history of each group (BFS order => minimal length) is delta-minimised in one zygote call per configuration."""
    byname = {z['config']: z for z in zc}
    allcfg = sorted(byname)
    groups = {}
    for (oc, dc), percfg in raw.items():
        ops = oc.split('/')
        writes = [o for o in ops[:-1] if not o.startswith('read')]
        g = (dc, writes[-1] if writes else '-')
        cur = groups.get(g)
        cfgset = set(percfg)
        if cur is None:
            groups[g] = [len(ops), oc, percfg, cfgset]
        else:
            cur[3] |= cfgset
            if (len(ops), oc) < (cur[0], cur[1]):
                cur[0], cur[1], cur[2] = len(ops), oc, percfg
    todo = {}
    for g, (n, oc, percfg, cfgset) in sorted(groups.items()):
        cfgname = sorted(percfg)[0]
        todo.setdefault(cfgname, []).append((g, percfg[cfgname], cfgset))
    for cfgname, items in todo.items():
        items = items[:60]
        hists = [v['history'] for g, v, cs in items]
        try:
            mins = zygote(dict(byname[cfgname], mode='minimise', items=[[v['history'], g[0]] for g, v, cs in items]))['minimised']
        except Exception as e:
            ctx.log('minimise failed: %s' % e)
            mins = hists
        for (g, v, cs), mh in zip(items, mins):
            cset = 'all' if sorted(cs) == allcfg else '+'.join(sorted(cs))
            key = '%s|%s|%s' % (cset, opclasses(mh), g[0])
            ctx.violation(key, 'config %s history %s: %s' % (cfgname, mh, str(v.get('div'))[:700]),
                          {'config': cfgname, 'history': list(mh), 'div': v.get('div'), 'configs': sorted(cs)})


def replay(ctx, case):
    if case.get('audit'):
        return 'dedup audit disagreement (re-run the thorough tier)'
    cfgs = [c for c in configs('thorough') if c[0] == case['config']]
    b = build_all(ctx, cfgs)[0]
    r = zygote({'so': b.so, 'modname': b.name, 'mode': 'replay', 'history': case['history'], 'thorough': True,
                'nocache': cfgs[0][3], 'config': case['config']})['replay']
    if 'crash' in r:
        return 'crash (signal %s) on history %s' % (r['crash'], case['history'])
    if r.get('error'):
        return 'harness error: %s' % r['error']
    if r.get('div') is None:
        return False
    return 'history %s in config %s: step %s: CPython %r, compiled %r' % (case['history'], case['config'], r['div'][1], r['div'][2], r['div'][3])
