"""C14 - optimised loops iterate exactly like Python loops.

Three complete families, each compiled (pure-Python-mode .py) and compared with CPython executing the
identical source; every loop logs each visited value, the else clause, and the final loop variable
through vlib.support.L, and carries an iteration cap (`n > 20 -> log CAP, break`) that CPython never
reaches, so that a non-terminating C loop is a log mismatch instead of a hang.

 A  range():  all (start, stop, step) in V^3, V = {-3..3, 10} (non-negative subset for unsigned targets),
    step = 0 included (ValueError), 1/2/3-argument forms, plain and reversed(range(...)), in three
    static shapes - all literals, literal step with run-time bounds (C typed like the target, or
    Python objects), all run-time - for loop targets typed (untyped, int, unsigned int, long long,
    Py_ssize_t, char, short); plus ranges whose start/stop/values lie within 3 of the target type's
    MIN/MAX for steps +-1, +-2, +-3.
 B  loop bodies: for each of ~40 loop kinds (range shapes, list/tuple typed+untyped, reversed, enumerate
    with/without start, str/bytes/bytearray typed+untyped incl. Py_UCS4 targets, dict plain/.keys()/
    .values()/.items() typed+untyped, set/frozenset, C arrays and C array slices) every sequence without
    repetition of <= 2 (quick: 5 main kinds, <= 1 others) / <= 3 (thorough: main kinds, <= 2 others) actions from the kind's alphabet
    {continue-if, break-if, reassign loop variable, raise, rebind the iterable name, container
    mutations (append/pop/insert/setitem/clear, add key/replace value/delete key/swap key, add/discard)}
    run on containers of several sizes; else clause logs; the function returns the final loop
    variable and the container (UnboundLocalError when the variable was never bound).
 C  C arrays (.pyx source, reference = same loop over a list).
"""
import itertools, os, re
from vlib import e2, support
from props import _g5_common as g5
from props._g5_common import Prod

LEVEL = 'exploration'
ENGINE = 'E2 diffexplore'
TECHNIQUE = 'exhaustive product of range triples x static shapes x target types, and of loop kinds x action sequences x containers; ordered side-effect log compared with CPython on identical source'
LEVEL_TEXT = ('All range(start, stop, step) triples over {-3..3,10}^3 (incl. step 0) in literal / literal-step / run-time '
              'shapes, plain and reversed, for 7 loop-target typings, plus ranges within 3 of the target type bounds; and '
              'for ~40 loop kinds (range, list, tuple, reversed, enumerate, str, bytes, bytearray, dict views, set, C array) '
              'every repetition-free sequence of <= 2 (quick: 5 main kinds, others <= 1) / <= 3 (thorough: 4 main kinds, others <= 2) body actions (continue, break, reassign, '
              'raise, rebind, container mutations) on containers of several sizes.  The ordered log of visited values, '
              'else-clause execution, final loop variable, mutated container and exception type must equal CPython on '
              'the same source.')
LEVEL_NOTE = ('Quick tier: literal range shapes over the 6-value grid {-3,-1,0,2,3,10}^2 x all steps, near-bound steps +-1/+-2; '
              'thorough: the full {-3..3,10}^3 and +-3.  C-typed loop targets are pre-initialised (an unbound C variable is not an error in C); unsigned targets only '
              'receive non-negative bounds; typed targets only receive values representable in the type.  Iteration cap 20 '
              'per loop in both runs.  C arrays use a .pyx source with a list-based reference.  Trusted: CPython 3.12, gcc.')

REACH = ['__Pyx_dict_iterator', '__Pyx_dict_iter_next', '__Pyx_set_iterator', '__Pyx_set_iter_next',
         '__Pyx_PyList_GET_SIZE', '__Pyx_init_unicode_iteration', '__Pyx_PyUnicode_READ', '__Pyx_PyBytes_AsString',
         '__Pyx_PyObject_GetIter', 'PyExc_RuntimeError']

V = [-3, -2, -1, 0, 1, 2, 3, 10]
VU = [0, 1, 2, 3, 10]
TYPES = {   # name -> (annotation or None, values, min, max)
    'obj': (None, V, None, None),
    'int': ('cython.int', V, -2 ** 31, 2 ** 31 - 1),
    'uint': ('cython.uint', VU, 0, 2 ** 32 - 1),
    'longlong': ('cython.longlong', V, -2 ** 63, 2 ** 63 - 1),
    'ssize_t': ('cython.Py_ssize_t', V, -2 ** 63, 2 ** 63 - 1),
    'char': ('cython.schar', V, -128, 127),
    'short': ('cython.short', V, -2 ** 15, 2 ** 15 - 1),
}
CAP = 20


class Builder:
    def __init__(self):
        self.parts = []
        self.sets = {}
        self.n = 0

    def add(self, params, body, tag, inputs, setname):
        name = 'f%d' % self.n
        self.n += 1
        if setname in self.sets:
            assert len(self.sets[setname]) == len(inputs), setname
        self.sets[setname] = inputs
        self.parts.append(e2.Part('def %s(%s):\n%s\n' % (name, params, body), [e2.Func(name, tag, setname)]))


def _loop(indent, target_init, header, label):
    """One guarded, logging loop.  Logging goes to the local list `out` (returned by the function): visited
    values, 'e' when the else clause ran, ('f', final value); 'CAP' if the iteration cap was hit."""
    p = ' ' * indent
    s = ''
    if label is not None:
        s += p + 'out.append(%r)\n' % (label,)
    s += p + 'n = 0\n'
    if target_init:
        s += p + target_init + '\n'
    s += p + header + '\n'
    s += p + '    n += 1\n'
    s += p + '    if n > %d:\n' % CAP
    s += p + "        out.append('CAP')\n"
    s += p + '        break\n'
    s += p + '    out.append(i)\n'
    s += p + 'else:\n'
    s += p + "    out.append('e')\n"
    s += p + "out.append(('f', i))\n"
    return s


def _range_expr(args, rev):
    r = 'range(%s)' % ', '.join(str(a) for a in args)
    return 'reversed(%s)' % r if rev else r


def family_range(tier):
    quick = tier == 'quick'
    b = Builder()
    types = ['obj', 'int', 'uint', 'char'] if quick else list(TYPES)
    for tname in types:
        ann, vals, lo, hi = TYPES[tname]
        decl = '    n: cython.int\n    out: list = []\n' + (('    i: %s\n' % ann) if ann else '')
        init = 'i = %s' % ('-99' if tname != 'uint' else '99')
        steps = [s for s in V if s != 0]
        for rev in (False, True):
            rv = 'rev' if rev else 'fwd'
            # ---- all literal: one function per step holding the loops for every (start, stop)
            for step in steps + [None, 'one']:
                if quick and (tname == 'char' or (rev and step in (3, -3, 10))):
                    continue           # quick: literal shapes for untyped/int/unsigned targets only
                body = decl
                lvals = [v for v in vals if v in (-3, -1, 0, 2, 3, 10)] if quick else vals     # quick: 6-value literal grid
                for a, c in itertools.product(lvals, lvals):
                    if step == 'one':
                        if a != lvals[0]:
                            continue
                        args = (c,)
                    elif step is None:
                        args = (a, c)
                    else:
                        args = (a, c, step)
                    body += _loop(4, init, 'for i in %s:' % _range_expr(args, rev), repr(args))
                body += '    return out'
                b.add('', body, 'range-lit/%s/%s/step=%s' % (rv, tname, step), [()], 'none')
            # ---- literal step 0: ValueError, one loop per function
            for a, c in ((0, 0), (0, 3), (3, 0)):
                b.add('', decl + _loop(4, init, 'for i in %s:' % _range_expr((a, c, 0), rev), None) + '    return out',
                      'range-lit/%s/%s/step=0' % (rv, tname), [()], 'none')
            # ---- literal step, run-time bounds (objects, or C typed like the target)
            vexpr = [repr(v) for v in vals]
            for btype in (['objb', 'cb'] if ann else ['objb']):
                if quick and btype == 'cb' and tname in ('char',):
                    continue
                pa = ('a: %s, b: %s' % (ann, ann)) if btype == 'cb' else 'a, b'
                for step in steps + [None, 'one']:
                    if quick and rev and step in (3, -3, 10):
                        continue
                    if step == 'one':
                        args, ins, sn = ('b',), Prod(['0'], vexpr), 'ab1_%s' % tname
                    elif step is None:
                        args, ins, sn = ('a', 'b'), Prod(vexpr, vexpr), 'ab_%s' % tname
                    else:
                        args, ins, sn = ('a', 'b', step), Prod(vexpr, vexpr), 'ab_%s' % tname
                    b.add(pa, decl + _loop(4, init, 'for i in %s:' % _range_expr(args, rev), None) + '    return out',
                          'range-var/%s/%s/%s/step=%s' % (rv, tname, btype, step), ins, sn)
                # ---- all run-time (incl. step 0)
                pc = pa + (', c: %s' % ann if btype == 'cb' else ', c')
                cvals = vexpr if tname != 'uint' or btype == 'objb' else vexpr
                if tname == 'uint' and btype == 'cb':
                    continue           # a negative step cannot be passed in an unsigned parameter
                steps_rt = [repr(v) for v in V]
                b.add(pc, decl + _loop(4, init, 'for i in %s:' % _range_expr(('a', 'b', 'c'), rev), None) + '    return out',
                      'range-rt/%s/%s/%s' % (rv, tname, btype), Prod(vexpr, vexpr, steps_rt), 'abc_%s' % tname)
    # ---- ranges near the bounds of the target type (all of start, stop and the values are representable)
    for tname in ['char', 'short', 'int', 'uint'] + ([] if quick else ['longlong', 'ssize_t']):
        ann, vals, lo, hi = TYPES[tname]
        decl = '    n: cython.int\n    out: list = []\n    i: %s\n' % ann
        init = 'i = 5'
        near_hi = [repr(hi - k) for k in (3, 2, 1, 0)]
        near_lo = [repr(lo + k) for k in (0, 1, 2, 3)]
        for rev in (False, True):
            rv = 'rev' if rev else 'fwd'
            for step in ((1, 2, -1, -2) if quick else (1, 2, 3, -1, -2, -3)):
                for zone, vs in (('max', near_hi), ('min', near_lo)):
                    b.add('a, b', decl + _loop(4, init, 'for i in %s:' % _range_expr(('a', 'b', step), rev), None) + '    return out',
                          'range-bound/%s/%s/objb/%s/step=%d' % (rv, tname, zone, step), Prod(vs, vs), 'nb_%s_%s' % (tname, zone))
                    b.add('a: %s, b: %s' % (ann, ann),
                          decl + _loop(4, init, 'for i in %s:' % _range_expr(('a', 'b', step), rev), None) + '    return out',
                          'range-bound/%s/%s/cb/%s/step=%d' % (rv, tname, zone, step), Prod(vs, vs), 'nb_%s_%s' % (tname, zone))
                    # literal bounds
                    if quick and rev:
                        continue
                    body = decl
                    for a, c in itertools.product(vs, vs):
                        body += _loop(4, init, 'for i in %s:' % _range_expr((a, c, step), rev), '(%s, %s, %d)' % (a, c, step))
                    b.add('', body + '    return out', 'range-bound/%s/%s/lit/%s/step=%d' % (rv, tname, zone, step), [()], 'none')
    return b


# ----------------------------------------------------------------------------- family B: loop kinds x action sequences
GEN = {
    'cont': "if n == 2:\n    L('c')\n    continue",
    'brk': "if n == 3:\n    L('b')\n    break",
    'raise': "if n == 2:\n    raise ValueError(n)",
}
LISTS = ['[]', '[1]', '[1, 2, 3, 4]', "['a', None, 2.5]"]
LIST_MUTS = {
    'append': 'if n <= 2:\n    x.append(90 + n)',
    'pop': 'if n == 1 and x:\n    x.pop()',
    'ins0': 'if n == 2:\n    x.insert(0, 80)',
    'seti': 'if n == 1 and len(x) > 1:\n    x[1] = 60',
    'clear': 'if n == 2:\n    x.clear()',
}
DICTS = ['{}', '{1: 10}', '{1: 10, 2: 20, 3: 30}', "{'a': 1, 'b': 2, 'c': 3, 'd': 4, 'e': 5}"]
SETS = ['set()', '{1}', '{1, 2, 3}', "{'a', 'b', 'c', 'd'}"]
STRS = ["''", "'a'", "'abc'", "'a' + chr(0xe9) + 'b'", "chr(0x20ac) + 'xy'", "'a' + chr(0x1f600) + chr(0xe9)",
        "chr(0xdc80) + 'z'", "'a\\x00b'"]
BYTES = ["b''", "b'a'", "b'abc\\xff\\x00'"]


def kinds(tier):
    """name -> dict(params, pre, header, tgt, letters{name: stmt}, inputs, setname, ret, main)"""
    K = {}

    def kind(name, params, header, tgt, inputs, setname, pre='', reas=None, rebind=None, muts=None, ret=None, main=False):
        letters = dict(GEN)
        if reas:
            letters['reas'] = reas
        if rebind:
            letters['rebind'] = 'if n == 1:\n    ' + rebind
        letters.update(muts or {})
        K[name] = dict(params=params, pre=pre, header=header, tgt=tgt, letters=letters, inputs=inputs, setname=setname,
                       ret=ret or tgt, main=main)

    ab = [('0', '0'), ('0', '1'), ('0', '5'), ('3', '0'), ('-2', '3'), ('5', '0'), ('3', '-3')]
    rng_muts = {'bump': 'if n <= 2:\n    b += 1', 'low': 'if n <= 2:\n    a += 1'}
    kind('range-lit/obj', '', 'for i in range(1, 6):', 'i', [()], 'none', reas="i = 'R'", main=True)
    kind('range-lit/int', '', 'for i in range(1, 6):', 'i', [()], 'none', pre='i: cython.int = -99', reas='i = i + 10')
    kind('range-lit-neg/obj', '', 'for i in range(5, 0, -2):', 'i', [()], 'none', reas="i = 'R'")
    kind('range-var/int/objb', 'a, b', 'for i in range(a, b):', 'i', ab, 'ab', pre='i: cython.int = -99', reas='i = i + 10',
         rebind='b = a', muts=rng_muts, main=True)
    kind('range-var/int/cb', 'a: cython.int, b: cython.int', 'for i in range(a, b):', 'i', ab, 'ab', pre='i: cython.int = -99',
         reas='i = i + 10', rebind='b = a', muts=rng_muts, main=True)
    kind('range-var/infer/cb', 'a: cython.int, b: cython.int', 'for i in range(a, b):', 'i', ab, 'ab', pre='i = -99', reas='i = i + 10',
         rebind='b = a', muts=rng_muts)
    kind('range-var2/ssize_t/cb', 'a: cython.Py_ssize_t, b: cython.Py_ssize_t', 'for i in range(a, b, 2):', 'i', ab, 'ab',
         pre='i: cython.Py_ssize_t = -99', reas='i = i + 10', rebind='b = a', muts=rng_muts)
    kind('range-varneg/int/objb', 'a, b', 'for i in range(a, b, -1):', 'i', ab, 'ab', pre='i: cython.int = -99',
         reas='i = i - 10', rebind='b = a', muts=rng_muts)
    kind('revrange/int/objb', 'a, b', 'for i in reversed(range(a, b)):', 'i', ab, 'ab', pre='i: cython.int = -99',
         reas='i = i + 10', rebind='b = a', muts=rng_muts, main=True)
    kind('revrange2/int/cb', 'a: cython.int, b: cython.int', 'for i in reversed(range(a, b, 2)):', 'i', ab, 'ab',
         pre='i: cython.int = -99', reas='i = i + 10', rebind='b = a', muts=rng_muts)
    lists = [(e,) for e in LISTS]
    kind('list/typed', 'x: list', 'for v in x:', 'v', lists, 'lists', reas="v = 'R'", rebind='x = [70, 71]', muts=LIST_MUTS,
         ret='(v, x)', main=True)
    kind('list/obj', 'x', 'for v in x:', 'v', lists, 'lists', reas="v = 'R'", rebind='x = [70, 71]', muts=LIST_MUTS, ret='(v, x)',
         main=True)
    kind('tuple/typed', 'x: tuple', 'for v in x:', 'v', [('tuple(%s)' % e,) for e in LISTS], 'tuples', reas="v = 'R'",
         rebind='x = (70, 71)')
    kind('revlist/typed', 'x: list', 'for v in reversed(x):', 'v', lists, 'lists', reas="v = 'R'", rebind='x = [70, 71]',
         muts=LIST_MUTS, ret='(v, x)', main=True)
    kind('revtuple/typed', 'x: tuple', 'for v in reversed(x):', 'v', [('tuple(%s)' % e,) for e in LISTS], 'tuples', reas="v = 'R'",
         rebind='x = (70, 71)')
    kind('enum/list/typed-k', 'x: list', 'for k, v in enumerate(x):', '(k, v)', lists, 'lists', pre='k: cython.int = -99\nv = None',
         reas='k = k + 10', rebind='x = [70, 71]', muts=LIST_MUTS, ret='(k, v, x)', main=True)
    kind('enum/list/obj-k', 'x: list', 'for k, v in enumerate(x):', '(k, v)', lists, 'lists', reas="k = 'R'", rebind='x = [70, 71]',
         muts=LIST_MUTS, ret='(k, v, x)')
    starts = ['0', '5', '-1', '2**62', '2**63 - 1', 'True', 'IntSub(3)', 'IndexOnly(4)', '1.5', 'None']
    kind('enum-start/obj', 'x, s', 'for k, v in enumerate(x, s):', '(k, v)', [(l, s) for l in LISTS[:3] for s in starts], 'lists_s',
         reas="k = 'R'", rebind='x = [70, 71]', muts={k: LIST_MUTS[k] for k in ('append', 'pop')}, ret='(k, v, x)')
    kind('enum-start/lit', 'x', 'for k, v in enumerate(x, 5):', '(k, v)', lists, 'lists', pre='k: cython.long = -99\nv = None',
         reas='k = k + 10', rebind='x = [70, 71]', ret='(k, v, x)')
    kind('enum/str', 's: str', 'for k, c in enumerate(s):', '(k, c)', [(e,) for e in STRS], 'strs', pre="k = -1\nc = 'q'", reas="c = 'R'", rebind="s = 'zz'")
    strs = [(e,) for e in STRS]
    kind('str/typed', 's: str', 'for c in s:', 'c', strs, 'strs', pre="c = 'q'", reas="c = 'R'", rebind="s = 'zz'", main=True)
    kind('str/typed/ucs4', 's: str', 'for c in s:', 'c', strs, 'strs', pre="c: cython.Py_UCS4 = 'q'", reas="c = 'R'", rebind="s = 'zz'")
    kind('str/obj', 's', 'for c in s:', 'c', strs, 'strs', reas="c = 'R'", rebind="s = 'zz'")
    kind('revstr/typed', 's: str', 'for c in reversed(s):', 'c', strs, 'strs', pre="c = 'q'", reas="c = 'R'", rebind="s = 'zz'")
    byts = [(e,) for e in BYTES]
    kind('bytes/typed', 'x: bytes', 'for c in x:', 'c', byts, 'bytes', pre='c = 7', reas='c = 100', rebind="x = b'zz'", main=True)
    kind('bytes/typed/uchar', 'x: bytes', 'for c in x:', 'c', byts, 'bytes', pre='c: cython.uchar = 7', reas='c = 9', rebind="x = b'zz'")
    kind('revbytes/typed', 'x: bytes', 'for c in reversed(x):', 'c', byts, 'bytes', pre='c = 7', reas='c = 100', rebind="x = b'zz'")
    ba_muts = {'append': 'if n <= 2:\n    x.append(90 + n)', 'pop': 'if n == 1 and x:\n    x.pop()', 'clear': 'if n == 2:\n    x.clear()',
               'seti': 'if n == 1 and len(x) > 1:\n    x[1] = 60'}
    kind('bytearray/typed', 'x: bytearray', 'for c in x:', 'c', [('bytearray(%s)' % e,) for e in BYTES], 'bas', pre='c = 7', reas='c = 100',
         rebind="x = bytearray(b'zz')", muts=ba_muts, ret='(c, x)', main=True)
    kind('revbytearray/typed', 'x: bytearray', 'for c in reversed(x):', 'c', [('bytearray(%s)' % e,) for e in BYTES], 'bas',
         pre='c = 7', reas='c = 100', rebind="x = bytearray(b'zz')", muts=ba_muts, ret='(c, x)')
    # dicts
    dicts = [(e,) for e in DICTS]
    dmut_k = {'add': 'if n == 1:\n    d[90] = 1', 'setv': 'if n == 1:\n    d[k] = 55', 'delk': 'if n == 1:\n    del d[k]',
              'swap': 'if n == 1:\n    del d[k]\n    d[91] = 1', 'clear': 'if n == 2:\n    d.clear()',
              'popadd': 'if n == 2:\n    d.pop(k)\n    d[k] = 77'}
    dmut_v = {'add': 'if n == 1:\n    d[90] = 1', 'clear': 'if n == 2:\n    d.clear()',
              'popitem': 'if n == 1:\n    d.popitem()'}
    for recv, decl in (('typed', 'd: dict'), ('obj', 'd')):
        extra = [] if recv == 'typed' else [('OrderedDict([(1, 10), (2, 20), (3, 30)])',), ('DictSub({1: 10, 2: 20})',),
                                            ('ItemsObj([(1, 10), (2, 20)])',), ('None',)]
        sn = 'dicts_' + recv
        if recv == 'typed':
            kind('dict/plain/' + recv, decl, 'for k in d:', 'k', dicts + extra, sn, reas="k = 'R'", rebind='d = {7: 8}', muts=dmut_k,
                 ret='(k, d)', main=True)
        kind('dict/keys/' + recv, decl, 'for k in d.keys():', 'k', dicts + extra, sn, reas="k = 'R'", rebind='d = {7: 8}', muts=dmut_k,
             ret='(k, d)', main=(recv == 'obj'))
        kind('dict/values/' + recv, decl, 'for v in d.values():', 'v', dicts + extra, sn, reas="v = 'R'", rebind='d = {7: 8}',
             muts=dmut_v, ret='(v, d)')
        kind('dict/items/' + recv, decl, 'for k, v in d.items():', '(k, v)', dicts + extra, sn, reas="k = 'R'", rebind='d = {7: 8}',
             muts=dmut_k, ret='(k, v, d)', main=True)
    kind('dict/items/typed-v', 'd: dict', 'for k, v in d.items():', '(k, v)', [('{1: 10, 2: 20}',), ('{}',), ('{1: -2**40}',)],
         'dicts_tv', pre='v: cython.long = -5\nk = None', reas='v = v + 1', ret='(k, v, d)')
    # sets
    smut = {'add': 'if n == 1:\n    x.add(90)', 'discard': 'if n == 1:\n    x.discard(v)', 'swap': 'if n == 1:\n    x.discard(v)\n    x.add(91)',
            'clear': 'if n == 2:\n    x.clear()'}
    kind('set/typed', 'x: set', 'for v in x:', 'v', [(e,) for e in SETS], 'sets', reas="v = 'R'", rebind='x = {70}', muts=smut,
         ret='(v, x)', main=True)
    kind('set/obj', 'x', 'for v in x:', 'v', [(e,) for e in SETS], 'sets', reas="v = 'R'", rebind='x = {70}', muts=smut, ret='(v, x)')
    kind('frozenset/typed', 'x: frozenset', 'for v in x:', 'v', [('frozenset(%s)' % e,) for e in SETS], 'fsets', reas="v = 'R'",
         rebind='x = frozenset({70})')
    return K


def body_source(k, seq):
    lines = []
    for l in (k['pre'] or '').split('\n'):
        if l:
            lines.append('    ' + l)
    lines += ['    n = 0', '    ' + k['header'], '        n += 1', '        if n > %d:' % CAP, "            L('CAP')", '            break',
              "        L('v', %s)" % k['tgt']]
    for name in seq:
        for l in k['letters'][name].split('\n'):
            lines.append('        ' + l)
    lines += ["        L('post', %s)" % k['tgt'], '    else:', "        L('else')", '    return %s' % k['ret']]
    return '\n'.join(lines)


def family_bodies(tier):
    quick = tier == 'quick'
    b = Builder()
    for name, k in kinds(tier).items():
        letters = sorted(k['letters'])
        qmain = name in ('range-var/int/cb', 'list/typed', 'dict/items/typed', 'dict/plain/typed', 'set/typed')
        tmain = name in ('range-var/int/cb', 'list/typed', 'dict/items/typed', 'set/typed')
        depth = (2 if qmain else 1) if quick else (3 if tmain else 2)
        for d in range(depth + 1):
            for seq in itertools.permutations(letters, d):
                b.add(k['params'], body_source(k, seq), 'body/%s/%s' % (name, '+'.join(seq) or '-'), k['inputs'], k['setname'])
    return b


# ----------------------------------------------------------------------------- family C: C arrays (.pyx)
CARRAY_PYX = '''
def arr_full(x):
    cdef int a[5]
    cdef int k, v = -7
    for k in range(5):
        a[k] = x[k]
    for v in a:
        L('v', v)
    else:
        L('else')
    return v
def arr_slice(x, Py_ssize_t lo, Py_ssize_t hi):
    cdef int a[5]
    cdef int k, v = -7
    for k in range(5):
        a[k] = x[k]
    for v in a[lo:hi]:
        L('v', v)
        if v == 13:
            L('c')
            continue
        if v == 14:
            break
        L('post', v)
    else:
        L('else')
    return v
def arr_ptr(x, Py_ssize_t n):
    cdef int a[5]
    cdef int *p = a
    cdef int k, v = -7
    for k in range(5):
        a[k] = x[k]
    for v in p[:n]:
        L('v', v)
    else:
        L('else')
    return v
def arr_rev(x):
    cdef int a[5]
    cdef int k, v = -7
    for k in range(5):
        a[k] = x[k]
    for v in reversed(a):
        L('v', v)
    else:
        L('else')
    return v
def arr_enum(x):
    cdef int a[5]
    cdef int k, v = -7
    cdef int j = -1
    for k in range(5):
        a[k] = x[k]
    for j, v in enumerate(a):
        L('v', (j, v))
        a[4] = 99
    return j, v
def arr_lit():
    cdef int v = -7
    for v in [3, 1, 2]:
        L('v', v)
    else:
        L('else')
    for c in 'abc':
        L('c', c)
    for d in b'xy':
        L('d', d)
    return v
'''
CARRAY_REF = '''
def arr_full(x):
    a = list(x[:5]); v = -7
    for v in a:
        L('v', v)
    else:
        L('else')
    return v
def arr_slice(x, lo, hi):
    a = list(x[:5]); v = -7
    for v in a[lo:hi]:
        L('v', v)
        if v == 13:
            L('c')
            continue
        if v == 14:
            break
        L('post', v)
    else:
        L('else')
    return v
def arr_ptr(x, n):
    a = list(x[:5]); v = -7
    for v in a[:n]:
        L('v', v)
    else:
        L('else')
    return v
def arr_rev(x):
    a = list(x[:5]); v = -7
    for v in reversed(a):
        L('v', v)
    else:
        L('else')
    return v
def arr_enum(x):
    a = list(x[:5]); v = -7; j = -1
    for j, v in enumerate(a):
        L('v', (j, v))
        a[4] = 99
    return j, v
def arr_lit():
    v = -7
    for v in [3, 1, 2]:
        L('v', v)
    else:
        L('else')
    for c in 'abc':
        L('c', c)
    for d in b'xy':
        L('d', d)
    return v
'''


def carray_mod():
    pre = 'from vlib.support import L\n'
    xs = ['[10, 11, 12, 13, 14]', '[14, 13, 12, 11, 10]']
    bnd = [repr(v) for v in range(0, 6)]       # C array slices: 0 <= lo, hi <= 5 (no bounds checks in C)
    funcs = [('arr_full', 'x'), ('arr_slice', 'xlh'), ('arr_ptr', 'xn'), ('arr_rev', 'x'), ('arr_enum', 'x'), ('arr_lit', 'none')]
    parts = [e2.Part(CARRAY_PYX, [e2.Func(n, 'carray/' + n, s) for n, s in funcs])]
    sets = {'x': Prod(xs), 'xlh': [(x, l, h) for x in xs for l in bnd for h in bnd if l <= h], 'xn': Prod(xs, bnd), 'none': [()]}
    return e2.Mod('c14arr', pre, parts, sets, ext='.pyx', ref=('exec', pre + CARRAY_REF), use_log=True)


# ----------------------------------------------------------------------------- keys
def _first_diff(a, b):
    k = 0
    while k < len(a) and k < len(b) and a[k] == b[k]:
        k += 1
    return k


def _elem_class(seq, k):
    if k >= len(seq):
        return 'END'
    x = seq[k]
    if isinstance(x, tuple) and len(x) == 2 and isinstance(x[1], str):      # canon of a scalar: (type, repr)
        r = x[1]
        return 'else' if r == "'e'" else 'CAP' if r == "'CAP'" else 'value' if x[0] in ('int', 'str', 'float') else x[0]
    if isinstance(x, tuple) and x and x[0] == 'tuple':
        return 'final'
    return str(x[0]) if isinstance(x, tuple) and x else 'item'


def keyfn(tag, inp, exp, got):
    """family/kind (range: direction/target type/bound typing/step sign; body: loop kind + the action set) | class of
    the first point where the logs diverge (or `no-termination` when the iteration cap was hit) | divergence class"""
    div = e2.divclass(exp, got)
    where = ''
    try:
        if exp[0] == 'ok' and got[0] == 'ok' and exp[1][0] == 'list' and got[1][0] == 'list' and tag.startswith('range'):
            le, lg = exp[1][1], got[1][1]
            k = _first_diff(le, lg)
            where = 'out:%s->%s' % (_elem_class(le, k), _elem_class(lg, k))
            if any(x == ('str', "'CAP'") for x in lg):
                where = 'no-termination'
        elif len(exp) > 2 and len(got) > 2 and exp[-1] != got[-1]:
            le, lg = exp[-1], got[-1]
            k = _first_diff(le, lg)
            where = 'log:%s->%s' % (le[k][0] if k < len(le) else 'END', lg[k][0] if k < len(lg) else 'END')
            if any(x[0] == 'CAP' for x in lg):
                where = 'no-termination'
    except Exception:
        where = '?'
    parts = tag.split('/')
    if parts[0] == 'body':
        # loop kind without the action sequence (a root cause shows with many action sets); dict/set views collapse
        kindname = '/'.join(parts[1:-1])
        if kindname.startswith(('dict', 'set', 'frozenset')):
            acts = set(parts[-1].split('+'))
            same = acts & {'swap', 'popadd'} or {'add', 'delk'} <= acts or {'add', 'discard'} <= acts or {'delk', 'setv'} <= acts
            resize = acts & {'add', 'delk', 'clear', 'popitem', 'discard'}
            cls = 'mutation' if same else 'resize' if resize else 'value-change' if 'setv' in acts else None      # 'mutation' = same-size key change
            if cls:
                kindname = kindname.split('/')[0] + '/' + cls
                where = ''
        tag = 'body/' + kindname
    elif parts[0] == 'range-bound':
        # the loop counter of the target type passes the type bound: direction/typing of the bounds do not matter
        signed = 'unsigned' if parts[2] == 'uint' else 'signed'
        return 'range-bound/%s|%s' % (signed, 'no-termination' if where == 'no-termination' else 'wrong-values')
    tag = re.sub(r'/step=(-?\d+)', lambda m: '/step' + ('<0' if int(m.group(1)) < 0 else '>0' if int(m.group(1)) > 0 else '=0'), tag)
    return '%s|%s|%s' % (tag, where, div)


def build_key(m, r):
    tags = [f.tag for f in m.funcs]
    t = tags[0] if tags else m.name
    if t.startswith('range-bound') and '/lit/' in t:
        return 'build-failure|%s|range-bound/lit' % r.stage
    return 'build-failure|%s|%s' % (r.stage, t)


def make_mods(b, prefix, per):
    prelude = 'import cython\nfrom vlib.support import L\n'
    return [e2.Mod('%s_%d' % (prefix, i // per), prelude, b.parts[i:i + per], b.sets, ext='.py', use_log=True)
            for i in range(0, len(b.parts), per)]


def run(ctx):
    ra = family_range(ctx.tier)
    bo = family_bodies(ctx.tier)
    flt = os.environ.get('VERIF_G5_FILTER')          # development aid only
    if flt:
        ra.parts = [p for p in ra.parts if flt in p.funcs[0].tag]
        bo.parts = [p for p in bo.parts if flt in p.funcs[0].tag]
    lit = Builder()
    lit.sets = ra.sets
    lit.parts = [p for p in ra.parts if '/lit/' in p.funcs[0].tag and p.funcs[0].tag.startswith('range-bound')]
    ra.parts = [p for p in ra.parts if p not in lit.parts]
    mods = make_mods(ra, 'c14r', 25) + make_mods(lit, 'c14l', 12) + make_mods(bo, 'c14b', 60)
    ra.parts = ra.parts + lit.parts
    if not flt or flt in 'carray':
        mods.append(carray_mod())
    ctx.log('%d range functions, %d body functions, %d modules' % (len(ra.parts), len(bo.parts), len(mods)))
    st = g5.run_diff(ctx, mods, keyfn=keyfn, reach=REACH, timeout=600, build_key=build_key)
    loops = sum(p.src.count('\n    for i in ') for p in ra.parts)
    samples = [{'function': bo.parts[len(bo.parts) // 3].src, 'tag': bo.parts[len(bo.parts) // 3].funcs[0].tag},
               {'function': ra.parts[-1].src[:1500], 'tag': ra.parts[-1].funcs[0].tag}] if ra.parts and bo.parts else [{'filter': flt}]
    cov = g5.cov_from(st, 'range family: every (shape, direction, target type, triple); body family: every (loop kind, action '
                      'sequence, container); counted once per distinct (function, reference outcome incl. log) pair', samples,
                      {'range_functions': len(ra.parts), 'body_functions': len(bo.parts), 'literal_range_loops': loops,
                       'loop_kinds': len(kinds(ctx.tier))})
    return cov, ['typed loop targets only receive representable values; unsigned targets only non-negative bounds',
                 'iteration cap %d (never reached by CPython) turns non-termination into a log mismatch' % CAP]


def replay(ctx, case):
    return g5.replay(ctx, case)
