"""C47 - strip_string_literals() is lossless and complete.

Exhaustive enumeration of source texts built from a token alphabet, each run through the real
(staged) Cython.Build.Dependencies.strip_string_literals and judged by two oracles:

 (1) lossless  - substituting every label __Pyx_L<n>_ of the stripped text back (one pass, as the
                 function's users and its own unit test do) reproduces the input exactly;
 (2) complete  - for texts that Python's own tokenizer (tokenize, 3.12: STRING / FSTRING_START /
                 FSTRING_MIDDLE / FSTRING_END / COMMENT with exact positions) accepts, no character that is
                 string *content* (between the quotes, outside f-string replacement fields) or
                 comment text (after the '#') survives in the stripped text.  Kept positions are
                 computed by mapping the stripped text back through the labels.

Families (all complete):
  full-single : every string literal  prefix x quote x body  (prefix in '', r, b, u, f, rb, br, fr, rf, F, R, Rb;
                quote in ' " ''' \"\"\"; 27 bodies: empty, text, other/both/same quotes, escaped quotes, backslash runs before
                the closing quote, newline, '#', braces, replacement fields with conversions / nested specs /
                nested quotes of the other and (3.12) of the same kind / nested f-strings / comments)
                in 5 code contexts;
  full-pairs  : every such literal next to every token of the reduced alphabet (both orders, joined
                with '' and ' ');
  sequences   : ALL sequences of length <= 3 (thorough: <= 4) over the reduced alphabet (~50 tokens:
                plain strings of every quote kind and termination/escape shape, f-strings, comments
                with quotes/braces, code fragments, newline, backslash continuation, adjacent empty
                strings, '''''' and \"\"\"\"\"\"), joined with '' and with ' ';
  truncations : every proper prefix of every sequence text (unterminated literals; lossless only).
"""
import io, itertools, re, tokenize
from vlib import farm

LEVEL = 'model_checking'
ENGINE = 'E1 pyexplore'
TECHNIQUE = 'exhaustive token-sequence enumeration; real strip_string_literals vs round-trip and vs positions from CPython tokenize'
LEVEL_TEXT = ('Every string literal of 12 prefixes x 4 quote kinds x 27 bodies (alone, in code contexts and next to every token of a '
              '~50-token reduced alphabet) and every token sequence of length <= 3 (thorough <= 4) over the reduced alphabet, joined with '
              'and without spaces, plus every truncation, is stripped by the real function; the label substitution must reproduce the '
              'text exactly and, where CPython tokenize accepts the text, no string-content or comment character may survive.')
LEVEL_NOTE = ('Bounded sequence length and a fixed token alphabet.  By design and therefore not judged: quotes, prefixes, the "#" and '
              'f-string replacement fields including their format specs are kept as code; over-stripping (code inside f-string '
              'fields of literals the function treats as plain strings) is only counted; the reserved label prefix __Pyx_L is fed '
              'inside literals and comments only, not in code.  Texts tokenize rejects get the lossless oracle only.  Trusted: CPython 3.12 tokenize.')

LABEL = re.compile(r'__Pyx_L[0-9]+_')

PREFIXES = ['', 'r', 'b', 'u', 'f', 'rb', 'br', 'fr', 'rf', 'F', 'R', 'Rb']
QUOTES = ["'", '"', "'''", '"""']


def bodies(q):
    """Bodies for a literal with quote q (a body may make the literal ill-formed; tokenize decides)."""
    c = q[0]
    o = '"' if c == "'" else "'"
    out = ['', 'a', o, o + c if len(q) == 3 else o + '\\' + c, '\\' + c, 'a\\\\', '\\\\\\' + c, '#', '# ' + o, '{', '}', '{{', '}}',
           '{x}', 'a{x!r:>{w}}b', '{d[%sk%s]}' % (o, o), '{d[%sk%s]}' % (c, c), '{f%s{y}%s}' % (o, o), '{x:{%sa%s}^{w}}' % (o, o),
           '{x:#x}', '__Pyx_L1_', '{x}{{%s}}' % o]
    if len(q) == 3:
        out += ['a\nb', c + 'a', 'a' + c + 'b' + c + c + ' ', '{x # c%s\n}' % o, 'a{x:#x}b\nc d']
    return out


def full_literals():
    for p in PREFIXES:
        for q in QUOTES:
            for b in bodies(q):
                yield p + q + b + q


REDUCED = [
    # plain strings: every quote kind x termination / escape shape
    "'a'", '"a"', "'''a'''", '"""a"""', "''", '""', "''''''", '""""""',
    "'\"'", '"\'"', "'''\"'''", '"""\'"""', "'\\''", '"\\""', "'a\\\\'", "'\\\\\\''", "'''a\nb'''", '"""a\n"""',
    "''''a'''", "'''a'b'''", '"""a""b"""', "'#'", '"# \'"', "r'\\''", "b'a'", "'__Pyx_L1_'",
    # f-strings
    "f'{x}'", 'f"a{x!r:>{w}}b"', "f'{{x}}'", "f'{d[\"k\"]}'", "f'{d['k']}'", "f\"{f'{y}'}\"", "f'''{x:{'a'}^{w}}'''",
    "fr'{x}'", "rf'{x}'", "f'''a{x # c'\n}b'''", "f'{x}{{'",
    # comments (run to the end of the line)
    '#c', "# 'q\"", '#{', "#__Pyx_L1_ '''",
    # code
    'x', '=', ',', '(x)', '\n', '\\\n', ' ', '{1:2}',
]

CONTEXTS = ['%s', 'x = %s\n', 'f(%s, y)  # c\n', '%s\ny = 1\n', "a = 'q' + %s + \"r\"\n"]


# ---------------------------------------------------------------------------- oracles
def _line_starts(text):
    starts = [0]
    for m in re.finditer('\n', text):
        starts.append(m.end())
    return starts


def tokenize_spans(text):
    """Return (must_strip, code, causes) or None if tokenize rejects the text.

    must_strip: {pos: kind} for string content and comment text; code: positions of top-level NAME/NUMBER/OP
    characters; causes: [(pos, tag)] places where a known weakness of the stripper's token regexes is
    triggered (used only to normalise violation keys, never to excuse a violation)."""
    try:
        toks = list(tokenize.generate_tokens(io.StringIO(text).readline))
    except (tokenize.TokenError, SyntaxError, IndentationError, ValueError):
        return None
    ls = _line_starts(text)

    def off(rc):
        r, c = rc
        if r - 1 >= len(ls):
            return len(text)
        return ls[r - 1] + c
    must = {}
    code = set()
    causes = []
    stack = []     # per open f-string: dict(seg start, field depth, nested)
    for t in toks:
        tt = t.type
        s, e = off(t.start), off(t.end)
        if tt == tokenize.FSTRING_START:
            prefix = re.match(r'[A-Za-z]*', t.string).group()
            if not prefix.endswith('f'):
                causes.append((s, 'fprefix-unrecognised'))
            elif s > 0 and (text[s - 1].isalnum() or text[s - 1] == '_'):
                causes.append((s, 'fprefix-glued-to-name'))
            stack.append({'seg': e, 'depth': 0, 'nested': len(stack) > 0})
        elif tt == tokenize.FSTRING_END:
            top = stack.pop()
            kind = 'fstring-in-field' if top['nested'] else 'fstring-text'
            for p in range(top['seg'], s):
                must[p] = kind
        elif tt == tokenize.FSTRING_MIDDLE:
            # text positions are derived from START/END and the field braces (3.12 reports '{{' spans oddly);
            # a MIDDLE inside a field is a format spec: kept as code by design
            if stack and stack[-1]['depth'] > 0 and '#' in t.string:
                causes.append((s, 'hash-in-format-spec'))
        elif tt == tokenize.OP and stack and t.string in ('{', '}'):
            top = stack[-1]
            if t.string == '{':
                if top['depth'] == 0:
                    kind = 'fstring-in-field' if top['nested'] else 'fstring-text'
                    for p in range(top['seg'], s):
                        must[p] = kind
                top['depth'] += 1
            else:
                top['depth'] -= 1
                if top['depth'] == 0:
                    top['seg'] = e
        elif tt == tokenize.STRING:
            m = re.match(r'([A-Za-z]*)(\'\'\'|"""|\'|")', t.string)
            ql = len(m.group(2))
            cs = s + len(m.group(1)) + ql
            ce = e - ql
            if s > 0 and text[s - 1] == 'f' and not m.group(1):
                causes.append((s, 'f-of-name-before-quote'))
            kind = 'string-in-field' if stack else 'string'
            for p in range(cs, ce):
                must[p] = kind
        elif tt == tokenize.COMMENT:
            kind = 'comment-in-field' if stack else 'comment'
            for p in range(s + 1, e):
                must[p] = kind
        elif tt in (tokenize.NAME, tokenize.NUMBER, tokenize.OP):
            if not stack:
                for p in range(s, e):
                    code.add(p)
    if stack:
        return None
    return must, code, causes


def strip(text, prefix='__Pyx_L'):
    from Cython.Build.Dependencies import strip_string_literals
    if prefix == '__Pyx_L':
        return strip_string_literals(text)
    return strip_string_literals(text, prefix)


def judge(text, complete=True, prefix='__Pyx_L'):
    """Return (verdict, info): verdict None if fine, else (class, key detail, description)."""
    try:
        stripped, literals = strip(text, prefix)
    except RecursionError:
        raise
    except Exception as e:
        return ('exception', type(e).__name__, 'strip_string_literals raised %s: %s' % (type(e).__name__, e)), None
    # (1) lossless, one-pass substitution; also computes kept original positions
    pos = 0
    kept = []
    rebuilt = []
    last = 0
    bad_label = None
    label_re = LABEL if prefix == '__Pyx_L' else re.compile(re.escape(prefix) + '[0-9]+_')
    for m in label_re.finditer(stripped):
        seg = stripped[last:m.start()]
        rebuilt.append(seg)
        kept.extend(range(pos, pos + len(seg)))
        pos += len(seg)
        lit = literals.get(m.group())
        if lit is None:
            bad_label = m.group()
            break
        rebuilt.append(lit)
        pos += len(lit)
        last = m.end()
    if bad_label is None:
        seg = stripped[last:]
        rebuilt.append(seg)
        kept.extend(range(pos, pos + len(seg)))
    if (bad_label is not None or ''.join(rebuilt) != text) and prefix == '__Pyx_L' and LABEL.search(text):
        # the text itself contains label-shaped words; where they end up in code the default (reserved) prefix is
        # ambiguous by design - judge such a text with another prefix (the parameter exists for that purpose)
        return judge(text, complete, prefix='__Pyx_Q')
    if bad_label is not None or ''.join(rebuilt) != text:
        return ('lossy', 'roundtrip', 'label substitution gives %r for input %r (stripped %r)' % (
            ''.join(rebuilt), text, stripped)), None
    if not complete:
        return None, None
    spans = tokenize_spans(text)
    if spans is None:
        return None, 'rejected'
    must, code, causes = spans
    keptset = set(kept)
    leaked = sorted(p for p in must if p in keptset)
    over = sum(1 for p in code if p not in keptset)
    if leaked:
        kind = must[leaked[0]]
        before = [tag for pos, tag in causes if pos <= leaked[0]]
        cause = before[-1] if before else 'no-known-trigger'
        frag = ''.join(text[p] for p in leaked)
        return ('leak', '%s|%s' % (kind, cause),
                '%s characters %r of %r survive in the stripped text %r' % (kind, frag, text, stripped)), ('over', over)
    return None, ('over', over)


# ---------------------------------------------------------------------------- enumeration
def seq_texts(tokens, n, joiner):
    for k in range(1, n + 1):
        for combo in itertools.product(tokens, repeat=k):
            yield joiner.join(combo)


def _job(arg):
    kind, payload = arg
    out = {'texts': 0, 'evals': 0, 'accepted': 0, 'rejected': 0, 'over': 0, 'labels': 0, 'fails': {}, 'nfail': 0, 'trunc': 0}

    def run_one(text, complete=True):
        out['texts'] += 1
        out['evals'] += 2 if complete else 1
        v, info = judge(text, complete)
        if info == 'rejected':
            out['rejected'] += 1
        elif info:
            out['accepted'] += 1
            out['over'] += 1 if info[1] else 0
        if v:
            out['nfail'] += 1
            key = 'strip|%s|%s' % (v[0], v[1])
            cur = out['fails'].get(key)
            if cur is None or (len(text), text) < (len(cur[0]), cur[0]):
                out['fails'][key] = (text, v[2], (cur[2] if cur else 0) + 1)
            else:
                out['fails'][key] = (cur[0], cur[1], cur[2] + 1)
    if kind == 'single':
        for lit in payload:
            for c in CONTEXTS:
                run_one(c % lit)
    elif kind == 'pairs':
        for lit in payload:
            for t in REDUCED:
                for j in ('', ' '):
                    run_one(lit + j + t)
                    run_one(t + j + lit)
    elif kind == 'seq':
        prefix, n, joiner = payload     # all sequences starting with the given token tuple, up to total length n
        base = joiner.join(prefix)
        seen_trunc = set()
        for k in range(0, n - len(prefix) + 1):
            for combo in itertools.product(REDUCED, repeat=k):
                text = joiner.join(prefix + combo)
                run_one(text)
                # truncations: proper prefixes cutting into the last token (shorter cuts belong to shorter sequences)
                lastlen = len(combo[-1]) if combo else len(prefix[-1])
                for cut in range(len(text) - lastlen + 1, len(text)):
                    tr = text[:cut]
                    if tr not in seen_trunc:
                        seen_trunc.add(tr)
                        out['trunc'] += 1
                        run_one(tr, complete=False)
    return out


def run(ctx):
    n = 3 if ctx.quick else 4
    lits = list(full_literals())
    jobs = []
    for i in range(0, len(lits), 40):
        jobs.append(('single', lits[i:i + 40]))
        jobs.append(('pairs', lits[i:i + 40]))
    pre = 1 if ctx.quick else 2
    for joiner in ('', ' '):
        for p in itertools.product(REDUCED, repeat=pre):
            jobs.append(('seq', (p, n, joiner)))
        if pre == 2:
            for t in REDUCED:
                jobs.append(('seq', ((t,), 1, joiner)))
    if ctx.seed:
        import random
        random.Random(ctx.seed).shuffle(jobs)
    ctx.log('%d literals, %d reduced tokens, sequences <= %d, %d jobs' % (len(lits), len(REDUCED), n, len(jobs)))
    res = farm.pmap(_job, jobs, chunksize=4 if not ctx.quick else 1)
    agg = {k: 0 for k in ('texts', 'evals', 'accepted', 'rejected', 'over', 'nfail', 'trunc')}
    fails = {}
    for r in res:
        for k in agg:
            agg[k] += r[k]
        for key, (text, what, cnt) in r['fails'].items():
            cur = fails.get(key)
            if cur is None or (len(text), text) < (len(cur[0]), cur[0]):
                fails[key] = (text, what, cnt + (cur[2] if cur else 0))
            else:
                fails[key] = (cur[0], cur[1], cur[2] + cnt)
    for key in sorted(fails):
        text, what, cnt = fails[key]
        ctx.violation(key, '%s  [%d raw cases]' % (what, cnt), {'text': text})
    ex = "x = f'a{d[\"k\"]!r:>{w}}b'  # c 'q'\n"
    st, li = strip(ex)
    cov = {
        'states': agg['texts'], 'transitions': agg['evals'], 'traces_validated_against_impl': agg['texts'],
        'tokenize_accepted': agg['accepted'], 'tokenize_rejected': agg['rejected'], 'truncations': agg['trunc'],
        'texts_with_overstripped_code': agg['over'], 'failing_texts': agg['nfail'],
        'full_literals': len(lits), 'reduced_tokens': len(REDUCED), 'max_sequence_length': n,
        'raw_failures_by_key': {k: v[2] for k, v in fails.items()},
        'samples': [{'text': ex, 'stripped': st, 'literals': li},
                    {'text': lits[200] + ' ' + REDUCED[30]}, {'text': ''.join(REDUCED[i] for i in (16, 44, 27))}],
        'exhaustive': True,
    }
    if agg['accepted'] < agg['texts'] // 50:
        ctx.log('WARN: tokenize accepts only %d of %d texts' % (agg['accepted'], agg['texts']))
    return cov, ['CPython 3.12 tokenize defines which characters are string content / comment text',
                 'labels are substituted back in one regex pass (as Cython/Build/Tests/TestStripLiterals.py does)']


def replay(ctx, case):
    v, info = judge(case['text'])
    if v:
        return '%s: %s' % (v[0], v[2])
    return False
