"""C28 - extension-type operators dispatch like Python classes.

The same class text is emitted twice by a textual toggle: `cdef class` (compiled by the staged compiler) and `class`
(executed by CPython).  Every special method logs (defining class, method, operand type names) and returns either a
tagged value or NotImplemented.  Operators are then applied by the interpreter (operator.add / operator.iadd / pow /
operator.lt ... = PyNumber_* / PyObject_RichCompare) to instances of both and result + ordered call log compared.

Binary operators (quick: + - ** @; thorough: all 13): base class B with EVERY assignment of {absent, value,
NotImplemented} to (__op__, __rop__, __iop__) (27 = all 8 subsets x bodies) x subclass S(B) with a variant from
{inherits everything, reflected only (value / NotImplemented), left only, in-place only, all three} (thorough: all 27
for the quick operators) x operand pairs {(B,B) (B,S) (S,B) (S,S) (B,int) (int,B) (S,int) (int,S) (B,O) (O,B) (S,O)
(O,S)} with O in {Python class with logging dunders returning values, same returning NotImplemented} x forms
{a op b, a op= b, pow(a, b, m) (only without __rpow__)}.
Rich comparisons: all 64 subsets of the six methods with value bodies + every subset with a NotImplemented __eq__ or
__lt__ (thorough: EVERY assignment of {absent, value, NotImplemented} with <= 2 NotImplemented bodies) x subclass
{inherits, overrides __eq__ (thorough also: overrides __lt__, overrides __gt__ with NotImplemented)}; plus the
complete product base subset {{eq},{eq,lt},{lt},{ne},{eq,ne},{}} (value / NotImplemented __eq__) x subclass-own subset
{{},{lt},{eq},{ne},{le,gt}} (inherited methods looked up along the cdef base chain, `!=` from an inherited __eq__) x the same operand pairs x six operators + hash();  total_ordering on: every such assignment that has
an ordering method and __eq__, bodies computing real comparisons of an instance value, instances with values (1,1)
(1,2) (2,1), vs functools.total_ordering.
Oracle: CPython executing the toggled class text: result (type+repr, or exception type) and the ordered call log.
"""
import itertools, operator, os
from vlib import support
from vlib.diff import canon, short
from props import _g8_drive as drive

LEVEL = 'exploration'
ENGINE = 'E2 diffexplore'
TECHNIQUE = ('exhaustive product (method subset x bodies x class arrangement x operand pair x operator form), same class text '
             'compiled as cdef class vs executed as Python class, results and ordered call logs compared')
LEVEL_TEXT = ('For each binary operator (quick + - ** @, thorough all 13) every one of the 27 assignments of {absent, value, '
              'NotImplemented} to (__op__, __rop__, __iop__) on a base extension type x 6 (thorough 27) subclass variants x 12+ operand '
              'pairs (base, subclass, int, foreign Python classes returning values / NotImplemented) x {a op b, a op= b, 3-arg pow}; '
              'and all 64 subsets of the six rich-comparison methods (value bodies; NotImplemented __eq__/__lt__; thorough every '
              'assignment with <= 2 NotImplemented bodies) x 2 (4) subclass variants x operand pairs x six operators + hash, with and without '
              'total_ordering, is compiled as `cdef class` and executed as `class` by CPython; results and ordered call logs must agree.')
LEVEL_NOTE = ('Excluded by design: Python subclasses of extension types as operands (CPython gives heap subclasses the generic '
              'slot_nb_* slots, so reflected methods inherited from the extension base are tried first - inherent to how the '
              'special methods are exposed); 3-argument pow() when __rpow__ is defined (Cython passes the modulus to __rpow__ '
              'like Python >= 3.14, CPython 3.12 never calls __rpow__ for ternary pow); total_ordering classes without '
              '__eq__ (Cython disables the directive with a warning; with __ne__ only it inverts __ne__ where functools uses '
              'the default identity __eq__) and total_ordering classes whose __eq__/__ne__ always return NotImplemented (functools '
              'evaluates `self == other` through the full protocol incl. identity fallback); for total_ordering classes defining both __eq__ and __ne__ the log entries of '
              'the two are identified (functools evaluates `self != other`, Cython inverts __eq__) and in every total_ordering class the '
              'operand order of the equality call is not compared (functools goes through the full ==/!= protocol, which gives a '
              'subclass operand the reflected call first; Cython calls __eq__(self, other) directly).  c_api_binop_methods=False only.  '
              'Trusted: CPython 3.12, gcc.')

OPS_Q = ['add', 'sub', 'pow', 'matmul']
OPS_ALL = ['add', 'sub', 'mul', 'matmul', 'truediv', 'floordiv', 'mod', 'pow', 'lshift', 'rshift', 'and', 'or', 'xor']
OPFN = {'and': 'and_', 'or': 'or_'}
CMPS = ['lt', 'le', 'eq', 'ne', 'gt', 'ge']
VARIANTS3 = [''.join(v) for v in itertools.product('-VN', repeat=3)]
SUBS_Q = ['---', '-V-', '-N-', 'V--', '--V', 'VVV']
CMP_SUBS = [('pass', {}), ('eqV', {'eq': 'V'}), ('ltV', {'lt': 'V'}), ('gtN', {'gt': 'N'})]
# base-class subsets x subclass-own subsets (value / NotImplemented bodies for __eq__)
CROSS_BASES = [{'eq': 'V'}, {'eq': 'N'}, {'eq': 'V', 'lt': 'V'}, {'eq': 'N', 'lt': 'V'}, {'lt': 'V'}, {'ne': 'V'},
               {'eq': 'V', 'ne': 'V'}, {'eq': 'N', 'ne': 'V'}, {}]
CROSS_SUBS = [{}, {'lt': 'V'}, {'eq': 'V'}, {'eq': 'N'}, {'ne': 'V'}, {'le': 'V', 'gt': 'V'}]
REACH = ['_maybe_call_slot', 'tp_richcompare', 'Py_NotImplemented']


# ------------------------------------------------------------------------------------------ foreign operand classes
def _mk_other(name, ni):
    ns = {}

    def mk(mname):
        def meth(self, *a):
            support.L('%s.%s' % (name, mname), tuple(type(x).__name__ for x in (self,) + a))
            return NotImplemented if ni else '%s.%s' % (name, mname)
        return meth
    for op in OPS_ALL:
        for p in ('', 'r', 'i'):
            ns['__%s%s__' % (p, op)] = mk('__%s%s__' % (p, op))
    for c in CMPS:
        ns['__%s__' % c] = mk('__%s__' % c)
    ns['__hash__'] = lambda self: 1
    return type(name, (), ns)


OV = _mk_other('OV', False)
ON = _mk_other('ON', True)


# ------------------------------------------------------------------------------------------ class text
def binop_class(name, base, variant, ops):
    out = ['cdef class %s%s:' % (name, '(%s)' % base if base else '')]
    n = 0
    for op in ops:
        for slot, kind in zip(('', 'r', 'i'), variant):
            if kind == '-':
                continue
            m = '__%s%s__' % (slot, op)
            if op == 'pow' and slot != 'i':
                out.append('    def %s(self, other, mod=None):' % m)
                out.append("        L('%s.%s', (type(self).__name__, type(other).__name__, mod))" % (name, m))
            else:
                out.append('    def %s(self, other):' % m)
                out.append("        L('%s.%s', (type(self).__name__, type(other).__name__))" % (name, m))
            out.append('        return %s' % ('NotImplemented' if kind == 'N' else "'%s.%s'" % (name, m)))
            n += 1
    if not n:
        out.append('    pass')
    return '\n'.join(out) + '\n'


def cmp_class(name, base, assign, ordering=False, root=None):
    """assign: {'lt': 'V'|'N', ...}.  ordering: bodies compute real comparisons on .v (root = isinstance guard class)."""
    out = []
    if ordering and not base:
        out.append('@cython.total_ordering')
    out.append('cdef class %s%s:' % (name, '(%s)' % base if base else ''))
    if not base:
        out.append('    cdef public object v')
        out.append('    def __init__(self, v=0): self.v = v')
    pyop = {'lt': '<', 'le': '<=', 'eq': '==', 'ne': '!=', 'gt': '>', 'ge': '>='}
    for c in CMPS:
        kind = assign.get(c)
        if not kind:
            continue
        m = '__%s__' % c
        out.append('    def %s(self, other):' % m)
        out.append("        L('%s.%s', (type(self).__name__, type(other).__name__))" % (name, m))
        if kind == 'N':
            out.append('        return NotImplemented')
        elif ordering:
            out.append('        if not isinstance(other, %s): return NotImplemented' % (root or name))
            out.append('        return self.v %s other.v' % pyop[c])
        else:
            out.append("        return '%s.%s'" % (name, m))
    if base and not assign:
        out.append('    pass')
    return '\n'.join(out) + '\n'


def toggle(src):
    """cdef class -> class, C attribute declarations dropped, cython.total_ordering -> functools.total_ordering."""
    return (src.replace('cdef class ', 'class ').replace('    cdef public object v\n', '')
            .replace('@cython.total_ordering', '@functools.total_ordering'))


PRELUDE = 'cimport cython\nfrom vlib.support import L\n'
REF_PRELUDE = 'import functools\nfrom vlib.support import L\n'


def cmp_assignments(tier):
    """quick: all 64 subsets with value bodies + every subset with a NotImplemented __eq__ or a NotImplemented __lt__
    (128 assignments); thorough: every assignment of {absent, value, NotImplemented} with <= 2 NotImplemented (496)."""
    out = []
    for v in itertools.product('-VN', repeat=6):
        a = {c: k for c, k in zip(CMPS, v) if k != '-'}
        if tier == 'quick':
            ni = [c for c in a if a[c] == 'N']
            if len(ni) > 1 or (ni and ni[0] not in ('eq', 'lt')):
                continue
        elif v.count('N') > 2:
            continue
        out.append(a)
    return out


def units(tier):
    us = []
    # ---- binary operators
    fams = [(OPS_Q, SUBS_Q)] if tier == 'quick' else [(OPS_Q, VARIANTS3), ([o for o in OPS_ALL if o not in OPS_Q], SUBS_Q)]
    n = 0
    for ops, subs in fams:
        for vb in VARIANTS3:
            src = binop_class('B%d' % n, None, vb, ops)
            for j, vs in enumerate(subs):
                src += binop_class('S%d_%d' % (n, j), 'B%d' % n, vs, ops)
            us.append(drive.Unit(src, toggle(src), [('binop', n, vb, tuple(subs), tuple(ops))]))
            n += 1
    # ---- rich comparisons (plain)
    cmp_subs = CMP_SUBS[:2] if tier == 'quick' else CMP_SUBS
    for a in cmp_assignments(tier):
        src = cmp_class('R%d' % n, None, a)
        for j, (sn, sa) in enumerate(cmp_subs):
            src += cmp_class('S%d_%d' % (n, j), 'R%d' % n, sa)
        us.append(drive.Unit(src, toggle(src), [('cmp', n, tuple(sorted(a.items())), tuple(s[0] for s in cmp_subs))]))
        n += 1
    # ---- total_ordering
    for a in cmp_assignments(tier):
        if a.get('eq') != 'V' or a.get('ne') == 'N' or not any(c in a for c in ('lt', 'le', 'gt', 'ge')):
            continue
        src = cmp_class('R%d' % n, None, a, ordering=True)
        src += cmp_class('S%d_0' % n, 'R%d' % n, {}, ordering=True, root='R%d' % n)
        us.append(drive.Unit(src, toggle(src), [('ord', n, tuple(sorted(a.items())), ('pass',))]))
        n += 1
    # ---- rich comparisons, base subset x DIFFERENT subclass-own subset (complete product, both tiers): inherited
    #      methods must be found along the cdef base-class chain (e.g. `!=` derived from an inherited __eq__)
    for a in CROSS_BASES:
        src = cmp_class('R%d' % n, None, a)
        for j, sa in enumerate(CROSS_SUBS):
            src += cmp_class('S%d_%d' % (n, j), 'R%d' % n, sa)
        us.append(drive.Unit(src, toggle(src), [('cmp', n, tuple(sorted(a.items())),
                                                tuple('own:' + ''.join(c + k for c, k in sorted(sa.items())) for sa in CROSS_SUBS))]))
        n += 1
    return us


# ------------------------------------------------------------------------------------------ child side
def _eval(fn, args):
    support.reset_log()
    try:
        v = fn(*args)
        o = ('ok', canon(v))
    except BaseException as e:
        if isinstance(e, (KeyboardInterrupt, SystemExit)):
            raise
        o = ('exc', type(e).__name__)
    return o, support.take_log()


def _hashfn(x):
    hash(x)
    return 'hashable'


def _subset(variant):
    return ''.join(s if k != '-' else '-' for s, k in zip('lri', variant))


def _event(log, i):
    """Abstract the i-th log entry: method slot, role of the defining class, same-type flag, repeat flag."""
    if i >= len(log):
        return 'END'
    tag, _, types = log[i]
    cls, _, meth = tag.partition('.')
    role = cls.rstrip('0123456789_')[:1] if cls not in ('OV', 'ON') else 'O'
    m = meth.strip('_')
    if m not in CMPS and m != 'eq|ne':
        m = 'r' if m[0] == 'r' and m[1:] in OPS_ALL else ('i' if m[0] == 'i' and m[1:] in OPS_ALL else 'l')
    try:
        tt = eval(types)
        same = 'same' if tt[0] == tt[1] else 'diff'
        virt = '' if tt[0] == cls else ':on-' + ('subclass' if role == 'B' or role == 'R' else 'other')
    except Exception:
        same, virt = '?', ''
    rep = ':repeat' if log[i] in log[:i] else ''
    return '%s.%s:%s%s%s' % (role, m, same, virt, rep)


def _div(exp, got):
    """Normalised divergence: first point where the call logs differ, else result class."""
    le, lg = exp[1], got[1]
    for i in range(max(len(le), len(lg))):
        if i >= len(le) or i >= len(lg) or le[i] != lg[i]:
            return 'log@exp=%s/got=%s' % (_event(le, i), _event(lg, i))
    if exp[0][0] == 'exc' and got[0][0] == 'ok':
        return 'missing-exc:' + exp[0][1]
    if exp[0][0] == 'ok' and got[0][0] == 'exc':
        return 'extra-exc:' + got[0][1]
    return 'result'


def sweep(cns, rns, work, cfg):
    kind, n = work[0], work[1]
    evals = 0
    mism = []
    hashes = set()
    cnt = {}

    def compare(fn, form, pa, pb, mk, keyinfo, normal=None):
        nonlocal evals
        res = []
        for ns in (rns, cns):
            a, b = mk(ns, pa), mk(ns, pb)
            o, log = _eval(fn, (a, b))
            if normal:
                log = normal(log)
            res.append((o, log))
        exp, got = res
        evals += 1
        # distinct dispatch behaviours: operator class x abstract operand roles x abstract call sequence x result class
        hashes.add(hash((kind, (form.split(' ')[1] if ' ' in form else form) if kind != 'binop' else ('=' in form, form[:3] == 'pow'),
                         pa.rstrip('0123456789'), pb.rstrip('0123456789'),
                         tuple(_event(exp[1], i) for i in range(len(exp[1]))), exp[0][0], exp[0][1][1] if exp[0][0] == 'ok' and kind != 'binop' else '')))
        cnt[exp[0][0]] = cnt.get(exp[0][0], 0) + 1
        cnt['log%d' % min(len(exp[1]), 4)] = cnt.get('log%d' % min(len(exp[1]), 4), 0) + 1
        if exp != got:
            d = _div(exp, got)
            if keyinfo == 'binop' and ('.i:' in d or ('=' in form and not d.startswith('log@'))):
                keyinfo = 'inplace'
            key = '%s|%s' % (keyinfo, d)
            mism.append((key, '%s(%s, %s) on classes #%d %r: expected %s log %s; got %s log %s' % (
                form, pa, pb, n, work[2:], short(exp[0]), short(exp[1]), short(got[0]), short(got[1])),
                {'form': form, 'pair': [pa, pb], 'expected': exp, 'got': got}))

    if kind == 'binop':
        vb, subs, ops = work[2], work[3], work[4]
        base = 'B%d' % n

        def mk(ns, p):
            if p == 'B':
                return ns[base]()
            if p[0] == 'S':
                return ns['S%d_%s' % (n, p[1:])]()
            return 7 if p == 'int' else {'OV': OV, 'ON': ON}[p]()
        for op in ops:
            fbin = getattr(operator, OPFN.get(op, op))
            fin = getattr(operator, 'i' + op)
            forms = [('a %s b' % op, fbin), ('a %s= b' % op, fin)]
            pairs0 = [('B', 'B'), ('B', 'int'), ('int', 'B'), ('B', 'OV'), ('OV', 'B'), ('B', 'ON'), ('ON', 'B')]
            todo = [(p, vb, None) for p in pairs0]
            for j, vs in enumerate(subs):
                s = 'S%d' % j
                for p in [('B', s), (s, 'B'), (s, s), (s, 'int'), ('int', s), (s, 'OV'), ('OV', s), (s, 'ON'), ('ON', s)]:
                    todo.append((p, vb, vs))
            for (pa, pb), v1, v2 in todo:
                has_r = v1[1] != '-' or (v2 is not None and v2[1] != '-')
                fl = list(forms)
                if op == 'pow' and not has_r:
                    fl.append(('pow(a, b, 5)', lambda a, b: pow(a, b, 5)))
                for form, fn in fl:
                    compare(fn, form, pa, pb, mk, 'pow3' if form.startswith('pow(') else 'binop')
    else:
        assign = dict(work[2])
        subs = work[3]
        base = 'R%d' % n
        ordering = kind == 'ord'
        both = 'eq' in assign and 'ne' in assign

        def normal(log):
            # total_ordering only.  functools evaluates `self == other` / `self != other` through the full protocol (a
            # subclass operand gets the reflected call first, `!=` may go through __ne__), Cython calls __eq__(self, other)
            # directly: the operand ORDER of the equality call (and, when both are defined, WHICH of __eq__/__ne__ runs)
            # is a by-design difference; the number and position of the equality calls and all results are still compared
            out = []
            for t, *r in log:
                if t.endswith('.__eq__') or t.endswith('.__ne__'):
                    if both:
                        t = t.replace('__ne__', '__eq|ne__').replace('__eq__', '__eq|ne__')
                    try:
                        r = [r[0], repr(tuple(sorted(eval(r[1]))))] + list(r[2:])
                    except Exception:
                        pass
                out.append((t,) + tuple(r))
            return tuple(out)

        def mk(ns, p):
            if p[0] == 'B':
                return ns[base](int(p[1:] or 0))
            if p[0] == 'S':
                j, _, v = p[1:].partition('v')
                return ns['S%d_%s' % (n, j)](int(v or 0))
            return 7 if p == 'int' else {'OV': OV, 'ON': ON}[p]()
        if ordering:
            pairs = [('B1', 'B1'), ('B1', 'B2'), ('B2', 'B1'), ('B1', 'S0v2'), ('S0v2', 'B1'), ('S0v1', 'S0v1'), ('B1', 'int'),
                     ('int', 'B1'), ('B1', 'ON'), ('ON', 'B1'), ('B1', 'OV')]
        else:
            pairs = [('B', 'B'), ('B', 'int'), ('int', 'B'), ('B', 'OV'), ('OV', 'B'), ('B', 'ON'), ('ON', 'B')]
            for j in range(len(subs)):
                s = 'S%d' % j
                pairs += [('B', s), (s, 'B'), (s, s), (s, 'int'), ('int', s), (s, 'ON'), ('ON', s)]
        defined = ''.join(c[0] + c[1] if c in assign else '' for c in CMPS)
        for pa, pb in pairs:
            for c in CMPS:
                keyinfo = 'total_ordering' if ordering else 'richcmp'
                compare(getattr(operator, c), 'a %s b' % c, pa, pb, mk, keyinfo, normal if ordering else None)
        for p in (['B1', 'S0v1'] if ordering else ['B'] + ['S%d' % j for j in range(len(subs))]):
            compare(lambda a, b: _hashfn(a), 'hash(a)', p, p, mk, '%s|hash' % ('total_ordering' if ordering else 'richcmp'))
    return evals, mism, hashes, cnt


# ------------------------------------------------------------------------------------------ parent side
def run(ctx):
    us = units(ctx.tier)
    dev = int(os.environ.get('G8_DEV_STEP', '0') or 0)     # development aid only: evidence is then marked non-exhaustive
    if dev:
        us = us[::dev]
    if os.environ.get('G8_C28_TAIL'):                       # development aid only: the last N units
        dev = dev or 1
        us = us[-int(os.environ['G8_C28_TAIL']):]
    per = 12
    mods = [drive.make_mod('c28_%d' % (i // per), PRELUDE, REF_PRELUDE, us[i:i + per]) for i in range(0, len(us), per)]
    ctx.log('%d class families in %d modules' % (len(us), len(mods)))
    st = drive.run(ctx, mods, 'props.C28_ext_operators:sweep', 'c28', reach=REACH)
    kinds = {}
    for u in us:
        kinds[u.work[0][0]] = kinds.get(u.work[0][0], 0) + 1
    cov = {
        'evaluations': st['evaluations'], 'distinct_nontrivial': st['pairs'],
        'rule': 'complete product class family x operand pair x operator form; distinct_nontrivial counts distinct reference '
                'dispatch behaviours = (operator class/form, operand roles, abstract ordered call sequence [method slot, role of '
                'defining class, same/different operand types, called on subclass instance], result class), summed over work items',
        'class_families': kinds, 'modules_built': st['modules_built'], 'build_failures': st['build_failures'],
        'mismatches': st['mismatches'], 'crashes': st['crashes'], 'outcome_counters': st['counters'],
        'reach': st.get('reach'), 'reach_gaps': st.get('reach_gaps'),
        'samples': [{'classes': us[5].src, 'work': us[5].work[0]}, {'classes': us[-1].src, 'work': us[-1].work[0]}],
        'exhaustive': not dev,
    }
    return cov, ['Python subclasses of extension types, ternary pow with __rpow__, total_ordering without __eq__ are outside the alphabet']


def replay(ctx, case):
    return drive.replay(ctx, case)
