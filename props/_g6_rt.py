"""Plain-Python run-time helpers imported by the generated test programs of group g6 (C21, C22, C01, C31, C40).

Never compiled: the compiled module and the CPython reference import the very same functions, so only the
generated code itself differs between the two runs."""
import sys
from vlib.support import LOG


def V(k, v=None):
    """Log site k with a message-free rendering of v (ints by value, everything else by type name)."""
    LOG.append((k, type(v).__name__, repr(v) if type(v) in (int, bool, str, float, tuple) else ''))
    return v


def RZ(k, flag):
    """Conditional raise: logs the site, raises ValueError(k) when flag is true."""
    LOG.append((k, 'raise?', repr(flag)))
    if flag:
        raise ValueError(k)


class NS:
    """Context manager that does not suppress."""
    def __init__(self, k=None):
        self.k = k

    def __enter__(self):
        LOG.append((self.k, 'enter', ''))
        return 1

    def __exit__(self, t, v, tb):
        LOG.append((self.k, 'exit', t.__name__ if t else ''))
        return False


class SUP(NS):
    """Context manager that suppresses every Exception."""
    def __exit__(self, t, v, tb):
        LOG.append((self.k, 'exit', t.__name__ if t else ''))
        return t is not None and issubclass(t, Exception)
