"""Plain-Python run-time helpers imported by the generated test programs of group g6 (C21, C22, C01, C31, C40).

Never compiled: the compiled module and the CPython reference import the very same functions, so only the
generated code itself differs between the two runs."""
import sys
from vlib.support import LOG


def V(k, v=None):
    """Log site k with a message-free rendering of v (ints by value, everything else by type name)."""
    LOG.append((k, type(v).__name__, repr(v) if type(v) in (int, bool, str, float, tuple) else ''))
    return v


def RZ(k, flag):
    """Conditional raise: logs the site, raises ValueError(k) when flag is true."""
    LOG.append((k, 'raise?', repr(flag)))
    if flag:
        raise ValueError(k)


class NS:
    """Context manager that does not suppress."""
    def __init__(self, k=None):
        self.k = k

    def __enter__(self):
        LOG.append((self.k, 'enter', ''))
        return 1

    def __exit__(self, t, v, tb):
        LOG.append((self.k, 'exit', t.__name__ if t else ''))
        return False


class SUP(NS):
    """Context manager that suppresses every Exception."""
    def __exit__(self, t, v, tb):
        LOG.append((self.k, 'exit', t.__name__ if t else ''))
        return t is not None and issubclass(t, Exception)


# ------------------------------------------------------------------------------------------ C22 support
class EA(Exception):
    pass


class EB(EA):
    pass


class EC(Exception):
    pass


_USER = ('EA', 'EB', 'EC', 'KeyError', 'ExceptionGroup', 'BaseExceptionGroup')


def _ei():
    t, v = sys.exc_info()[:2]
    if t is None:
        return ('-', '')
    return (t.__name__, _args(v))


def _args(v):
    if isinstance(v, BaseExceptionGroup):
        return repr(v.args[0]) + repr([(type(x).__name__, _args(x)) for x in v.exceptions])
    return repr(v.args) if type(v).__name__ in _USER else ''


def LG(k):
    """Log point: site + the exception currently being handled (type, args)."""
    LOG.append((k,) + _ei())


def HELP(k):
    """A plain-Python helper that raises."""
    LOG.append((k, 'help') + _ei())
    raise EA(k)


class CM:
    def __init__(self, k, suppress, raise_in_exit):
        self.k, self.suppress, self.raise_in_exit = k, suppress, raise_in_exit

    def __enter__(self):
        LOG.append((self.k, 'enter') + _ei())
        return self

    def __exit__(self, t, v, tb):
        LOG.append((self.k, 'exit', t.__name__ if t else '-', _args(v) if v is not None else '',
                    'tb' if tb is not None else 'notb') + _ei())
        if self.raise_in_exit:
            raise EC(self.k)
        return self.suppress


def chain(e, depth=0, seen=()):
    """(type, args, cause, context, suppress_context, sub-exceptions) recursively."""
    if e is None:
        return None
    if id(e) in seen or depth > 8:
        return ('cycle',)
    seen = seen + (id(e),)
    sub = ()
    if isinstance(e, BaseExceptionGroup):
        sub = tuple(chain(x, depth + 1, seen) for x in e.exceptions)
    return (type(e).__name__, _args(e), chain(e.__cause__, depth + 1, seen), chain(e.__context__, depth + 1, seen),
            bool(e.__suppress_context__), sub)


class W22:
    """Callable wrapper exported by the generated modules: runs f in a clean state (mode 0) or while a
    KeyError('outer') is being handled (mode 1); returns what was propagated, logs exc_info afterwards."""
    def __init__(self, f):
        self.f = f

    def __call__(self, mode):
        if mode == 0:
            return self._run()
        try:
            raise KeyError('outer')
        except KeyError:
            r = self._run()
            LOG.append(('back',) + _ei())
            return r

    def _run(self):
        try:
            r = self.f()
        except BaseException as e:
            out = ('raised', chain(e))
        else:
            out = ('returned', r)
        LOG.append(('after',) + _ei())
        return out


# ------------------------------------------------------------------------------------------ C01 support
class Obj:
    """Attribute bag with a stable repr."""
    def __repr__(self):
        return 'Obj(%s)' % ', '.join('%s=%r' % kv for kv in sorted(vars(self).items()))


class CMV:
    """Context manager yielding its argument; logs enter/exit."""
    def __init__(self, v):
        self.v = v

    def __enter__(self):
        LOG.append(('cm', 'enter', repr(self.v)))
        return self.v

    def __exit__(self, t, v, tb):
        LOG.append(('cm', 'exit', t.__name__ if t else '-'))
        return False


def D(x):
    """Digest of a possibly huge value: exact for everything printable, size-independent for big ints."""
    if type(x) is int and x.bit_length() > 2000:
        return ('bigint', x.bit_length(), x % 1000000007, x & 0xFFFFFFFF, x > 0)
    if type(x) is tuple:
        return tuple(D(v) for v in x)
    return (type(x).__name__, repr(x))


# ------------------------------------------------------------------------------------------ C31 support
import enum as _enum, collections as _collections, collections.abc as _abc, array as _array, dataclasses as _dc


class Color(_enum.Enum):
    RED = 0
    GREEN = 1


class NSK:
    K = 0
    S = 'ab'
    F = 1.5


class Point:
    __match_args__ = ('x', 'y')

    def __init__(self, x, y):
        self.x, self.y = x, y

    def __repr__(self):
        return 'Point(%r, %r)' % (self.x, self.y)


class OnlyX:
    """Has attribute x but no y and no __match_args__."""
    def __init__(self, x):
        self.x = x

    def __repr__(self):
        return 'OnlyX(%r)' % (self.x,)


class SubPoint(Point):
    pass


class MA1:
    """__match_args__ of length 1 / 2 / 3 (MA1, MA2, MA3): positional + keyword sub-patterns naming the same attribute."""
    __match_args__ = ('x',)

    def __init__(self, *v):
        self.x, self.y, self.z = (v + (7, 8, 9))[:3]

    def __repr__(self):
        return '%s(%r, %r, %r)' % (type(self).__name__, self.x, self.y, self.z)


class MA2(MA1):
    __match_args__ = ('x', 'y')


class MA3(MA1):
    __match_args__ = ('x', 'y', 'z')


class BadMA:
    __match_args__ = ['x']      # a list: TypeError when used positionally
    x = 0

    def __repr__(self):
        return 'BadMA()'


class BadMA2:
    __match_args__ = (1,)       # non-str element: TypeError when used positionally
    x = 0

    def __repr__(self):
        return 'BadMA2()'


@_dc.dataclass
class DP:
    x: object
    y: object


class PropPoint:
    """x is a logging property, y raises AttributeError."""
    __match_args__ = ('x', 'y')

    @property
    def x(self):
        LOG.append(('PropPoint', 'get x', ''))
        return 0

    @property
    def y(self):
        LOG.append(('PropPoint', 'get y', ''))
        raise AttributeError('y')

    def __repr__(self):
        return 'PropPoint()'


# PEP 634 leaves the number and order of __len__/__getitem__/get/keys calls made while matching to the
# implementation (CPython itself unpacks by iteration for some patterns and indexes for others), so the protocol
# methods of the subjects below are deliberately NOT logged; what is compared is which case matched and the bindings.
class MySeq(_abc.Sequence):
    def __init__(self, items):
        self.items = list(items)

    def __len__(self):
        return len(self.items)

    def __getitem__(self, i):
        return self.items[i]

    def __repr__(self):
        return 'MySeq(%r)' % (self.items,)


class VirtSeq:
    def __init__(self, items):
        self.items = list(items)

    def __len__(self):
        return len(self.items)

    def __getitem__(self, i):
        return self.items[i]

    def __repr__(self):
        return 'VirtSeq(%r)' % (self.items,)


_abc.Sequence.register(VirtSeq)


class NotSeq:
    """Quacks like a sequence, is not registered: must not match sequence patterns."""
    def __init__(self, items):
        self.items = list(items)

    def __len__(self):
        return len(self.items)

    def __getitem__(self, i):
        return self.items[i]

    def __repr__(self):
        return 'NotSeq(%r)' % (self.items,)


class MyMap(_abc.Mapping):
    def __init__(self, d):
        self.d = dict(d)

    def __getitem__(self, k):
        return self.d[k]

    def __iter__(self):
        return iter(self.d)

    def __len__(self):
        return len(self.d)

    def get(self, k, default=None):
        return self.d.get(k, default)

    def keys(self):
        return self.d.keys()

    def __repr__(self):
        return 'MyMap(%r)' % (self.d,)


class EqLog:
    def __init__(self, v):
        self.v = v

    def __eq__(self, other):
        LOG.append(('EqLog', 'eq', repr(other)))
        return self.v == other

    __hash__ = None

    def __repr__(self):
        return 'EqLog(%r)' % (self.v,)


class IntSub31(int):
    def __repr__(self):
        return 'IntSub31(%d)' % int(self)


class StrSub31(str):
    def __repr__(self):
        return 'StrSub31(%s)' % str.__repr__(self)


def G(k, v):
    """Guard probe: logs and returns v."""
    LOG.append(('guard', k, repr(v)))
    return v


SUBJECTS = {
    'i0': lambda: 0, 'i1': lambda: 1, 'im1': lambda: -1, 'big': lambda: 2 ** 70, 'T': lambda: True, 'F': lambda: False,
    'N': lambda: None, 'f15': lambda: 1.5, 'f0': lambda: 0.0, 'c12': lambda: 1 + 2j,
    'sab': lambda: 'ab', 'se': lambda: '', 'bab': lambda: b'ab', 'ba': lambda: bytearray(b'ab'),
    'l0': lambda: [], 'l1': lambda: [0], 'l2': lambda: [0, 1], 'l3': lambda: [0, 1, 2], 'lab': lambda: ['ab', 0],
    'l4': lambda: [0, 1, 2, 3], 'l5': lambda: [0, 1, 2, 3, 4], 'l7': lambda: [0, 1, 2, 3, 4, 5, 6],
    't3': lambda: (0, 1, 2), 't4': lambda: (0, 1, 2, 3), 't6': lambda: (0, 1, 2, 3, 4, 5), 'rng5': lambda: range(5),
    'myseq5': lambda: MySeq([0, 1, 2, 3, 4]), 'dkl': lambda: {'k': [0, 1, 2, 3, 4]},
    'lnest': lambda: [[0], 'ab'], 't0': lambda: (), 't1': lambda: (0,), 't2': lambda: (0, 1), 'tn': lambda: (None, 0),
    'dq': lambda: _collections.deque([0, 1]), 'rng': lambda: range(2), 'arr': lambda: _array.array('i', [0, 1]),
    'myseq': lambda: MySeq([0, 1]), 'virtseq': lambda: VirtSeq([0, 1]), 'notseq': lambda: NotSeq([0, 1]),
    'd0': lambda: {}, 'dk': lambda: {'k': 0}, 'dkj': lambda: {'k': 0, 'j': 1}, 'd1a': lambda: {1: 2, 'a': 0},
    'dab': lambda: {'ab': 0, 'k': 'ab'}, 'od': lambda: _collections.OrderedDict(k=0, j=1),
    'dd': lambda: _collections.defaultdict(int), 'mymap': lambda: MyMap({'k': 0, 'j': 1}),
    'p01': lambda: Point(0, 1), 'p10': lambda: Point(1, 0), 'sp': lambda: SubPoint(0, 0), 'onlyx': lambda: OnlyX(0),
    'ma1': lambda: MA1(1, 2, 3), 'ma2': lambda: MA2(1, 2, 3), 'ma3': lambda: MA3(1, 2, 3),
    'badma': lambda: BadMA(), 'badma2': lambda: BadMA2(), 'dp': lambda: DP(0, 1), 'prop': lambda: PropPoint(),
    'red': lambda: Color.RED, 'isub': lambda: IntSub31(0), 'ssub': lambda: StrSub31('ab'), 'eqlog': lambda: EqLog(0),
}


class W31:
    """Callable exported by the generated C31 modules: builds the subject from its key, calls f, and (for
    defaultdict subjects) appends the keys present afterwards (mapping patterns must not insert keys)."""
    def __init__(self, f):
        self.f = f

    def __call__(self, key):
        s = SUBJECTS[key]()
        r = self.f(s)
        if isinstance(s, dict):
            LOG.append(('subject-after', repr(sorted(map(repr, s)))))
        return r
