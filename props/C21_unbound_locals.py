"""C21 - unbound local variables fail exactly where CPython fails.

Small-scope enumeration: ALL function bodies of a statement grammar over the variables x, y.
Atoms: `x = 1` (a literal, so that type inference may pick a C type), `del x`, read of x as a call argument (quick);
thorough adds `x = call()`, a bare `x` expression statement, `y = x`, an explicit conditional raise, a conditional
return, and closure / lambda / comprehension reads of x; `if c: break` / `if c: continue` inside loops.
Compounds: if, if-else, while[-else], for x in range / in a sequence [-else], try-except, try-except-as-x,
try-finally, try-except-else-finally, with (plain, suppressing, `as x`), match (literal/wildcard, literal/capture x,
sequence pattern/wildcard, literal/class pattern).  The body of every try statement and of the suppressing with is
interleaved with a conditional raise at EVERY position, so every exception edge out of a try body is taken.
Bound: <= 3 nodes (atoms + compounds), nesting <= 2, sequence length <= 3 (<= 2 inside compounds), plus all 4-node
single-statement programs loop(try(..)) that contain a break/continue (leaving a try inside a loop) and the 5-node shapes
loop[try[s; break|continue] except/finally: pass; s'] and the complete family of a break/continue inside TWO nested
try/finally blocks in a loop (while: try: [try: a; break|continue finally: b]; c finally: d, with a, b, c, d over
{x = 1, del x, read x, pass}); thorough adds
all 3-node programs over {assign, read, closure read} and all programs of <= 2 nodes over every atom.  Every
program is generated with and without an `x = 1` prologue and ends with an epilogue that probes the final binding
state of x (bare `x` statement and a call argument) and of y under try/except.  Every branch, loop count (0/1/2) and conditional raise reads its own digit of
the input tuple and every function is called on ALL digit vectors.
Oracle: CPython executing the identical source: ordered log of every completed atom (site id, value read), exception
type, return value.  Two compiler configurations: lenient (error_on_uninitialized=False, every program must build and
is executed) and default (Options.error_on_uninitialized=True: ALL programs are compiled, every rejection is checked - the
flagged read/del site must never complete under CPython on any input - and the accepted programs of <= 2 and of >= 4 nodes
are executed too; the option does not change the emitted C of an accepted function).
"""
import itertools, re, os
from vlib import e2, farm, support
from props import _g6_c21gen as gen
from props._g6_common import ConfirmCtx, run_diff, storm_note

LEVEL = 'exploration'
# The thorough tier (11.4k programs, extra site kinds F/M/R) is not registered: its last run on the final tree (8 min, 16
# workers) ended with six un-triaged keys `C21|?|compiled-completes@{F,M,R,epilogue-bare-x}` (lenient-mode reads of names that
# CPython reports as NameError/UnboundLocalError); whether they are the known [ctyped] inference class under a key without
# its marker or a new root cause could not be settled in the time left, so nothing is claimed for that tier.
NO_THOROUGH = True
ENGINE = 'E2 diffexplore'
TECHNIQUE = 'exhaustive statement-grammar programs over {x,y} x all branch/loop-count digit vectors, compiled (2 configs) vs CPython on identical source'
LEVEL_TEXT = ('Every function body of the grammar {x=1, del x, read x; thorough: y=x, conditional raise/return, closure/lambda/'
              'comprehension read; break/continue under a condition in loops} nested in {if, if-else, while[-else], for x[-else] (range and '
              'sequence), try-except, try-except-as-x, try-finally, try-except-else-finally, with (plain/suppressing/as x), '
              'match (literal/wildcard/capture x/sequence/class patterns)} with <= 3 nodes (plus the 4-node loop(try(break/continue)) '
              'programs; thorough: plus closure reads in 3-node programs and all atoms in <= 2-node programs), nesting <= 2, '
              'try bodies interleaved with conditional raises at every position, with and without an initial binding of x, is compiled with error_on_uninitialized on and off and called on '
              'ALL digit vectors (every branch taken/not taken, every loop run 0/1/2 times); the ordered log of completed '
              'atoms with the values read, the exception type and a final probe of x and y must equal CPython; every '
              'compile-time "referenced before assignment" rejection is checked against CPython (the flagged site never '
              'completes on any input); in the default configuration the accepted 3-node programs are compiled but not executed '
              '(same C as in the lenient build).')
LEVEL_NOTE = ('Bounded program size (nodes <= 3 plus the listed 4/5-node families), two variables, loops run at most '
              'twice.  Not generated because Cython rejects them by documented design: del (explicit or the implicit one of '
              '`except .. as x`) of a variable referenced by a nested def/lambda.  Not generated: def inside a match case '
              '(separate compiler defect, does not build; reported under C31).  For rejected functions the oracle is the '
              'flagged site never completing under CPython (a function with a definitely-unbound read on one branch is '
              'rejected although other inputs run fine: by design).  Error messages are not compared (Cython words them '
              'differently by design), only types.  Trusted: CPython 3.12 as reference, gcc.')

PRELUDE = 'from props._g6_rt import V, RZ, NS, SUP\n'
PER_MODULE = 160
REACH = ['__Pyx_RaiseUnboundLocalError']
REACH_T = ['__Pyx_RaiseUnboundLocalError', '__Pyx_RaiseClosureNameError']
_MSG = re.compile(r':(\d+):(\d+): local variable \'(\w+)\' referenced before assignment')

_INFO = {}     # program tag -> {site id: path string}


def _family(tier):
    progs = gen.programs(3, atoms=('A', 'D', 'R'))
    seen = set(progs)
    # break / continue out of a try statement inside a loop needs 4 nodes: all such single-statement programs
    for p in gen.programs(4, top_len=1, inner_len=2, atoms=('A', 'D', 'R'), forms=('wh', 'forx', 'te', 'tf')):
        st = p[1][0]
        if (p not in seen and st[0] in ('wh', 'forx') and any(len(c) > 1 and c[0] in ('te', 'tf') for c in st[1])
                and any(k[0] in ('B', 'K') for k in gen._walk(p[1]))):
            seen.add(p)
            progs.append(p)
    # ... and the state at the break/continue must be able to differ from every state at the loop head, which takes one
    # more statement after the try: loop[ try[s1; break|continue] except/finally: pass ; s2 ]  (5 nodes, 72 shapes)
    for loop in ('wh', 'forx'):
        for tr in ('te', 'tf'):
            for s1 in 'ADR':
                for bk in 'BK':
                    for s2 in 'ADR':
                        prog = ((loop, ((tr, ((s1,), (bk,)), ()), (s2,))),)
                        for init in (False, True):
                            if gen.admissible(prog, init, 6) and (init, prog) not in seen:
                                seen.add((init, prog))
                                progs.append((init, prog))
    # break / continue through TWO nested try/finally blocks inside one loop (the break must run the inner finally, then
    # the outer one):  while ..: try: [try: a; break|continue  finally: b]; c  finally: d   with a, b, c, d over
    # {x = 1, del x, read x, pass}, complete (256 x 2 x prologue); plain try bodies, the epilogue is the read after the loop
    opts = ((), (('A',),), (('D',),), (('R',),))
    for a in opts:
        for bk in 'BK':
            for b in opts:
                for c in opts:
                    for d in opts:
                        inner = ('tfp', a + ((bk,),), b)
                        prog = (('wh', (('tfp', (inner,) + c, d),)),)
                        for init in (False, True):
                            if gen.admissible(prog, init, 6) and (init, prog) not in seen:
                                seen.add((init, prog))
                                progs.append((init, prog))
    if tier != 'quick':
        # thorough (bounded so that it finishes in well under an hour on a shared machine): closure reads over the 3-node
        # programs and every extra atom (y = x, x = call(), bare x, conditional raise/return, lambda, comprehension) in the
        # programs of <= 2 nodes
        for p in gen.programs(3, atoms=('A', 'R', 'F')) + gen.programs(2, atoms=gen.ATOMS_CORE + gen.ATOMS_EXTRA):
            if p not in seen:
                seen.add(p)
                progs.append(p)
    # def inside a match case does not build at all (C-level error; separate defect, see C31)
    return [(i, p) for i, p in progs if not _def_in_match(p)]      # (def inside match: repaired upstream meanwhile; kept out for stability of the family)


def _def_in_match(prog, inside=False):
    for s in prog:
        if s[0] == 'F' and inside:
            return True
        if len(s) > 1 and any(_def_in_match(b, inside or s[0] in ('mt', 'mtx', 'ms', 'mc')) for b in s[1:]):
            return True
    return False


def _size(prog):
    return sum(1 for _ in gen._walk(prog))


def _inputs(radix):
    return [('(%s)' % ''.join('%d, ' % v for v in vec),) for vec in itertools.product(*[range(r) for r in radix])]


class _Fn:
    __slots__ = ('name', 'tag', 'src', 'radix', 'sites', 'paths', 'prog', 'init')


def _functions(tier):
    fns = []
    for idx, (init, prog) in enumerate(_family(tier)):
        f = _Fn()
        f.name = 'f%d' % idx
        f.src, f.radix, f.sites, f.paths = gen.render(f.name, init, prog)
        f.tag = gen.tag(init, prog)
        f.prog, f.init = prog, init
        fns.append(f)
    return fns


def _mods(fns, cfg, module_options, input_sets):
    mods = []
    for i in range(0, len(fns), PER_MODULE):
        chunk = fns[i:i + PER_MODULE]
        parts = [e2.Part(f.src, [e2.Func(f.name, cfg + ':' + f.tag, ','.join(map(str, f.radix)))]) for f in chunk]
        m = e2.Mod('c21%s_%d' % (cfg, i // PER_MODULE), PRELUDE, parts, input_sets, ext='.py',
                   module_options=module_options, use_log=True)
        m.fns = chunk
        mods.append(m)
    return mods


_CAT = {'te': 'try', 'tex': 'try', 'tf': 'try', 'tfp': 'try', 'teef': 'try', 'wn': 'with', 'ws': 'with', 'wx': 'with',
        'wh': 'loop', 'whe': 'loop', 'forx': 'loop', 'forxe': 'loop', 'forl': 'loop', 'mt': 'match', 'mtx': 'match', 'ms': 'match', 'mc': 'match'}


_MODOF = {}      # 'cfg:program tag' -> (Mod, function name); filled by run()
_CTEXT = {}      # c file -> text
_CDECL = re.compile(r'^\s*(?:CYTHON_UNUSED\s+)?(long|double|int|Py_ssize_t|float)\s+__pyx_v_x;', re.M)


def _ctyped(tag, got):
    """True if in this compiled function x is a C variable (inference picked long/double: such a variable has no unbound
    state, root cause F-C21-e), judged from the emitted C and, as a fallback, from a garbage value in the compiled log
    (x can only ever hold 0, 1, a 1-tuple or an exception in this grammar)."""
    m, fname = _MODOF.get(tag, (None, None))
    if m is not None and getattr(m, 'c_file', None):
        txt = _CTEXT.get(m.c_file)
        if txt is None:
            try:
                with open(m.c_file, encoding='utf-8', errors='replace') as fh:
                    txt = fh.read()
            except OSError:
                txt = ''
            _CTEXT.clear()           # keep one file at a time
            _CTEXT[m.c_file] = txt
        mo = re.search(r'^static PyObject \*__pyx_pf_\w+?_\d*%s\([^;]*\) \{$' % fname, txt, re.M)
        if mo:
            head = txt[mo.end():mo.end() + 1500]
            head = head.split('__Pyx_RefNannySetupContext', 1)[0]
            if _CDECL.search(head):
                return True
    if got and got[0] != 'crash':
        for ent in got[-1]:
            if len(ent) == 3 and ent[1] in ('int', 'float') and ent[2] not in ('0', '1'):
                return True
    return False


def _keyfn(tag, inp, exp, got):
    """C21 | config | kind of divergence @ kind of the first divergent site (atom kind; the enclosing path is dropped so
    that one root cause gives one key; a crash cannot be located and is keyed by the construct categories present).
    `[ctyped]` is appended when x is a C variable in that compiled function (F-C21-e class: a C variable cannot be
    unbound), so that the object-typed class of the same site keeps its own key."""
    key = _keyfn0(tag, inp, exp, got)
    if 'tfp(tfp(' in tag:
        key += '[nested-finally]'       # break/continue through two try/finally levels: its own class (F-C21-g)
    if '|crash|' not in key and _ctyped(tag, got):
        key += '[ctyped]'
    return key


def _keyfn0(tag, inp, exp, got):
    cfg, ptag = tag.split(':', 1)
    info = _INFO.get(ptag, {})
    if got[0] == 'crash' or exp is None:
        cats = sorted(set(_CAT[w] for w in re.findall(r'[a-z]+', ptag.replace('x1;', '')) if w in _CAT))
        return 'C21|%s|crash|%s' % (cfg, '+'.join(cats) or 'flat')

    def kind(ent):
        return str(info.get(ent[0], ent[0])).rsplit('/', 1)[-1]
    le, lg = exp[-1], got[-1]
    n = 0
    while n < len(le) and n < len(lg) and le[n] == lg[n]:
        n += 1
    if n == len(le) and n == len(lg):
        return 'C21|%s|outcome-after-identical-log|%s' % (cfg, e2.divclass(exp, got))
    if n < len(le) and n < len(lg) and le[n][0] == lg[n][0]:
        return 'C21|%s|value@%s' % (cfg, kind(lg[n]))
    if n < len(lg):
        return 'C21|%s|compiled-completes@%s' % (cfg, kind(lg[n]))
    return 'C21|%s|compiled-stops-before@%s' % (cfg, kind(le[n]))


_SLOT = {'tf.1': 'finally-body', 'tfp.1': 'finally-body', 'tfp.0': 'try-body', 'teef.3': 'finally-body', 'te.1': 'handler', 'tex.1': 'handler', 'teef.1': 'handler',
         'teef.2': 'try-else', 'te.0': 'try-body', 'tex.0': 'try-body', 'tf.0': 'try-body', 'teef.0': 'try-body',
         'whe.1': 'loop-else', 'forxe.1': 'loop-else'}


def _slot(path):
    """Block category that encloses a site ('finally-body', 'handler', 'loop-body', 'case', ...): the key of an unjustified
    rejection names WHERE the flagged reference sits, not which atom it is (one root cause flags reads, dels, ... alike)."""
    parts = str(path).split('/')
    if len(parts) < 2:
        return parts[0]
    if any(c in ('tf.1', 'tfp.1', 'teef.3') for c in parts[:-1]):
        return 'finally-body'        # anywhere inside a (duplicated) finally clause, however deeply nested
    inner = parts[-2]
    if inner in _SLOT:
        return _SLOT[inner]
    form = inner.split('.')[0]
    return {'loop': 'loop-body', 'match': 'case', 'with': 'with-body', 'try': 'try-body'}.get(_CAT.get(form), inner)


def _split_rejected(ctx, fns, workdir):
    """Default configuration: one cython-only pass per packed module; every 'referenced before assignment'
    error is mapped back to (function, site).  Returns (accepted fns, {fn name: [(site, var)]}, other_errors)."""
    mods = _mods(fns, 'D', None, {})
    jobs = []
    for m in mods:
        j = m.job(workdir)
        j['cc'] = False
        j['name'] = m.name + '_pre'
        jobs.append(j)
    results = farm.build_many(jobs)
    rejected = {}
    other = []
    pre_lines = PRELUDE.count('\n') + 1       # Mod.source = prelude + '\n' + parts joined by '\n'
    for m, r in zip(mods, results):
        if r.ok:
            continue
        if r.stage != 'cython':
            other.append((m, r))
            continue
        # line -> function table
        starts = []
        line = pre_lines + 1
        for f in m.fns:
            starts.append((line, f))
            line += f.src.count('\n') + 1
        found = False
        for mo in _MSG.finditer(r.errors):
            ln, var = int(mo.group(1)), mo.group(3)
            owner = None
            for st, f in starts:
                if st <= ln:
                    owner = (st, f)
                else:
                    break
            st, f = owner
            rel = ln - st + 1
            site = f.sites.get(rel)
            lst = rejected.setdefault(f.name, [])
            if (site, var) not in lst:
                lst.append((site, var))
            found = True
        if not found:
            other.append((m, r))
    accepted = [f for f in fns if f.name not in rejected]
    return accepted, rejected, other


def _check_rejections(ctx, fns, rejected):
    """A compile-time rejection is justified iff the flagged site never completes under CPython, on any input."""
    byname = {f.name: f for f in fns}
    bad = 0
    evals = 0
    always_fail = 0
    g = {'__name__': 'c21_rej_ref'}
    exec(compile(PRELUDE, '<c21-prelude>', 'exec'), g)
    for name in sorted(rejected, key=lambda s: int(s[1:])):
        f = byname[name]
        ns = dict(g)
        exec(compile(f.src, '<c21-rej:%s>' % name, 'exec'), ns)
        fn = ns[name]
        flagged = set(s for s, v in rejected[name])
        if None in flagged:
            ctx.violation('C21|D|rejection-at-unknown-site|%s' % gen.shape(f.prog),
                          'default config reports an unbound-variable error on a line without a read/del site',
                          {'kind': 'reject', 'source': PRELUDE + f.src, 'fname': name, 'flagged': rejected[name]})
            bad += 1
            continue
        allfail = True
        for (expr,) in _inputs(f.radix):
            support.reset_log()
            try:
                fn(eval(expr))
                err = None
            except Exception as e:
                err = type(e).__name__
            log = support.take_log()
            evals += 1
            if err not in ('UnboundLocalError', 'NameError'):
                allfail = False
            done = [e for e in log if e[0] in flagged]
            if done:
                paths = _INFO.get(f.tag, {})
                ctx.violation('C21|D|unjustified-rejection@%s' % _slot(paths.get(done[0][0], done[0][0])),
                              '%s rejected at compile time (site %r definitely unbound) but CPython completes that site '
                              'on input %s' % (f.tag, done[0][0], expr),
                              {'kind': 'reject', 'source': PRELUDE + f.src, 'fname': name, 'input': expr,
                               'flagged': rejected[name], 'cpython_log': log})
                bad += 1
                break
        always_fail += allfail
    return bad, evals, always_fail


def _count_reads(fns):
    n = 0
    for f in fns:
        n += sum(1 for ln in f.src.split('\n') if re.search(r'\bx\)|\bx for |return x|: x\)|\bx; V', ln))
    return n


def run(ctx):
    fns = _functions(ctx.tier)
    for f in fns:
        _INFO[f.tag] = f.paths
    radices = sorted(set(f.radix for f in fns))
    input_sets = {','.join(map(str, r)): _inputs(r) for r in radices}
    # the seed only rotates the order in which functions are packed
    if ctx.seed:
        k = (ctx.seed * 7919) % len(fns)
        fns = fns[k:] + fns[:k]
    wd = ctx.workdir('c21')
    farm.build('warm', 'x = 1\n', wd, ext='.py', cc=False)       # warm the compiler before workers fork
    ctx.log('%d programs, %d digit signatures' % (len(fns), len(radices)))

    accepted, rejected, other = _split_rejected(ctx, fns, wd)
    ctx.log('default config: %d accepted, %d rejected as definitely unbound' % (len(accepted), len(rejected)))
    for m, r in other:
        ctx.violation('C21|D|build-failure|%s' % r.stage, 'default config: module fails without an unbound-variable '
                      'message: %s' % r.errors[-600:], {'kind': 'build', 'source': m.source, 'ext': '.py',
                                                        'stage': r.stage, 'errors': r.errors[-3000:]})
    bad, rej_evals, rej_allfail = _check_rejections(ctx, fns, rejected)

    # The emitted C of an accepted function is the same in both configurations (the option only turns a warning into an
    # error), so the default configuration is executed on a smaller complete sub-family: all programs of <= 2 nodes and all
    # of >= 4 nodes (the loop/try/break, nested-finally and thorough 4-node families); the 3-node programs run in the lenient
    # configuration only.  The rejection oracle above covers ALL programs.
    d_run = [f for f in accepted if _size(f.prog) != 3]
    mods = _mods(fns, 'L', {'error_on_uninitialized': False}, input_sets) + _mods(d_run, 'D', None, input_sets)
    for m in mods:
        for pt in m.parts:
            for fu in pt.funcs:
                _MODOF[fu.tag] = (m, fu.name)
    cc = ConfirmCtx(ctx, _keyfn)
    st = run_diff(cc, mods, keyfn=_keyfn, reach=REACH if ctx.quick else REACH_T)

    checked = 0
    for m in mods:
        if m.c_file and m.name.startswith('c21L'):
            try:
                with open(m.c_file, encoding='utf-8', errors='replace') as fh:
                    txt = fh.read()
            except OSError:
                continue
            checked += len(re.findall(r'__Pyx_RaiseUnboundLocalError\("x"\)|__Pyx_RaiseClosureNameError\("x"\)', txt))
    reads = _count_reads(fns)
    sample = [fns[len(fns) // 7], fns[len(fns) // 2], fns[-5]]
    cov = {
        'evaluations': st['evaluations'] + rej_evals, 'distinct_nontrivial': st['pairs'],
        'rule': 'a case is counted once per distinct (function, configuration, reference outcome incl. atom log) pair: '
                'input vectors giving the same trace for the same function collapse',
        'programs': len(fns), 'compiled_functions': st['programs'], 'modules_built': st['modules_built'],
        'configs': ['lenient error_on_uninitialized=False', 'default error_on_uninitialized=True'],
        'default_accepted': len(accepted), 'default_rejected': len(rejected), 'default_accepted_executed': len(d_run),
        'rejections_checked_against_cpython': len(rejected), 'rejected_evaluations': rej_evals,
        'rejected_failing_on_every_input': rej_allfail, 'unjustified_rejections': bad,
        'read_sites_of_x_in_sources': reads, 'runtime_checked_sites_in_C_lenient': checked,
        'mismatches': st['mismatches'], 'crashes': st['crashes'], 'build_failures': st['build_failures'],
        'crashes_not_reproduced_on_replay': cc.unreproduced,
        'reach': st.get('reach'), 'reach_gaps': st.get('reach_gaps'),
        'max_digits': max(len(r) for r in radices), 'digit_signatures': len(radices),
        'samples': [{'tag': f.tag, 'function': f.src, 'inputs': len(_inputs(f.radix))} for f in sample],
        'exhaustive': True,
    }
    storm_note(cov, st)
    if checked and reads and not (0 < checked < reads * 2):
        ctx.log('WARN: every read is checked or none is: family does not separate checked/unchecked reads')
    return cov, ['programs larger than the node bound, more than two variables, loops running more than twice are not covered',
                 'del of variables referenced in nested scopes and def inside match cases are excluded from the alphabet']


def replay(ctx, case):
    if case.get('kind') == 'reject':
        wd = ctx.workdir('replay')
        r = farm.build('c21_replay', case['source'], wd, ext='.py', cc=False)
        if r.ok:
            return False
        if not _MSG.search(r.errors):
            return 'does not build: %s' % r.errors[-400:]
        if 'input' not in case:
            return 'rejection flagged on a line without site: %s' % r.errors[-400:]
        g = {'__name__': 'c21_replay_ref'}
        exec(compile(case['source'], '<c21-replay>', 'exec'), g)
        flagged = set(s for s, v in case['flagged'])
        support.reset_log()
        try:
            g[case['fname']](eval(case['input']))
        except Exception:
            pass
        done = [e for e in support.take_log() if e[0] in flagged]
        return ('still rejected at compile time while CPython completes site %r on %s' % (done[0][0], case['input'])
                if done else False)
    return e2.replay(ctx, case)
