"""C41 - compiler directives apply exactly within their scope.

(a) Scope / precedence, complete product: `binding` (observable: type of the function object) over all
3**4 assignments to (option, header, module-level with block around the def, function decorator) and all
3**4 to (option, header, cdef-class decorator, method decorator); for each value-observable directive D in
{cdivision, cpow, overflowcheck} ALL 3**5 = 243 assignments of {unset, True, False} to the five levels
(option passed to the compiler, `# cython:` header comment, class decorator, function decorator, `with` block)
are compiled (9 modules = option x header, each holding 3 x 27 methods) and run; every method returns the
value of a probe expression BEFORE the with block, INSIDE it and AFTER it (so a block that restores the
wrong outer value, or a decorator that leaks to the following method, changes a returned value).
Model: effective value = innermost level that is set, header over option over default.  Probes are safe on
both sides: cdivision -7 // 2 -> -4 / -3; cpow 2 ** -1 -> 0.5 / 0; overflowcheck 65536 * 65536 (C int)
-> 0 / OverflowError.  Extra cells: doubly nested with blocks (all 9 True/False/unset pairs), sibling
functions after a decorated one, two header lines, a `# cython:` comment after the first statement (not a
header), conflicting header lines (error).

(c) One-process histories: every ordered pair (and triple) of module kinds {header cdivision=True, header
cdivision=False, no header, option cdivision=True, header with three other directives} compiled in ONE process
with an empty compiler_directives option; each later module's generated C must be byte-identical to the C
the same module gives when compiled alone in a fresh process (header directives must not leak).

(b) Directive value parsing, complete table: every name in Options.directive_types (+ an unknown one) x
every string of a 17-value alphabet through parse_directive_value (strict and relaxed_bool) against a
model transcribed from the documented types (bool: exactly True/False, relaxed: true/yes/false/no in any
case; int; str; enumerations with their aliases; encoding names); outcome must be the documented value or
ValueError - never another exception.  parse_directive_list: items x separators x flags table (whitespace,
trailing/double commas, missing '=', unknown names with/without ignore_unknown, dotted names, warn.all
style expansion, list-typed directives accumulating, current_settings carried over).
"""
import os, sys, itertools
from vlib import farm, runner

LEVEL = 'exploration'
ENGINE = 'E2 diffexplore'
TECHNIQUE = ('complete 3^5 level-assignment product per observable directive executed compiled vs a precedence model; '
             'complete (directive name x value string) table for the directive parsers vs a documented-type model')
LEVEL_TEXT = ('For cdivision, cpow and overflowcheck every assignment of {unset, True, False} to the five sources of a setting '
              '(compiler option, header comment, class decorator, function decorator, with block) is compiled and executed; the '
              'probe values before, inside and after the with block must equal the innermost-set-wins / header-over-option model.  '
              'All ordered pairs and triples of header/option module kinds are compiled in one process and must give the C of a '
              'stand-alone compilation.  Every directive name x 17 value strings x {strict, relaxed} goes through parse_directive_value and an item x '
              'separator x flag table through parse_directive_list; results must be the documented value or ValueError.')
LEVEL_NOTE = ('Three value-observable directives stand for the scope machinery (boundscheck/wraparound/nonecheck off-sides are '
              'undefined behaviour and are not executed; c_string_type is not settable in with blocks; binding is covered at the levels '
              'where it is legal - a cdef class cannot be placed in a with block).  Option level = '
              'CompilationOptions(compiler_directives=...), which is what cythonize(compiler_directives=) and -X end in.  '
              'Parsing model is a transcription of the documented directive types.')

PROBES = {
    # name: (expression, args, value when True, value when False, default)
    'cdivision': ('a // b', (-7, 2), -3, -4, False),
    'cpow': ('a ** b', (2, -1), 0, 0.5, False),
    'overflowcheck': ('a * b', (65536, 65536), 'OVF', 0, False),
}
V = (None, True, False)
TAG = {None: 'U', True: 'T', False: 'F'}


def effective(d, o, h, c, f, w=None):
    for v in (w, f, c, h, o):
        if v is not None:
            return v
    return PROBES[d][4]


def value_of(d, setting):
    return PROBES[d][2] if setting else PROBES[d][3]


def _probe(d, var, ind):
    expr = PROBES[d][0]
    return ['%stry:' % ind, '%s    %s = %s' % (ind, var, expr), '%sexcept OverflowError:' % ind, "%s    %s = 'OVF'" % (ind, var)]


def module_source(o, h):
    """One module for the (option, header) pair; the option level is applied by the build job."""
    hdr = ', '.join('%s=%s' % (d, h) for d in list(PROBES) + ['binding']) if h is not None else ''
    src = []
    if hdr:
        src.append('# cython: ' + hdr)
    src.append('cimport cython')
    cases = []
    for d in PROBES:
        for c in V:
            cls = 'K_%s_%s' % (d, TAG[c])
            if c is not None:
                src.append('@cython.%s(%s)' % (d, c))
            src.append('cdef class %s:' % cls)
            for f in V:
                for w in V:
                    name = 'm_%s_%s' % (TAG[f], TAG[w])
                    if f is not None:
                        src.append('    @cython.%s(%s)' % (d, f))
                    src.append('    def %s(self, int a, int b):' % name)
                    src += _probe(d, 'r0', '        ')
                    if w is not None:
                        src.append('        with cython.%s(%s):' % (d, w))
                    else:
                        src.append('        if a:')
                    src += _probe(d, 'r1', '            ')
                    src += _probe(d, 'r2', '        ')
                    src.append('        return r0, r1, r2')
                    cases.append({'d': d, 'cls': cls, 'meth': name, 'levels': [o, h, c, f, w], 'kind': 'product'})
        # nested with blocks and a sibling after a decorated function (module-level functions)
        for w1 in V:
            for w2 in V:
                name = 'nest_%s_%s_%s' % (d, TAG[w1], TAG[w2])
                src.append('def %s(int a, int b):' % name)
                src.append('    with cython.%s(%s):' % (d, w1) if w1 is not None else '    if a:')
                src += _probe(d, 'r0', '        ')
                src.append('        with cython.%s(%s):' % (d, w2) if w2 is not None else '        if a:')
                src += _probe(d, 'r1', '            ')
                src += _probe(d, 'r2', '        ')
                src.append('    return r0, r1, r2')
                cases.append({'d': d, 'func': name, 'levels': [o, h, None, None, None], 'kind': 'nested', 'w1': w1, 'w2': w2})
        for f in (True, False):
            src.append('@cython.%s(%s)' % (d, f))
            src.append('def deco_%s_%s(int a, int b):' % (d, TAG[f]))
            src += _probe(d, 'r0', '    ')
            src.append('    return r0, r0, r0')
            src.append('def after_%s_%s(int a, int b):' % (d, TAG[f]))
            src += _probe(d, 'r0', '    ')
            src.append('    return r0, r0, r0')
            cases.append({'d': d, 'func': 'deco_%s_%s' % (d, TAG[f]), 'levels': [o, h, None, f, None], 'kind': 'sibling-decorated'})
            cases.append({'d': d, 'func': 'after_%s_%s' % (d, TAG[f]), 'levels': [o, h, None, None, None], 'kind': 'sibling-after'})
    # binding: observable = type of the function object; legal levels are option, header, a module-level with block
    # around the def, the decorator of a cdef class and the function decorator (a cdef class cannot sit in a with block)
    for w in V:
        src.append('with cython.binding(%s):' % w if w is not None else 'if True:')
        for f in V:
            name = 'bf_%s_%s' % (TAG[w], TAG[f])
            if f is not None:
                src.append('    @cython.binding(%s)' % f)
            src.append('    def %s(a, b):' % name)
            src.append('        return a')
            cases.append({'d': 'binding', 'func': name, 'levels': [o, h, w, f, None], 'kind': 'binding-func'})
    for c in V:
        cls = 'BK_%s' % TAG[c]
        if c is not None:
            src.append('@cython.binding(%s)' % c)
        src.append('cdef class %s:' % cls)
        for f in V:
            name = 'bm_%s' % TAG[f]
            if f is not None:
                src.append('    @cython.binding(%s)' % f)
            src.append('    def %s(self, a, b):' % name)
            src.append('        return a')
            cases.append({'d': 'binding', 'cls': cls, 'meth': name, 'levels': [o, h, c, f, None], 'kind': 'binding-method'})
    return '\n'.join(src) + '\n', cases


def expected(case):
    d = case['d']
    o, h, c, f, w = case['levels']
    if d == 'binding':
        eff = next((v for v in (f, c, h, o) if v is not None), True)     # levels = [option, header, with|class, func]
        return ('bound' if eff else 'plain',) * 3
    if case['kind'] == 'nested':
        outer = effective(d, o, h, None, None, case['w1'])
        inner = case['w2'] if case['w2'] is not None else outer
        return (value_of(d, outer), value_of(d, inner), value_of(d, outer))
    base = effective(d, o, h, c, f)
    inside = effective(d, o, h, c, f, w)
    return (value_of(d, base), value_of(d, inside), value_of(d, base))


HEADER_CELLS = [
    # (name, source, expected (div(-7, 2), pw(2, -1)) or 'error')
    ('two-lines', '# cython: cdivision=True\n# cython: cpow=True\ndef f(int a, int b):\n    return a // b\ndef g(int a, int b):\n    return a ** b\n', (-3, 0)),
    ('one-line-two', '#cython:cdivision=True,cpow=True\ndef f(int a, int b):\n    return a // b\ndef g(int a, int b):\n    return a ** b\n', (-3, 0)),
    ('spaces', '#   cython:   cdivision = True ,  cpow = True  \ndef f(int a, int b):\n    return a // b\ndef g(int a, int b):\n    return a ** b\n', (-3, 0)),
    ('after-blank-and-comment', '\n# a comment\n# cython: cdivision=True\n\ndef f(int a, int b):\n    return a // b\ndef g(int a, int b):\n    return a ** b\n', (-3, 0.5)),
    ('after-code', 'x = 1\n# cython: cdivision=True\ndef f(int a, int b):\n    return a // b\ndef g(int a, int b):\n    return a ** b\n', (-4, 0.5)),
    ('after-docstring', '"""doc"""\n# cython: cdivision=True\ndef f(int a, int b):\n    return a // b\ndef g(int a, int b):\n    return a ** b\n', (-4, 0.5)),
    ('duplicate-same', '# cython: cdivision=True\n# cython: cdivision=True\ndef f(int a, int b):\n    return a // b\ndef g(int a, int b):\n    return a ** b\n', (-3, 0.5)),
    ('conflict', '# cython: cdivision=True\n# cython: cdivision=False\ndef f(int a, int b):\n    return a // b\ndef g(int a, int b):\n    return a ** b\n', 'error'),
    ('bad-bool', '# cython: cdivision=yes\ndef f(int a, int b):\n    return a // b\ndef g(int a, int b):\n    return a ** b\n', 'error'),
    ('unknown-ignored', '# cython: nosuchdirective=1, cdivision=True\ndef f(int a, int b):\n    return a // b\ndef g(int a, int b):\n    return a ** b\n', (-3, 0.5)),
]


def _run_module(so, name, cases):
    mod = farm.load(so, name)
    out = []
    for c in cases:
        if c['d'] == 'binding':
            obj = getattr(getattr(mod, c['cls']), c['meth']) if 'cls' in c else getattr(mod, c['func'])
            t = 'bound' if type(obj).__name__ == 'cython_function_or_method' else 'plain'
            out.append(('value', [repr(t)] * 3))
            continue
        args = PROBES[c['d']][1]
        try:
            if 'cls' in c:
                r = getattr(getattr(mod, c['cls'])(), c['meth'])(*args)
            else:
                r = getattr(mod, c['func'])(*args)
            out.append(('value', [repr(x) for x in r]))
        except BaseException as e:
            out.append(('exc', type(e).__name__))
    return out


def _run_header(so, name):
    mod = farm.load(so, name)
    return repr((mod.f(-7, 2), mod.g(2, -1)))


def _job(arg):
    kind = arg[0]
    if kind == 'product':
        _, name, src, directives, cases, wd = arg
        r = farm.build(name, src, wd, ext='.pyx', directives=directives)
        if not r.ok:
            return ('build', r.stage, r.errors[-800:])
        rr = runner.forked(_run_module, r.so, name, cases, timeout=300)
        if rr.kind != 'ok':
            return ('run', rr.kind, str(rr.value)[-500:] + rr.output[-500:])
        return ('ok', rr.value)
    _, name, src, wd = arg
    r = farm.build(name, src, wd, ext='.pyx')
    if not r.ok:
        return ('build', r.stage, r.errors[-800:])
    rr = runner.forked(_run_header, r.so, name, timeout=300)
    if rr.kind != 'ok':
        return ('run', rr.kind, str(rr.value)[-500:])
    return ('ok', rr.value)


def part_a(ctx):
    wd = ctx.workdir('a')
    jobs = []
    meta = []
    for o in V:
        for h in V:
            src, cases = module_source(o, h)
            name = 'c41_%s%s' % (TAG[o], TAG[h])
            directives = {d: o for d in list(PROBES) + ['binding']} if o is not None else None
            jobs.append(('product', name, src, directives, cases, wd))
            meta.append((name, src, directives, cases))
    for i, (hname, src, exp) in enumerate(HEADER_CELLS):
        jobs.append(('header', 'c41h%d' % i, src, wd))
    if ctx.seed:
        pass    # nothing to permute: the family is a fixed product built in parallel
    res = farm.pmap(_job, jobs)
    evals = 0
    nontriv = set()
    mism = 0
    outcomes = set()
    for (name, src, directives, cases), r in zip(meta, res[:len(meta)]):
        if r[0] != 'ok':
            ctx.violation('scope|module-%s|%s' % (r[0], r[1]), '%s: %s' % (name, r[2]), {'part': 'a', 'source': src, 'directives': directives})
            continue
        for c, got in zip(cases, r[1]):
            evals += 1
            want = ('value', [repr(x) for x in expected(c)])
            outcomes.add((c['d'], tuple(want[1])))
            if any(v is not None for v in c['levels']) or c['kind'] == 'nested':
                nontriv.add((c['d'], c['kind'], tuple(c['levels']), c.get('w1'), c.get('w2')))
            if tuple(got) != want and list(got) != list(want):
                mism += 1
                o, h, cl, f, w = c['levels']
                # root key: which returned slot is wrong and which level holds the innermost setting
                slots = 'exc' if got[0] != 'value' else '+'.join(s for s, a, b in zip(('before', 'inside', 'after'), got[1], want[1]) if a != b)
                inner = next((nm for nm, v in zip(('with', 'funcdeco', 'classdeco', 'header', 'option'), (w, f, cl, h, o)) if v is not None), 'default')
                if c['d'] == 'binding':
                    inner = next((nm for nm, v in zip(('funcdeco', 'with' if c['kind'] == 'binding-func' else 'classdeco', 'header', 'option'),
                                                      (f, cl, h, o)) if v is not None), 'default')
                set_levels = '+'.join(nm for nm, v in zip(('option', 'header', 'classdeco', 'funcdeco', 'with'), (o, h, cl, f, w)) if v is not None)
                ctx.violation('scope|%s|%s|wrong=%s%s' % (c['d'], c['kind'], slots, '|innermost=' + inner if c['kind'] != 'nested' else ''),
                              '%s %s levels(option,header,class,func,with)=%r%s: got %r, model %r'
                              % (c['d'], c.get('meth') or c.get('func'), c['levels'],
                                 ' nested=%r' % ((c.get('w1'), c.get('w2')),) if c['kind'] == 'nested' else '', got, want),
                              {'part': 'a', 'source': src, 'directives': directives, 'case': c})
    for (hname, src, exp), r in zip(HEADER_CELLS, res[len(meta):]):
        evals += 1
        nontriv.add(('header', hname))
        if exp == 'error':
            if not (r[0] == 'build' and r[1] == 'cython'):
                mism += 1
                ctx.violation('header|%s|accepted' % hname, 'header cell %s must be rejected by the compiler, got %r' % (hname, r), {'part': 'h', 'name': hname, 'source': src})
        elif r[0] != 'ok' or r[1] != repr(exp):
            mism += 1
            ctx.violation('header|%s|%s' % (hname, 'value' if r[0] == 'ok' else r[0]), 'header cell %s: got %r, expected %r' % (hname, r, exp),
                          {'part': 'h', 'name': hname, 'source': src, 'expected': repr(exp)})
    return {'evaluations': evals, 'nontrivial': nontriv, 'mismatches': mism, 'modules': len(jobs), 'distinct_expected_outcomes': len(outcomes)}


# ============================================================================================= part (c)
# Header directives must not outlive their compilation: all ordered pairs and triples of module kinds compiled in ONE
# process; every later module's generated C must equal what the same module gives when compiled alone in a fresh process.
LEAK_BODY = ('def div(int a, int b):\n    return a // b\ndef idx(list l, int i):\n    return l[i]\n'
             'def pw(int a, int b):\n    return a ** b\ndef plain(x):\n    return x\n')
LEAK_KINDS = {
    'HT': ('# cython: cdivision=True\n', {}),
    'HF': ('# cython: cdivision=False\n', {}),
    'NH': ('', {}),
    'OPT': ('', {'cdivision': True}),
    'H2': ('# cython: boundscheck=False, cpow=True, binding=False\n', {}),
}


def _leak_child(workdir, seq):
    import hashlib
    os.makedirs(workdir, exist_ok=True)
    os.chdir(workdir)
    from Cython.Compiler import Main
    out = []
    for kind in seq:
        hdr, opt = LEAK_KINDS[kind]
        fn = 'm_%s.pyx' % kind
        with open(fn, 'w') as f:
            f.write(hdr + LEAK_BODY)
        # compiler_directives is EMPTY unless the kind sets the option (the command line / cythonize default)
        opts = Main.CompilationOptions(Main.default_options, language_level=3, compiler_directives=dict(opt))
        r = Main.compile_single(fn, opts, None)
        if r.num_errors:
            out.append('errors')
            continue
        with open('m_%s.c' % kind, 'rb') as f:
            data = f.read()
        out.append(hashlib.sha256(data).hexdigest()[:16] + (':div' if b'__Pyx_div_' in data else ':cdiv'))
    return out


def _leak_job(arg):
    idx, seq, wd = arg
    r = runner.forked(_leak_child, os.path.join(wd, 's%d' % idx), list(seq), timeout=600)
    if r.kind != 'ok':
        return ('fail', '%s %s %s' % (r.kind, str(r.value)[-600:], r.output[-400:]))
    return ('ok', r.value)


def part_c(ctx):
    kinds = list(LEAK_KINDS)
    tri = kinds[:3] if ctx.quick else kinds      # quick: triples over the three header kinds; thorough: all five kinds
    seqs = [(k,) for k in kinds] + list(itertools.product(kinds, repeat=2)) + list(itertools.product(tri, repeat=3))
    wd = ctx.workdir('leak')
    # warm the compiler in this process first (explicit full directive set, no header), so that the forked children do
    # not each pay the first-compile cost; the children themselves start without any header compiled before them
    farm.build('warmc', LEAK_BODY, wd, ext='.pyx', cc=False)
    res = farm.pmap(_leak_job, [(i, sq, wd) for i, sq in enumerate(seqs)])
    alone = {}
    evals = 0
    nontriv = set()
    mism = 0
    for sq, r in zip(seqs, res):
        if len(sq) == 1:
            if r[0] != 'ok' or r[1][0] == 'errors':
                ctx.violation('history|harness|alone-failed', '%r: %r' % (sq, r), {'part': 'c', 'seq': list(sq)})
            else:
                alone[sq[0]] = r[1][0]
    for sq, r in zip(seqs, res):
        if len(sq) == 1:
            continue
        if r[0] != 'ok':
            mism += 1
            ctx.violation('history|harness|sequence-failed', '%r: %s' % (sq, r[1]), {'part': 'c', 'seq': list(sq)})
            continue
        for i, (kind, got) in enumerate(zip(sq, r[1])):
            evals += 1
            nontriv.add(sq[:i + 1])
            if got != alone.get(kind):
                mism += 1
                ctx.violation('history|' + '>'.join(sq[:i + 1]),
                              'compiled in one process in the order %r, module %d (%s) gives C %s; compiled alone it gives %s'
                              % (list(sq), i + 1, kind, got, alone.get(kind)), {'part': 'c', 'seq': list(sq[:i + 1])})
                break
    return {'evaluations': evals, 'nontrivial': nontriv, 'mismatches': mism, 'sequences': len(seqs),
            'distinct_alone_outputs': len(set(alone.values()))}


# ============================================================================================= part (b)
VALUES = ['True', 'False', 'true', 'TRUE', 'yes', 'No', '1', '0', '', 'None', '5', '-3', '"quoted"', 'utf-8', 'str', 'clinic', 'own_gil', 'nonsense value']
ENUMS = {
    'c_string_type': ({'bytes': 'bytes', 'bytearray': 'bytearray', 'str': 'str', 'unicode': 'str'}),
    'embedsignature.format': {'c': 'c', 'clinic': 'clinic', 'python': 'python'},
    'subinterpreters_compatible': {'no': 'no', 'shared_gil': 'shared_gil', 'own_gil': 'own_gil'},
    'collection_type': {'sequence': 'sequence', 'mapping': 'mapping'},
}
BOOL_NAMES_DOC = None


def model_value(kind, name, value, relaxed):
    """kind in 'bool' | 'int' | 'str' | 'enum' | 'encoding' | 'novalue'.  -> ('value', v) | ('error',) | ('none',)"""
    if kind == 'bool':
        if value == 'True':
            return ('value', True)
        if value == 'False':
            return ('value', False)
        if relaxed and value.lower() in ('true', 'yes'):
            return ('value', True)
        if relaxed and value.lower() in ('false', 'no'):
            return ('value', False)
        return ('error',)
    if kind == 'int':
        try:
            return ('value', int(value))
        except ValueError:
            return ('error',)
    if kind == 'str':
        return ('value', value)
    if kind == 'enum':
        return ('value', ENUMS[name][value]) if value in ENUMS[name] else ('error',)
    if kind == 'encoding':
        if not value:
            return ('value', '')
        low = value.lower()
        if low in ('utf8', 'utf-8', 'default'):
            return ('value', 'utf8')
        if low in ('ascii', 'us-ascii'):
            return ('value', 'ascii')
        return ('any-str',)
    return ('none-or-error',)


def kind_of(name, Options):
    t = Options.directive_types.get(name)
    if t is bool:
        return 'bool'
    if t is int:
        return 'int'
    if t is str:
        return 'str'
    if name in ENUMS:
        return 'enum'
    if name == 'c_string_encoding':
        return 'encoding'
    return 'novalue'


def part_b(ctx):
    from Cython.Compiler import Options
    names = sorted(Options.directive_types) + ['no_such_directive']
    evals = 0
    nontriv = set()
    mism = 0
    kinds = {}
    skipped = 0
    for name in names:
        k = kind_of(name, Options)
        kinds[k] = kinds.get(k, 0) + 1
        for value in VALUES:
            for relaxed in (False, True):
                evals += 1
                try:
                    got = ('value', Options.parse_directive_value(name, value, relaxed_bool=relaxed))
                except ValueError:
                    got = ('error',)
                except Exception as e:
                    got = ('crash', type(e).__name__)
                want = model_value(k, name, value, relaxed)
                nontriv.add((k, value, relaxed, want[0]))
                ok = (got == want or (want == ('any-str',) and got[0] == 'value' and isinstance(got[1], str))
                      or (want == ('none-or-error',) and got in (('value', None), ('error',))))
                if name == 'no_such_directive':
                    ok = got == ('value', None)
                if k == 'novalue' and name != 'no_such_directive' and (name not in Options._directive_defaults
                                                                       or Options.directive_types.get(name) is list):
                    # decorator-only directives (locals, returns, cfunc, ...): parse_directive_list rejects them as unknown
                    # before parse_directive_value is reached; list-typed ones are collected by parse_directive_list itself
                    skipped += 1
                    continue
                if not ok:
                    mism += 1
                    vclass = 'True/False' if value in ('True', 'False') else 'relaxed-word' if value.lower() in ('true', 'yes', 'no', 'false') else 'other'
                    key = ('parse-value|%s|crash:%s' % (k, got[1]) if got[0] == 'crash' else
                           'parse-value|%s|%s|%s|%s' % (k, 'relaxed' if relaxed else 'strict', vclass, got[0]))
                    ctx.violation(key,
                                  'parse_directive_value(%r, %r, relaxed_bool=%r) -> %r, documented: %r' % (name, value, relaxed, got, want),
                                  {'part': 'b', 'name': name, 'value': value, 'relaxed': relaxed, 'kind': k})
    # parse_directive_list table
    items = [('boundscheck=True', {'boundscheck': True}), ('cdivision = False', {'cdivision': False}), ('optimize.use_switch=False', {'optimize.use_switch': False}),
             ('c_string_type=unicode', {'c_string_type': 'str'}), ('language_level=3', {'language_level': '3'}),
             ('boundscheck=yes', 'relaxed:boundscheck=True'), ('boundscheck=hey', 'error'), ('asdf', 'error'), ('unknown_thing=True', 'unknown'),
             ('embedsignature.format=nope', 'error'), ('', {}), ('   ', {}), ('test_assert_path_exists=//a', {'test_assert_path_exists': ['//a']})]
    seps = [',', ' , ', ',,', ', ,']
    for (a, ea), (b, eb) in itertools.product(items, repeat=2):
        for sep in seps:
            for relaxed in (False, True):
                for ignore in (False, True):
                    for trailing in ('', ','):
                        s = a + sep + b + trailing
                        evals += 1
                        want = {}
                        err = False
                        for e in (ea, eb):
                            if e == 'error':
                                err = True
                                break
                            if e == 'unknown':
                                if not ignore:
                                    err = True
                                    break
                                continue
                            if isinstance(e, str) and e.startswith('relaxed:'):
                                if not relaxed:
                                    err = True
                                    break
                                e = {'boundscheck': True}
                            for k2, v2 in e.items():
                                if isinstance(v2, list) and k2 in want:
                                    want[k2] = want[k2] + v2
                                else:
                                    want[k2] = list(v2) if isinstance(v2, list) else v2
                        try:
                            got = ('value', Options.parse_directive_list(s, relaxed_bool=relaxed, ignore_unknown=ignore))
                        except ValueError:
                            got = ('error',)
                        except Exception as e:
                            got = ('crash', type(e).__name__)
                        nontriv.add(('list', a, b, relaxed, ignore))
                        if (err and got != ('error',)) or (not err and got != ('value', want)):
                            mism += 1
                            ctx.violation('parse-list|%s' % ('should-fail' if err else got[0] if got[0] != 'value' else 'wrong-dict'),
                                          'parse_directive_list(%r, relaxed_bool=%r, ignore_unknown=%r) -> %r, documented: %r'
                                          % (s, relaxed, ignore, got, 'ValueError' if err else want),
                                          {'part': 'l', 's': s, 'relaxed': relaxed, 'ignore': ignore, 'want': None if err else want})
    # warn.all style expansion and current_settings
    evals += 2
    try:
        w = Options.parse_directive_list('warn.all=True')
        if not (len(w) > 1 and all(k.startswith('warn.') and v is True for k, v in w.items())):
            mism += 1
            ctx.violation('parse-list|prefix-all', 'warn.all=True -> %r' % (w,), {'part': 'l', 's': 'warn.all=True', 'relaxed': False, 'ignore': False, 'want': 'all warn.* True'})
        cur = {'cdivision': True}
        r2 = Options.parse_directive_list('boundscheck=False', current_settings=cur)
        if r2 != {'cdivision': True, 'boundscheck': False}:
            mism += 1
            ctx.violation('parse-list|current_settings', 'current_settings not carried: %r' % (r2,), {'part': 'l', 's': 'boundscheck=False', 'relaxed': False, 'ignore': False, 'want': 'merged'})
    except Exception as e:
        mism += 1
        ctx.violation('parse-list|crash:%s' % type(e).__name__, 'warn.all / current_settings: %s' % e, {'part': 'l', 's': 'warn.all=True', 'relaxed': False, 'ignore': False, 'want': 'no exception'})
    return {'evaluations': evals, 'nontrivial': nontriv, 'mismatches': mism, 'directive_names': len(names), 'names_by_kind': kinds,
            'decorator_only_cells_skipped': skipped}


def run(ctx):
    only = os.environ.get('C41_PARTS')     # debugging aid only (evidence then says exhaustive: false)
    parts = set(only.split(',')) if only else {'a', 'b', 'c'}
    a = {'evaluations': 0, 'nontrivial': set(), 'modules': 0}
    b = {'evaluations': 0, 'nontrivial': set()}
    if 'a' in parts:
        a = part_a(ctx)
        ctx.log('part a: %r' % {k: v for k, v in a.items() if k != 'nontrivial'})
    if 'b' in parts:
        b = part_b(ctx)
        ctx.log('part b: %r' % {k: v for k, v in b.items() if k != 'nontrivial'})
    c3 = {'evaluations': 0, 'nontrivial': set()}
    if 'c' in parts:
        c3 = part_c(ctx)
        ctx.log('part c: %r' % {k: v for k, v in c3.items() if k != 'nontrivial'})
    src, cases = module_source(True, False)
    cov = {
        'evaluations': a['evaluations'] + b['evaluations'] + c3['evaluations'],
        'distinct_nontrivial': len(a['nontrivial']) + len(b['nontrivial']) + len(c3['nontrivial']),
        'rule': 'scope part: distinct (directive, kind, level assignment) with at least one level set (the all-unset assignment is the '
                'trivial case); parse part: distinct (type kind, value string, relaxed flag, documented outcome class) and distinct '
                '(item pair, flags) - directive names of the same type kind and separators collapse; history part: distinct module-kind '
                'prefixes compiled in one process',
        'scope': {k: v for k, v in a.items() if k != 'nontrivial'}, 'parsing': {k: v for k, v in b.items() if k != 'nontrivial'},
        'one_process_histories': {k: v for k, v in c3.items() if k != 'nontrivial'},
        'programs': 9 * len(cases) + len(HEADER_CELLS), 'modules_built': a['modules'],
        'samples': [{'levels(option,header,class,func,with)': cases[5]['levels'], 'method': cases[5]['cls'] + '.' + cases[5]['meth'],
                     'expected': [repr(x) for x in expected(cases[5])]},
                    {'header_cell': HEADER_CELLS[4][0], 'source': HEADER_CELLS[4][1], 'expected': repr(HEADER_CELLS[4][2])},
                    {'parse_directive_value': ['boundscheck', 'true', 'relaxed_bool=False'], 'documented': 'ValueError'}],
        'exhaustive': not only,
    }
    return cov, ['precedence model: innermost set level wins; header over option over default', 'gcc -fwrapv makes the overflowcheck=False product wrap to 0']


def replay(ctx, case):
    if case.get('part') == 'a':
        wd = ctx.workdir('replay')
        c = case['case']
        r = _job(('product', 'c41_replay', case['source'], case['directives'], [c], wd))
        if r[0] != 'ok':
            return 'module %s: %s' % (r[0], r[2])
        want = ('value', [repr(x) for x in expected(c)])
        got = r[1][0]
        return False if list(got) == list(want) else 'got %r, model %r' % (got, want)
    if case.get('part') == 'h':
        r = _job(('header', 'c41_replayh', case['source'], ctx.workdir('replay')))
        exp = case.get('expected')
        if exp is None:
            return False if (r[0] == 'build' and r[1] == 'cython') else 'accepted: %r' % (r,)
        return False if (r[0] == 'ok' and r[1] == exp) else 'got %r, expected %s' % (r, exp)
    if case.get('part') == 'c':
        wd = ctx.workdir('replay-leak')
        seq = case['seq']
        a = _leak_job((0, (seq[-1],), wd))
        r = _leak_job((1, tuple(seq), wd))
        if a[0] != 'ok' or r[0] != 'ok':
            return 'compile failed: %r %r' % (a, r)
        return False if r[1][-1] == a[1][0] else 'after %r the module gives C %s, alone %s' % (seq[:-1], r[1][-1], a[1][0])
    from Cython.Compiler import Options
    if case.get('part') == 'b':
        try:
            got = ('value', Options.parse_directive_value(case['name'], case['value'], relaxed_bool=case['relaxed']))
        except ValueError:
            got = ('error',)
        except Exception as e:
            got = ('crash', type(e).__name__)
        want = model_value(case['kind'], case['name'], case['value'], case['relaxed'])
        ok = (got == want or (want == ('any-str',) and got[0] == 'value' and isinstance(got[1], str))
              or (want == ('none-or-error',) and got in (('value', None), ('error',))))
        if case['name'] == 'no_such_directive':
            ok = got == ('value', None)
        return False if ok else 'parse_directive_value -> %r, documented %r' % (got, want)
    if case.get('part') == 'l':
        try:
            got = ('value', Options.parse_directive_list(case['s'], relaxed_bool=case['relaxed'], ignore_unknown=case['ignore']))
        except ValueError:
            got = ('error',)
        except Exception as e:
            got = ('crash', type(e).__name__)
        want = case['want']
        if want is None:
            return False if got == ('error',) else 'accepted: %r' % (got,)
        if isinstance(want, dict):
            return False if got == ('value', want) else 'got %r, documented %r' % (got, want)
        return 'see run()'
    return 'unknown case'
