"""C27 - cpdef calls reach the most-derived override.

Explicit-state search over histories of class / instance attribute mutations interleaved with C-level and Python-level
calls of cpdef methods.  Program (pure-Python-mode source, so CPython can run the identical text): cdef class Base with
cpdef f / g, cdef class Mid(Base) overriding f, C-typed callers call_f(Base o) / call_g / call_f_mid(Mid o) (vtable
dispatch -> OverrideCheckNode with its per-method static tp_dict_version / obj_dict_version cache).  Python subclasses
created at run time: P1(Mid), P2(P1), Q1(Base), S1(Mid) / S2(S1) with __slots__ = () (no instance dict); instances
a=P1(), b=P2(), q=Q1(), c=S2().
Alphabet (22 ops): P1.f = pyfunc | staticmethod | the original Mid.f, del P1.f, P2.f = pyfunc, del P2.f, unrelated class
writes P1.z / P2.z, P1.g = pyfunc, del P1.g, Q1.f = pyfunc, S1.f = pyfunc, del S1.f, b.f = pyfunc (instance dict),
del b.f, b.z, b.__class__ toggled between P1 and P2, calls C(b), Py(b), C(a), C(q), C(c) where C(x) =
(call_f(x), call_g(x, 5), call_f_mid(x)) and Py(b) = (b.f(), b.g(5)).
Oracle: the same source interpreted by CPython (cclass/ccall are plain classes/functions there, so ordinary attribute
lookup on the same hierarchy decides which implementation runs); every implementation returns its identity.
Exploration: breadth-first over all histories up to the bound with dedup on the canonical state (which class dicts hold
f/g and of which kind, instance-dict entry, b's class, last C-level call and its result, whether anything was written
since); engine and the fork/reset argument: see props/_g7_zygote.py.
"""
import os, sys, json
from vlib import farm
from props import _g7_zygote as Z
from props import _g7_c27world as W

LEVEL = 'model_checking'
ENGINE = 'E3 histexplore'
TECHNIQUE = 'BFS over all attribute-mutation/call histories on a live compiled cpdef hierarchy vs CPython attribute lookup, canonical-state dedup'
LEVEL_TEXT = ('All histories of length <= 6 (quick) / <= 8 (thorough) over 22 operations (setattr/delattr of overrides on two '
              'levels of Python subclasses and on instances, __class__ assignment, unrelated writes, C-level and Python-level '
              'calls on four instances incl. a __slots__ hierarchy) are explored breadth-first with canonical-state dedup on '
              'the real compiled module and compared step by step with CPython running the same source; short histories also '
              'run in children forked from the pristine zygote.  Builds: default and CYTHON_USE_DICT_VERSIONS=1 + '
              'CYTHON_USE_PYTYPE_LOOKUP=1 (the cached override check).')
LEVEL_NOTE = ('Bounded depth, one fixed hierarchy (depth 3) and four instances; dedup abstraction audited without dedup on a '
              'smaller bound (thorough).  Histories longer than the fork depth start from a reset state (overrides removed, every '
              'class / instance dict written once so that all cached versions mismatch) instead of a forked snapshot.  Attributes '
              'of the cdef classes themselves are immutable and not part of the alphabet.')

HERE = os.path.dirname(os.path.abspath(__file__))
WORLD = os.path.join(HERE, '_g7_c27world.py')

# op classes for violation keys: which method / which kind of override is reduced away
OPCLASS = {'P1.f=py': 'P1.m=override', 'P1.f=static': 'P1.m=override', 'P1.g=py': 'P1.m=override', 'P1.f=orig': 'P1.m=original',
           'del P1.f': 'del P1.m', 'del P1.g': 'del P1.m', 'P2.f=py': 'P2.m=override', 'del P2.f': 'del P2.m',
           'Q1.f=py': 'Q1.m=override', 'S1.f=py': 'S1.m=override', 'del S1.f': 'del S1.m',
           'P1.z': 'P1.other=v', 'P2.z': 'P2.other=v', 'b.z': 'b.other=v', 'b.cls': 'b.__class__=', 'b.f=py': 'b.m=override',
           'del b.f': 'del b.m'}


def configs(tier):
    c = [('default', ()),
         ('dictver', ('-DCYTHON_USE_DICT_VERSIONS=1', '-DCYTHON_USE_PYTYPE_LOOKUP=1'))]
    return c


def build_all(ctx, cfgs):
    jobs = [dict(name='c27_' + n, source=W.MOD_SRC, workdir=ctx.workdir('c27'), ext='.py', cflags=tuple(fl)) for n, fl in cfgs]
    res = farm.build_many(jobs)
    for (n, fl), r in zip(cfgs, res):
        if not r.ok:
            raise RuntimeError('C27 module does not build in config %s: %s %s' % (n, r.stage, r.errors[-2000:]))
    return res


def _zy_job(cfg):
    return Z.launch(WORLD, cfg)


def opclasses(hist):
    return '/'.join(OPCLASS.get(o, o) for o in hist)


def run(ctx):
    thorough = ctx.tier == 'thorough'
    depth = 8 if thorough else 6
    cfgs = configs(ctx.tier)
    builds = build_all(ctx, cfgs)
    reach = {}
    for (n, fl), b in zip(cfgs, builds):
        t = b.c_text()
        reach[n] = {k: (k in t) for k in ('__Pyx_object_dict_version_matches', '__Pyx_IsSameCFunction', 'Check if overridden in Python')}
    zc = [{'so': b.so, 'modname': b.name, 'depth': depth, 'dedup': True, 'width': 64,
           'fork_depth': int(os.environ.get('VERIF_FORKDEPTH', 3 if thorough else 2)),
           'progress': os.path.join(os.path.dirname(b.so), 'progress.json'), 'config': n} for (n, fl), b in zip(cfgs, builds)]
    ctx.log('%d configurations, depth %d' % (len(cfgs), depth))
    results = farm.pmap(_zy_job, zc)
    cov = {'states': 0, 'transitions': 0, 'traces_validated_against_impl': 0, 'dedup_hits': 0, 'forks': 0,
           'per_config': {}, 'max_depth': 0, 'depth_bound': depth, 'reach': reach,
           'alphabet': W.CLASS_WRITES + W.INST_WRITES + W.CALLS, 'samples': []}
    raw = {}
    outcomes = 0
    for z, r in zip(zc, results):
        n = z['config']
        if 'zygote_crash' in r:
            ctx.violation('%s|%s|crash' % (n, opclasses(r['history'] or [])),
                          'compiled module killed the exploring process (signal %s) while replaying %s' % (r['zygote_crash'], r['history']),
                          {'config': n, 'history': r['history'] or []})
            cov['exhaustive'] = False
            continue
        if 'fatal' in r:
            ctx.violation('%s|init|crash' % n, 'initial state fails: %r' % (r['fatal'],), {'config': n, 'history': []})
            continue
        for e in r['errors'][:3]:
            ctx.violation('harness-error', 'replay raised in the harness: %s' % e['error'][-400:], {'config': n, 'history': e['history']})
        cov['states'] += r['states']; cov['transitions'] += r['transitions']; cov['forks'] += r['forks']
        cov['traces_validated_against_impl'] += r['transitions']
        cov['dedup_hits'] += r['dedup_hits']; cov['max_depth'] = max(cov['max_depth'], r['max_depth'])
        cov['per_config'][n] = {k: r[k] for k in ('states', 'transitions', 'dedup_hits', 'distinct_outcomes', 'per_level', 'wall', 'pristine_histories')}
        outcomes = max(outcomes, r['distinct_outcomes'])
        if r.get('capped'):
            cov['exhaustive'] = False
        for v in r['violations']:
            dc = v['div'] if isinstance(v['div'], str) else W.div_class(tuple(v['div']))
            raw.setdefault((opclasses(v['history']), dc), {}).setdefault(n, v)
        if r['samples']:
            cov['samples'] = r['samples']
    cov['distinct_step_outcomes'] = outcomes
    if not cov['samples']:
        cov['samples'] = [{'history': ['C(b)', 'P1.f=py', 'C(b)', 'del P1.f', 'C(b)', 'Py(b)']}]
    cov['raw_divergence_classes'] = len(raw)
    report(ctx, zc, raw)
    assumptions = ['hierarchies other than the fixed one and histories longer than the bound are covered only through the '
                   'canonical-state abstraction', 'CPython attribute lookup on the interpreted twin hierarchy is the oracle']
    if thorough:
        ad = 4
        a1 = farm.pmap(_zy_job, [dict(z, depth=ad, dedup=True, fork_depth=1) for z in zc])
        a2 = farm.pmap(_zy_job, [dict(z, depth=ad, dedup=False, fork_depth=1) for z in zc])
        agree = all(bool(x.get('violations')) == bool(y.get('violations')) and x.get('outcome_digest') == y.get('outcome_digest')
                    for x, y in zip(a1, a2))
        cov['dedup_audit'] = {'depth': ad, 'transitions_dedup': sum(x.get('transitions', 0) for x in a1),
                              'transitions_nodedup': sum(y.get('transitions', 0) for y in a2), 'agree': agree}
        cov['transitions'] += sum(y.get('transitions', 0) for y in a2)
        cov['traces_validated_against_impl'] += sum(y.get('transitions', 0) for y in a2)
        if not agree:
            ctx.violation('dedup-audit', 'dedup and no-dedup exploration disagree at depth %d' % ad, {'audit': True})
    return cov, assumptions


def report(ctx, zc, raw):
    """Root keys: one per (divergence class, last write before the divergent call); the shortest raw history of each
    group (BFS order => minimal length) is delta-minimised in one zygote call per configuration."""
    byname = {z['config']: z for z in zc}
    allcfg = sorted(byname)
    groups = {}
    for (oc, dc), percfg in raw.items():
        ops = oc.split('/')
        writes = [o for o in ops[:-1] if not (o.startswith('C(') or o.startswith('Py('))]
        g = (dc, writes[-1] if writes else '-')
        cur = groups.get(g)
        if cur is None:
            groups[g] = [len(ops), oc, percfg, set(percfg)]
        else:
            cur[3] |= set(percfg)
            if (len(ops), oc) < (cur[0], cur[1]):
                cur[0], cur[1], cur[2] = len(ops), oc, percfg
    todo = {}
    for g, (n, oc, percfg, cfgset) in sorted(groups.items()):
        cfgname = sorted(percfg)[0]
        todo.setdefault(cfgname, []).append((g, percfg[cfgname], cfgset))
    for cfgname, items in todo.items():
        items = items[:60]
        hists = [v['history'] for g, v, cs in items]
        try:
            mins = Z.launch(WORLD, dict(byname[cfgname], mode='minimise', items=[[v['history'], g[0]] for g, v, cs in items]))['minimised']
        except Exception as e:
            ctx.log('minimise failed: %s' % e)
            mins = hists
        for (g, v, cs), mh in zip(items, mins):
            cset = 'all' if sorted(cs) == allcfg else '+'.join(sorted(cs))
            key = '%s|%s|%s' % (cset, opclasses(mh), g[0])
            ctx.violation(key, 'config %s history %s: %s' % (cfgname, mh, str(v.get('div'))[:700]),
                          {'config': cfgname, 'history': list(mh), 'div': v.get('div'), 'configs': sorted(cs)})


def replay(ctx, case):
    if case.get('audit'):
        return 'dedup audit disagreement (re-run the thorough tier)'
    cfgs = [c for c in configs('thorough') if c[0] == case['config']]
    b = build_all(ctx, cfgs)[0]
    r = Z.launch(WORLD, {'so': b.so, 'modname': b.name, 'mode': 'replay', 'history': case['history'], 'config': case['config']})['replay']
    if 'crash' in r:
        return 'crash (signal %s) on history %s' % (r['crash'], case['history'])
    if r.get('error'):
        return 'harness error: %s' % r['error']
    if r.get('div') is None:
        return False
    return 'history %s in config %s: step %s: CPython %r, compiled %r' % (case['history'], case['config'], r['div'][1], r['div'][2], r['div'][3])
