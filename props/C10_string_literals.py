"""C10 - string and bytes literals keep their exact values, under every string-table compression setting.

Enumerated (complete products, CPython decides which spellings are valid literals):
  singles  every prefix spelling (incl. case/order variants) x 4 quote styles x {empty body, every atom}
  pairs    7 prefix classes ('', r, b, rb, u, f, rf) x quote ' x all ordered pairs of atoms, plus the other three quote styles x
           all pairs that contain a quote-sensitive atom (quotes, newline, backslash-newline)
  triples  (thorough) 7 prefix classes x quote ' x all ordered triples over the core atom subset
  concat   implicit concatenation of two literals for every ordered pair of prefix spellings x 2 body pairs
  xconst   a str and a bytes literal whose string-table bytes coincide (UTF-8 / unicode-escape spelling), in both orders
  long     literals of length 1999..70000 made of a, escaped backslash, double quote, \\xff, euro sign and a periodic pattern
Atoms: every single-character escape, backslash-newline, octal \\0 \\7 \\77 \\377 \\400, hex, \\u/\\U incl. lone surrogates and
out-of-range, \\N{...}, unknown escapes, truncated escapes, and plain ASCII / Latin-1 / BMP / astral / quote / brace characters.
Every accepted literal sits in the DATA list of a packed module that is cythonized once and compiled five times with
-DCYTHON_COMPRESS_STRINGS unset/0/1/2/90; each build is loaded in a fresh child and DATA[i] compared with CPython's eval of the
same literal text on (type, repr).  Literals of the singles/concat families that CPython rejects are compiled alone: the
compiler must not crash.
"""
import os, sys, warnings, itertools, re
from vlib import farm, runner
from vlib.diff import canon, short

LEVEL = 'exploration'
ENGINE = 'E2 diffexplore'
TECHNIQUE = 'exhaustive literal grammar (prefix x quote x escape-atom sequences, concatenation, long literals) x 5 string-table compression builds, value vs CPython eval of the same text'
LEVEL_TEXT = ('All literals prefix x quote x (<=2 atoms quick / <=3 core atoms thorough) over ~65 escape/character atoms, all prefix-pair '
              'implicit concatenations and long literals at the 2000/4000/65535/65536/70000 boundaries are compiled in packed modules '
              '(one cythonize, five gcc builds: CYTHON_COMPRESS_STRINGS unset/0/1/2/90) and every element is compared with CPython\'s '
              'eval of the identical text on (type, repr); literals CPython rejects must not crash the compiler.')
LEVEL_NOTE = ('CPython decides validity; a literal CPython rejects but Cython accepts is only counted (leniency is not a value '
              'violation); only rejected literals of the singles/concat families are compiled (must not crash).  Not covered: .pyx char literals c\'x\', literal NUL/CR characters in the source, t-strings, non-UTF-8 '
              'source encodings, zstd (needs 3.14).  Trusted: CPython 3.12 eval as reference, gcc, zlib/bz2 modules.')

BS = chr(92)
NL = chr(10)
E_ACUTE, EURO, GRIN = chr(0xe9), chr(0x20ac), chr(0x1f600)

# (atom text, class)                          -- escape atoms are built with BS so that this file contains no escapes itself
ATOMS = (
    [(BS + c, 'esc1') for c in 'abfnrtv'] + [(BS + BS, 'esc-bs'), (BS + "'", 'esc-q'), (BS + '"', 'esc-q'), (BS + NL, 'esc-nl')]
    + [(BS + o, 'oct') for o in ('0', '7', '77', '377', '400')]
    + [(BS + 'x' + h, 'hex') for h in ('00', '7f', 'ff', '41')] + [(BS + 'x4', 'hex-short')]
    + [(BS + 'u' + h, 'u4') for h in ('0041', '00e9', '20ac', 'ffff')] + [(BS + 'ud800', 'u4-surr'), (BS + 'udc00', 'u4-surr')]
    + [(BS + 'u004', 'u4-short')]
    + [(BS + 'U0001F600', 'U8'), (BS + 'U0010FFFF', 'U8'), (BS + 'U00110000', 'U8-range'), (BS + 'U0000d800', 'U8-surr')]
    + [(BS + 'N{BULLET}', 'N'), (BS + 'N{bullet}', 'N-lower'), (BS + 'N{LATIN SMALL LETTER E WITH ACUTE}', 'N'),
       (BS + 'N{NOPE}', 'N-unknown'), (BS + 'N{CJK UNIFIED IDEOGRAPH-4E00}', 'N-digits'), (BS + 'N{DIGIT ONE}', 'N')]
    + [(BS + 'q', 'esc-unknown'), (BS + '8', 'esc-unknown'), (BS + ' ', 'esc-unknown'), (BS + 'N', 'N-bare'), (BS + '{', 'esc-unknown')]
    + [('a', 'ascii'), ('7', 'digit'), (' ', 'ascii'), ('f', 'ascii'), (chr(9), 'tab'), ('%', 'ascii'), ('#', 'ascii'),
       (E_ACUTE, 'latin1'), (EURO, 'bmp'), (GRIN, 'astral'), ('"', 'quote'), ("'", 'quote'), (NL, 'newline'),
       ('{', 'brace'), ('}', 'brace'), ('{{', 'brace2'), ('}}', 'brace2'), (chr(0x7f), 'del'), (chr(0x80), 'c1'), (chr(0xff), 'latin1'),
       (chr(0xfeff), 'bom'), (chr(0x2028), 'linesep')]
)
ATOM_CLASS = dict(ATOMS)
CORE = [BS + 'n', BS + BS, BS + "'", BS + NL, BS + '0', BS + '377', BS + 'x00', BS + 'xff', BS + 'u00e9', BS + 'ud800', BS + 'udc00',
        BS + 'U0001F600', BS + 'N{BULLET}', BS + 'q', 'a', '7', E_ACUTE, EURO, GRIN, '"', '{{']
QUOTE_SENSITIVE = ("'", '"', NL, BS + NL, BS + "'", BS + '"')

PREFIX_CLASSES = ['', 'r', 'b', 'rb', 'u', 'f', 'rf']
PREFIX_ALL = ['', 'r', 'R', 'b', 'B', 'u', 'U', 'f', 'F', 'br', 'bR', 'Br', 'BR', 'rb', 'rB', 'Rb', 'RB', 'rf', 'fr', 'Rf', 'fR', 'FR',
              'ur', 'bu', 'bf', 'rr', 'bb']
QUOTES = ["'", '"', "'''", '"""']
CONFIGS = [('unset', ()), ('0', ('-DCYTHON_COMPRESS_STRINGS=0',)), ('1', ('-DCYTHON_COMPRESS_STRINGS=1',)),
           ('2', ('-DCYTHON_COMPRESS_STRINGS=2',)), ('90', ('-DCYTHON_COMPRESS_STRINGS=90',))]
XCONST = [("'abc'", "b'abc'"), ("'" + E_ACUTE + "'", "b'" + BS + "xc3" + BS + "xa9'"), ("'" + BS + "x00'", "b'" + BS + "x00'"), ("''", "b''"),
          ("'" + BS + "ud800'", "b'" + BS + "ud800'"), ("'a" + BS + "udc00'", "br'a" + BS + "udc00'"), ("'" + BS + BS + "ud800'", "b'" + BS + "ud800'"),
          ("'" + BS + "U0001F600'", "b'" + BS + "xf0" + BS + "x9f" + BS + "x98" + BS + "x80'")]
XCONST_CLASS = ['ascii', 'latin1-utf8', 'nul', 'empty', 'surrogate-escape', 'surrogate-escape', 'escaped-escape', 'astral-utf8']
PAD = 'pad ' + 'The quick brown fox jumps over the lazy dog. ' * 12
PER_MODULE = 1500


def pclass(prefix):
    p = prefix.lower()
    return ''.join(sorted(p))


def lit(prefix, quote, atoms):
    return prefix + quote + ''.join(atoms) + quote


# ------------------------------------------------------------------------------------------------ enumeration
def enumerate_literals(tier):
    """-> list of (family, text, tag) ; tag = prefix class | atom classes"""
    out = []
    seen = set()

    def add(fam, prefix, quote, atoms):
        text = lit(prefix, quote, atoms)
        if text in seen:
            return
        seen.add(text)
        out.append((fam, text, '%s|%s' % (pclass(prefix) or '-', '+'.join(ATOM_CLASS[a] for a in atoms) or 'empty'),
                    frozenset((pclass(prefix), a) for a in atoms)))

    names = [a for a, _ in ATOMS]
    for p in PREFIX_ALL:
        for q in QUOTES:
            add('single', p, q, ())
            for a in names:
                add('single', p, q, (a,))
    for p in PREFIX_CLASSES:
        for a in names:
            for b in names:
                add('pair', p, "'", (a, b))
        for q in QUOTES[1:]:
            for a in names:
                for b in names:
                    if a in QUOTE_SENSITIVE or b in QUOTE_SENSITIVE:
                        add('pair', p, q, (a, b))
    if tier == 'thorough':
        for p in PREFIX_CLASSES:
            for t in itertools.product(CORE, repeat=3):
                add('triple', p, "'", t)
    bodies = [((BS + 'x41', 'a'), (BS + 'u00e9', E_ACUTE)), ((BS + "'", BS + '0'), ('7', EURO))]
    for p1 in PREFIX_ALL:
        for p2 in PREFIX_ALL:
            for b1, b2 in bodies:
                for sep in (' ', ''):
                    text = lit(p1, "'", b1) + sep + lit(p2, '"', b2)
                    if text not in seen:
                        seen.add(text)
                        out.append(('concat', text, '%s~%s|concat' % (pclass(p1) or '-', pclass(p2) or '-'),
                                    frozenset([(pclass(p1), a) for a in b1] + [(pclass(p2), a) for a in b2])))
    return out


def long_literals(tier):
    """-> list of (module tag, [literal texts]) : each long literal lives in its own small module"""
    lengths = [1999, 2000, 2001, 3999, 4000, 65535, 65536, 70000]
    fills = [('a', 'a'), ('bs', BS + BS), ('euro', EURO)]
    if tier == 'thorough':
        fills += [('dq', '"'), ('xff', BS + 'xff')]
    mods = []
    for n in lengths:
        for fname, unit in fills:
            lits = ["'" + unit * n + "'"]
            if fname != 'euro':
                lits.append("b'" + unit * n + "'")
            mods.append(('long/%s/%d' % (fname, n), lits))
        pat = ''.join(chr(97 + (i * i + i // 7) % 23) for i in range(n))
        mods.append(('long/pattern/%d' % n, ["'" + pat + "'", "b'" + pat[::-1] + "'"]))
    return mods


def cpython_verdict(text):
    """('ok', canon(value)) or ('reject', exception type name)"""
    with warnings.catch_warnings():
        warnings.simplefilter('ignore')
        try:
            code = compile(text, '<lit>', 'eval')
        except (SyntaxError, ValueError) as e:
            return ('reject', type(e).__name__)
        try:
            v = eval(code, {})
        except Exception as e:
            return ('reject', type(e).__name__)
    if type(v) not in (str, bytes):
        return ('reject', 'not-a-string')
    return ('ok', canon(v))


# ------------------------------------------------------------------------------------------------ building
def module_source(literals):
    """-> (source, first line number of each literal)"""
    lines = ['PAD = %r' % PAD, 'DATA = [']
    starts = []
    n = len(lines) + 1
    for t in literals:
        starts.append(n)
        chunk = '(' + t + NL + '),'      # closing parenthesis on its own line: the literal text may end in a comment
        lines.append(chunk)
        n += chunk.count(NL) + 1
    lines.append(']')
    return NL.join(lines) + NL, starts


def _attribute(errors, starts, n_lits):
    """map 'file.py:LINE:COL:' positions in compiler messages to literal indices"""
    bad = set()
    for m in re.finditer(r'\.py:(\d+):\d+:', errors):
        line = int(m.group(1))
        idx = None
        for i, s in enumerate(starts):
            if s <= line:
                idx = i
            else:
                break
        if idx is not None:
            bad.add(idx)
    return bad


def _ddmin(name, literals, keep, workdir, stage):
    """smallest sub-list of `keep` (indices into literals) whose module still fails to cythonize at `stage`"""
    n = [0]

    def fails(sub):
        n[0] += 1
        src, _ = module_source([literals[i] for i in sub])
        r = farm.build('%s_dd%d' % (name, n[0]), src, workdir, ext='.py', cc=False)
        return (not r.ok) and r.stage == stage

    cur, gran = list(keep), 2
    while len(cur) >= 2:
        size = max(1, len(cur) // gran)
        chunks = [cur[i:i + size] for i in range(0, len(cur), size)]
        for i in range(len(chunks)):
            comp = [x for j, ch in enumerate(chunks) if j != i for x in ch]
            if comp and fails(comp):
                cur, gran = comp, max(gran - 1, 2)
                break
        else:
            if gran >= len(cur):
                break
            gran = min(len(cur), gran * 2)
    return cur


def build_packed(job):
    """job = (name, [literal texts], workdir).  Cythonize (dropping literals the compiler rejects, attributed by line number),
    then one gcc per config.  Returns dict(name, kept=[indices], rejected=[(index, stage, msg)], so={cfg: path|None}, cc_errors, reach)."""
    name, literals, workdir = job
    keep = list(range(len(literals)))
    rejected = []
    combos = []
    dropped_for_combo = []
    r = None
    for _round in range(40):
        src, starts = module_source([literals[i] for i in keep])
        r = farm.build(name, src, workdir, ext='.py', cc=False)
        if r.ok:
            break
        bad = _attribute(r.errors, starts, len(keep))
        msg = r.errors.strip().splitlines()[-1][-200:] if r.errors.strip() else ''
        if bad and len(keep) > 1:
            # A scanner that loses track inside one literal reports the error further down: trust a position only if the
            # literal it points at also fails on its own.
            confirmed = set()
            for j in sorted(bad):
                alone = farm.build('%s_v%d' % (name, keep[j]), module_source([literals[keep[j]]])[0], workdir, ext='.py', cc=False)
                if not alone.ok:
                    confirmed.add(j)
            bad = confirmed
        if not bad:
            if len(keep) == 1:
                bad = {0}
            else:
                # No source position (internal error): delta-minimise to the smallest failing set of literals.  It may need
                # several literals together (two constants sharing one string-table entry).
                minimal = _ddmin(name, literals, keep, workdir, r.stage)
                combos.append(([k for k in minimal], r.stage, msg))
                if len(minimal) == 1:
                    drop = set(minimal)
                else:
                    # literals with the same value are the same constant: drop every spelling of the last member's value
                    v = cpython_verdict(literals[minimal[-1]])
                    drop = {k for k in keep if cpython_verdict(literals[k]) == v}
                keep = [k for k in keep if k not in drop]
                dropped_for_combo.extend(sorted(drop - set(minimal[-1:])))
                if not keep:
                    break
                continue
        for j in sorted(bad):
            rejected.append((keep[j], r.stage, msg))
        keep = [k for j, k in enumerate(keep) if j not in bad]
        if not keep:
            return {'name': name, 'kept': [], 'rejected': rejected, 'so': {}, 'cc_errors': {}, 'reach': {}, 'source': '', 'combos': combos}
    if r is None or not r.ok:
        return {'name': name, 'kept': [], 'rejected': rejected + [(k, 'cython', 'unattributed') for k in keep], 'so': {},
                'cc_errors': {}, 'reach': {}, 'source': '', 'combos': combos}
    ctext = r.c_text()
    reach = {'ladder': '#ifndef CYTHON_COMPRESS_STRINGS' in ctext,
             'zlib': 'compression: zlib' in ctext, 'bz2': 'compression: bz2' in ctext, 'lzss': 'compression: lzss' in ctext,
             'lzss_call': '__Pyx_DecompressString_LZSS(cstring' in ctext, 'zlib_call': '__Pyx_DecompressString(cstring' in ctext}
    sos, ccerr = {}, {}
    d = os.path.dirname(r.c_file)
    for cfg, flags in CONFIGS:
        so = os.path.join(d, '%s.cfg%s.so' % (name, cfg))
        ok, out = farm.cc_compile(r.c_file, so, flags, False, [d], (), '-O0')
        sos[cfg] = so if ok else None
        if not ok:
            ccerr[cfg] = out[-600:]
    return {'name': name, 'kept': keep, 'rejected': rejected, 'so': sos, 'cc_errors': ccerr, 'reach': reach, 'source': src,
            'combos': combos, 'dropped_for_combo': dropped_for_combo}


def check_reject(job):
    """A literal CPython rejects: compile it alone; -> (text, 'rejected'|'accepted'|'internal', message)"""
    name, text, workdir = job
    r = farm.build(name, 'X = (' + text + ')' + NL, workdir, ext='.py', cc=False)
    if r.ok:
        return (text, 'accepted', '')
    return (text, 'internal' if r.stage == 'internal' else 'rejected', r.errors[-400:] if r.stage == 'internal' else '')


def screen_one(job):
    """one single-atom literal compiled alone (C generation only) -> (pclass, atom, None | (stage, message))"""
    name, pc, atom, text, workdir = job
    r = farm.build(name, 'X = (' + text + ')' + NL, workdir, ext='.py', cc=False)
    if r.ok:
        return (pc, atom, None)
    msg = r.errors.strip().splitlines()[-1][-200:] if r.errors.strip() else ''
    return (pc, atom, (r.stage, msg))


def screen_atoms(workdir):
    """Phase 0: every (prefix class, atom) alone, in the first quote style CPython accepts.  Atoms the compiler cannot handle are
    reported once here and every longer literal that contains them is left out of the packed modules."""
    jobs = []
    for pc in sorted({pclass(p) for p in PREFIX_ALL}):
        for atom, _ in ATOMS:
            for q in QUOTES:
                text = lit(pc, q, (atom,))
                if cpython_verdict(text)[0] == 'ok':
                    jobs.append(('c10s%d' % len(jobs), pc, atom, text, workdir))
                    break
    res = farm.pmap(screen_one, jobs, chunksize=8)
    bad = {}
    for (name, pc, atom, text, _), (_, _, verdict) in zip(jobs, res):
        if verdict:
            bad[(pc, atom)] = (text,) + verdict
    return bad, len(jobs)


def run_built(case):
    """child: load one build, compare DATA with the expected canon list -> list of (position, got)"""
    so, name, expected = case
    try:
        mod = farm.load(so, name)
    except BaseException as e:
        return [('load', '%s: %s' % (type(e).__name__, str(e)[:300]))]
    data = mod.DATA
    if len(data) != len(expected):
        return [('load', 'DATA has %d elements, expected %d' % (len(data), len(expected)))]
    return [(i, canon(v)) for i, (v, e) in enumerate(zip(data, expected)) if canon(v) != tuple(e)]


# ------------------------------------------------------------------------------------------------ driver
def _flatten(res, literals_idx):
    """resolve 'split' results into a list of leaf build results with global literal indices"""
    if 'split' in res:
        out = []
        for sub, idxs in res['split']:
            for leaf in _flatten(sub, [literals_idx[i] for i in idxs] if literals_idx else idxs):
                out.append(leaf)
        return out
    res = dict(res)
    res['kept'] = [literals_idx[i] for i in res['kept']]
    res['rejected'] = [(literals_idx[i], s, m) for i, s, m in res['rejected']]
    res['combos'] = [([literals_idx[i] for i in c], s, m) for c, s, m in res.get('combos', [])]
    res['dropped_for_combo'] = [literals_idx[i] for i in res.get('dropped_for_combo', [])]
    return [res]


def valclass(exp, got):
    if exp[0] != got[0]:
        return 'type:%s->%s' % (exp[0], got[0])
    return 'value'


def run(ctx):
    lits = enumerate_literals(ctx.tier)
    if os.environ.get('VERIF_G4_ONLY'):
        lits = [x for x in lits if x[0] in os.environ['VERIF_G4_ONLY'].split(',')]
    workdir = ctx.workdir('c10')
    bad_atoms, n_screened = screen_atoms(workdir)
    crashing = {a for (pc, a), v in bad_atoms.items() if v[1] == 'internal'}
    failing_classes = {}
    for (pc, atom), v in bad_atoms.items():
        failing_classes.setdefault((ATOM_CLASS[atom], v[1]), set()).add(pc or '-')
    for (pc, atom), (text, stage, msg) in sorted(bad_atoms.items()):
        # one key per (atom class, stage): the set of prefix classes it fails under is part of the key, not a multiplier
        key = 'internal|%s' % ATOM_CLASS[atom] if stage == 'internal' else \
            'reject|%s|%s|prefixes=%s' % (ATOM_CLASS[atom], stage, ','.join(sorted(failing_classes[(ATOM_CLASS[atom], stage)])))
        ctx.violation(key, 'valid literal %s %s: %s' % (short(text, 80), 'crashes the compiler' if stage == 'internal' else
                                                       'is rejected by the compiler', msg),
                      {'kind': 'reject', 'literal': text, 'expected': cpython_verdict(text)[1]})
    ctx.log('screened %d (prefix class, atom) combinations: %d not compilable' % (n_screened, len(bad_atoms)))
    n_before = len(lits)
    lits = [x for x in lits if not (x[3] & set(bad_atoms)) and not ({a for _, a in x[3]} & crashing)]
    excluded = n_before - len(lits)
    lits = [x[:3] for x in lits]
    verdicts = [cpython_verdict(t) for _, t, _ in lits]
    accepted = [i for i, v in enumerate(verdicts) if v[0] == 'ok']
    rejected = [i for i, v in enumerate(verdicts) if v[0] != 'ok']
    ctx.log('%d candidate literals (%d left out: contain an atom reported above): %d valid for CPython, %d rejected by CPython'
            % (len(lits), excluded, len(accepted), len(rejected)))
    order = list(accepted)      # packing is a pure function of the tier: the seed only permutes the build order of the modules
    jobs, groups = [], []
    for k in range(0, len(order), PER_MODULE):
        idxs = order[k:k + PER_MODULE]
        jobs.append(('c10m%d' % (k // PER_MODULE), [lits[i][1] for i in idxs], workdir))
        groups.append(idxs)
    longs = long_literals(ctx.tier)
    if os.environ.get('VERIF_G4_ONLY'):
        longs = longs if 'long' in os.environ['VERIF_G4_ONLY'] else []
    long_texts = []
    for li, (tag, texts) in enumerate(longs):
        base = len(lits) + len(long_texts)
        idxs = list(range(base, base + len(texts)))
        for t in texts:
            long_texts.append(('long', t, tag))
        jobs.append(('c10L%d' % li, texts, workdir))
        groups.append(idxs)
    # same string-table bytes, different type, in both orders (a str and a bytes constant may share one table entry)
    if not os.environ.get('VERIF_G4_ONLY') or 'xconst' in os.environ['VERIF_G4_ONLY']:
        for xi, (stext, btext) in enumerate(XCONST):
            xcls = XCONST_CLASS[xi]
            for oi, texts in enumerate(([stext, btext], [btext, stext])):
                base = len(lits) + len(long_texts)
                for t in texts:
                    long_texts.append(('xconst', t, 'xconst/%s' % xcls))
                jobs.append(('c10X%d_%d' % (xi, oi), texts, workdir))
                groups.append([base, base + 1])
    all_lits = lits + long_texts
    all_verdicts = verdicts + [cpython_verdict(t) for _, t, _ in long_texts]
    if ctx.seed:
        import random
        perm = list(range(len(jobs)))
        random.Random(ctx.seed).shuffle(perm)
        jobs, groups = [jobs[i] for i in perm], [groups[i] for i in perm]
    results = farm.pmap(build_packed, jobs)
    leaves = []
    for res, idxs in zip(results, groups):
        leaves.extend(_flatten(res, idxs))
    # ---- compiler rejected a literal CPython accepts
    compiler_rejects = 0
    combo_drops = 0
    for leaf in leaves:
        combo_drops += len(leaf.get('dropped_for_combo', []))
        for idxs, stage, msg in leaf.get('combos', []):
            tags = sorted({all_lits[g][2].replace('|', ':') for g in idxs})
            texts = [all_lits[g][1] for g in idxs]
            ctx.violation('%s|combination|%s' % ('internal' if stage == 'internal' else 'reject', '&'.join(tags)),
                          'valid literals %s cannot be compiled in one module (%s): %s' % (short(texts, 160), stage, msg),
                          {'kind': 'combo', 'literals': texts})
        for gi, stage, msg in leaf['rejected']:
            compiler_rejects += 1
            fam, text, tag = all_lits[gi]
            ctx.violation(('internal|%s' % tag.split('|')[1]) if stage == 'internal' else 'reject|%s|%s' % (tag, stage), 'valid literal %s rejected by the compiler (%s): %s' % (short(text, 80), stage, msg),
                          {'kind': 'reject', 'literal': text, 'expected': all_verdicts[gi][1]})
        if leaf['cc_errors']:
            cfgs = sorted(leaf['cc_errors'])
            cfgkey = 'all' if len(cfgs) == len(CONFIGS) else ','.join(cfgs)
            first = all_lits[leaf['kept'][0]] if leaf['kept'] else ('?', '', '?')
            ctx.violation('cc|%s|cfg=%s' % (first[2] if first[0] == 'xconst' else first[0], cfgkey),
                          'generated C does not compile under configs %s: %s' % (cfgs, leaf['cc_errors'][cfgs[0]]),
                          {'kind': 'packed', 'literals': [all_lits[g][1] for g in leaf['kept']], 'index': 0, 'config': cfgs[0]})
    # ---- run every build
    cases, owners = [], []
    for leaf in leaves:
        exp = [all_verdicts[g][1] for g in leaf['kept']]
        for cfg, so in leaf['so'].items():
            if so:
                cases.append((so, leaf['name'], exp))
                owners.append((leaf, cfg))
    outs = runner.run_cases(run_built, cases, chunk=1, timeout=600, scratch=ctx.scratch)
    evaluations = 0
    fails = {}          # global literal index -> {cfg: got}
    for (leaf, cfg), out in zip(owners, outs):
        if out[0] != 'ok':
            ctx.violation('load|%s|cfg=%s|%s' % (all_lits[leaf['kept'][0]][0], cfg, out[0]),
                          'module %s crashed/failed while loading under config %s: %r' % (leaf['name'], cfg, out[1:]),
                          {'kind': 'packed', 'literals': [all_lits[g][1] for g in leaf['kept']], 'index': 0, 'config': cfg})
            continue
        evaluations += len(leaf['kept'])
        for pos, got in out[1]:
            if pos == 'load':
                ctx.violation('load|%s|cfg=%s|exc' % (all_lits[leaf['kept'][0]][0], cfg),
                              'module %s failed to import under config %s: %s' % (leaf['name'], cfg, got),
                              {'kind': 'packed', 'literals': [all_lits[g][1] for g in leaf['kept']], 'index': 0, 'config': cfg})
                continue
            fails.setdefault((id(leaf), pos), (leaf, pos, {}))[2][cfg] = got
    for leaf, pos, per_cfg in fails.values():
        gi = leaf['kept'][pos]
        fam, text, tag = all_lits[gi]
        exp = all_verdicts[gi][1]
        cfgs = sorted(per_cfg)
        cfgkey = 'all' if len(cfgs) == len([1 for c in leaf['so'].values() if c]) else ','.join(cfgs)
        got = per_cfg[cfgs[0]]
        ctx.violation('value|%s|%s|cfg=%s' % (tag, valclass(exp, got), cfgkey),
                      '%s literal %s: expected %s got %s (configs %s)' % (fam, short(text, 80), short(exp, 120), short(got, 120), cfgs),
                      {'kind': 'packed', 'literals': [all_lits[g][1] for g in leaf['kept']], 'index': pos, 'config': cfgs[0],
                       'expected': exp, 'got': got})
    # ---- literals CPython rejects: the compiler must not crash
    # (longer bodies add nothing here: a crash on invalid input is a property of the prefix or of a single atom)
    rejected_checked = [i for i in rejected if lits[i][0] in ('single', 'concat')]
    rj = farm.pmap(check_reject, [('c10r%d' % n, lits[i][1], workdir) for n, i in enumerate(rejected_checked)], chunksize=8)
    lenient = 0
    for (text, verdict, msg), i in zip(rj, rejected_checked):
        if verdict == 'internal':
            ctx.violation('internal|%s' % lits[i][2].split('|')[1], 'compiler crashed on invalid literal %s: %s' % (short(text, 80), msg),
                          {'kind': 'invalid', 'literal': text})
        elif verdict == 'accepted':
            lenient += 1
    reach = {}
    for leaf in leaves:
        for k, v in leaf['reach'].items():
            reach[k] = reach.get(k, 0) + (1 if v else 0)
    distinct = len({all_verdicts[g][1] for leaf in leaves for g in leaf['kept']})
    builds = sum(1 for leaf in leaves for so in leaf['so'].values() if so)
    cov = {
        'evaluations': evaluations, 'distinct_nontrivial': distinct,
        'rule': 'distinct expected values (type, repr) among the literals that were compiled and compared; spellings of the same value collapse',
        'atom_screenings': n_screened, 'atoms_not_compilable': len(bad_atoms), 'literals_left_out_for_reported_atoms': excluded,
        'candidate_literals': len(lits), 'cpython_valid': len(accepted), 'cpython_rejected': len(rejected), 'cpython_rejected_compiled_alone': len(rejected_checked),
        'long_literals': len(long_texts), 'modules_cythonized': len(leaves), 'builds_loaded': builds, 'configs': [c for c, _ in CONFIGS],
        'compiler_rejected_valid': compiler_rejects, 'literals_left_out_after_combination_failure': combo_drops, 'lenient_accepts_of_invalid': lenient, 'value_mismatches': len(fails),
        'reach': reach, 'reach_gaps': sorted(k for k in ('ladder', 'zlib', 'bz2', 'lzss', 'lzss_call', 'zlib_call') if not reach.get(k)),
        'families': {f: sum(1 for x in all_lits if x[0] == f) for f in ('single', 'pair', 'triple', 'concat', 'long', 'xconst')},
        'samples': [{'literal': short(all_lits[i][1], 60), 'tag': all_lits[i][2], 'expected': short(all_verdicts[i][1], 80)}
                    for i in ((accepted[:1] + accepted[len(accepted) // 2:][:1]) + [len(all_lits) - 1])],
        'exhaustive': True,
    }
    for k in cov['reach_gaps']:
        ctx.log('WARN reach gap: no module has %s' % k)
    return cov, ['atoms, prefixes and lengths outside the listed sets are not covered',
                 'a literal CPython rejects and Cython accepts is counted (lenient_accepts_of_invalid), not reported']


def replay(ctx, case):
    workdir = ctx.workdir('replay')
    kind = case.get('kind')
    if kind == 'invalid':
        t, verdict, msg = check_reject(('c10replay', case['literal'], workdir))
        return 'compiler crashed: %s' % msg if verdict == 'internal' else False
    if kind == 'combo':
        res = build_packed(('c10replay', case['literals'], workdir))
        return ('still not compilable together: %r' % (res.get('combos') or res.get('rejected'),)) if (res.get('combos') or res.get('rejected')) else False
    if kind == 'reject':
        res = build_packed(('c10replay', [case['literal']], workdir))
        return ('still rejected: %r' % (res['rejected'],)) if res.get('rejected') else False
    if kind != 'packed':
        return 'unknown case kind'
    literals = case['literals']
    res = build_packed(('c10replay', literals, workdir))
    if 'split' in res or res['rejected']:
        return 'module no longer cythonizes as a whole'
    cfg = case['config']
    so = res['so'].get(cfg)
    if not so:
        return 'C compile failed under config %s: %s' % (cfg, res['cc_errors'].get(cfg))
    exp = [cpython_verdict(t)[1] for t in literals]
    out = runner.run_cases(run_built, [(so, 'c10replay', exp)], timeout=300, scratch=ctx.scratch)[0]
    if out[0] != 'ok':
        return 'load %s: %r' % (out[0], out[1:])
    for pos, got in out[1]:
        if pos == 'load':
            return 'import failed: %s' % got
        if pos == case['index']:
            return 'literal %s: expected %s got %s' % (short(literals[pos], 80), short(exp[pos], 120), short(got, 120))
    return False
