"""C20 - operands and targets are evaluated left-to-right exactly once.

Skeleton programs whose every leaf is a logging call (`A(i)` logs ('leaf', i) and returns a logging
object whose __getitem__/__setitem__/__getattr__/__setattr__/__delattr__/__iadd__/__eq__/__lt__/
__call__/__iter__/__enter__/__exit__/__hash__/__index__/__format__ ... all log).  The compiled
function and CPython executing the identical source must produce the same ordered event log,
result and exception type.  `__bool__` never logs (CPython may truth-test an already evaluated operand
twice; that is not an evaluation of a sub-expression - DESIGN.md C20 calibration).

Enumerated completely:
  * calls: every syntactically valid layout of <= 4 argument slots over {positional, *star, keyword, **dstar}
    (decided by CPython's own parser), as plain call and as method call on a logging receiver;
  * calls of cdef / @cython.cfunc callees (keywords are mapped to C arguments at compile time): for 3- and 4-parameter
    callees every split positional-prefix / keywords x ALL permutations of the keyword order, object and C-typed
    parameters, optional parameters (every subset and order), nested (cdef methods do not accept keywords);
  * subscripts, slices, attribute/subscript/slice targets, augmented targets, chained assignment, unpacking
    with star targets, swaps through logging containers (ParallelAssignment), displays (tuple/list/set/
    dict incl. ** merging), comparison chains, conditional expressions, comprehensions, f-strings, binary
    operator trees, walrus, lambda/def defaults, decorators, class headers, del/assert/raise-from/with/return;
  * boolean chains: every and/or/not tree shape with <= 3 leaves x every truth assignment of the leaves;
  * thorough: the same assignment/call/arith skeletons with leaves statically typed C int / C double / str /
    list (typed leaves make the compiler introduce temporaries and coercions), and every ordered pair of
    expression skeletons nested once (inner skeleton substituted for one leaf of the outer one).
"""
import itertools, os, re
from vlib import e2
from props import _g5_common as g5

LEVEL = 'exploration'
ENGINE = 'E2 diffexplore'
TECHNIQUE = 'exhaustive skeleton enumeration with logging leaves and logging objects; ordered event log of the compiled function compared with CPython on identical source'
LEVEL_TEXT = ('Every syntactically valid call layout of <= 4 argument slots over {positional, *, keyword, **}, every positional-'
              'prefix/keyword-permutation layout of calls to 3- and 4-parameter cdef (@cython.cfunc) callees, every and/or/not '
              'tree with <= 3 leaves under every truth assignment, and a table of ~120 assignment/subscript/attribute/'
              'augmented/chained/unpacking/swap/display/comparison/del/assert/raise/with skeletons are compiled with logging '
              'leaves; thorough adds C-typed leaves and every ordered pair of expression skeletons nested once.  The ordered '
              'event log (leaf evaluations and all dunder events except __bool__), result and exception type must equal '
              'CPython running the same source.')
LEVEL_NOTE = ('__bool__ call counts are excluded by design (CPython double-tests `a and b or c`); implicit __hash__ / __index__ '
              'protocol calls (dict display hashing, slice bound conversion) are not evaluations of sub-expressions and are not logged.  Events inside the callee of '
              'a call are logged by the callee, not by argument conversion.  Leaves are calls of module-level Python '
              'functions; skeleton depth is bounded (nesting once).  Trusted: CPython 3.12 as reference, gcc.')

REACH = ['__Pyx_PyObject_FastCall', '__Pyx_PyObject_Call', 'PyDict_SetItem', '__Pyx_PyObject_GetItem', '__Pyx_PyObject_SetAttrStr',
         'PyObject_SetItem', '__Pyx_PyObject_IsTrue', 'PyNumber_InPlaceAdd', '__Pyx_PyObject_GetSlice', 'PyObject_RichCompare',
         '__Pyx_IterFinish', '__Pyx_PyObject_LookupSpecial', 'PyObject_DelItem', '__Pyx_PyObject_DelAttr']

PRELUDE = 'import cython\nfrom props._g5_rt import A, B, V, SEQ, MAP, IT, EXC, F, O, E1, ev\n'


def call_layouts(maxn):
    """All argument layouts accepted by CPython's parser."""
    out = []
    for n in range(maxn + 1):
        for lay in itertools.product('pskd', repeat=n):
            args = []
            for i, k in enumerate(lay, 1):
                args.append({'p': 'A(%d)' % i, 's': '*SEQ(%d)' % i, 'k': 'k%d=A(%d)' % (i, i), 'd': '**MAP(%d)' % i}[k])
            src = 'F(0)(%s)' % ', '.join(args)
            try:
                compile(src, '<layout>', 'eval')
            except SyntaxError:
                continue
            out.append((''.join(lay) or '-', ', '.join(args)))
    return out


# statement skeletons: (tag, body)  - body is a block; `return` the interesting value
STMTS = [
    ('sub/chain', 'return A(0)[A(1)][A(2)]'),
    ('sub/tuple', 'return A(0)[A(1), A(2)]'),
    ('slice/3', 'return A(0)[A(1):A(2):A(3)]'),
    ('slice/2', 'return A(0)[A(1):A(2)]'),
    ('slice/lo', 'return A(0)[A(1):]'),
    ('slice/hi', 'return A(0)[:A(1)]'),
    ('slice/step', 'return A(0)[::A(1)]'),
    ('attr/get', 'return A(0).x.y'),
    ('attr/call', 'return A(0).m(A(1), k=A(2))'),
    ('attr/call-star', 'return A(0).m(*SEQ(1), A(2), **MAP(3))'),
    ('call/nested', 'return F(0)(F(1)(A(2)), F(3)(A(4), A(5)))'),
    ('call/obj', 'return A(0)(A(1), *SEQ(2), k=A(3))'),
    ('target/attr', 'A(0).x = A(1)'),
    ('target/sub', 'A(0)[A(1)] = A(2)'),
    ('target/slice', 'A(0)[A(1):A(2)] = A(3)'),
    ('target/slice3', 'A(0)[A(1):A(2):A(3)] = A(4)'),
    ('target/sub-sub', 'A(0)[A(1)][A(2)] = A(3)'),
    ('target/attr-sub', 'A(0).x[A(1)] = A(2)'),
    ('aug/sub', 'A(0)[A(1)] += A(2)'),
    ('aug/attr', 'A(0).x += A(1)'),
    ('aug/slice', 'A(0)[A(1):A(2)] += A(3)'),
    ('aug/sub-sub', 'A(0)[A(1)][A(2)] *= A(3)'),
    ('aug/name', 'x = A(0)\nx += A(1)\nx -= A(2)\nreturn x'),
    ('aug/sub-or', 'A(0)[A(1)] |= A(2)'),
    ('chain/attr-sub', 'A(0).x = A(1)[A(2)] = A(3)'),
    ('chain/3', 'A(0).x = A(1).y = A(2)[A(3)] = A(4)'),
    ('chain/name', 'p = A(0).x = q = A(1)\nreturn p, q'),
    ('unpack/star', 'A(0).x, *A(1)[0], c = IT(2, 4)\nreturn c'),
    ('unpack/2', 'A(0).x, A(1)[A(2)] = IT(3, 2)'),
    ('unpack/tuple-rhs', 'A(0).x, A(1).y = A(2), A(3)'),
    ('unpack/nested', '(A(0).x, (A(1).y, A(2)[0])), A(3).z = IT(4, 2), A(5)'),
    ('unpack/short', 'A(0).x, A(1).y, A(2).z = IT(3, 2)'),
    ('unpack/long', 'A(0).x, A(1).y = IT(2, 3)'),
    ('unpack/star-mid', 'A(0).x, *A(1).y, A(2).z = IT(3, 5)'),
    ('unpack/list-target', '[A(0).x, A(1).y] = IT(2, 2)'),
    ('swap/sub', 'x = A(9)\nx[A(0)], x[A(1)] = x[A(2)], x[A(3)]'),
    ('swap/sub3', 'x = A(9)\nx[A(0)], x[A(1)], x[A(2)] = x[A(3)], x[A(4)], x[A(5)]'),
    ('swap/attr', 'x = A(8)\ny = A(9)\nx.a, y.b = y.b, x.a'),
    ('swap/names', 'p = A(0)\nq = A(1)\np, q = q, p\nreturn p, q'),
    ('swap/mixed', 'x = A(9)\np = A(0)\np, x[A(1)] = x[A(2)], p\nreturn p'),
    ('swap/list', 'l = [A(0), A(1), A(2)]\nl[0], l[2] = l[2], l[0]\nreturn l'),
    ('swap/list-dep', 'l = [1, 2, 0]\ni = 0\ni, l[i] = l[i], i\nreturn i, l'),
    ('display/tuple', 'return (A(0), A(1), *SEQ(2), A(3))'),
    ('display/list', 'return [A(0), *SEQ(1), A(2)]'),
    ('display/set', 'return len({A(0), A(1), A(2)})'),
    ('display/set-star', 'return len({A(0), *SEQ(1), A(2)})'),
    ('display/dict', 'return len({A(0): A(1), A(2): A(3)})'),
    ('display/dict-merge', 'return len({**MAP(0), A(1): A(2), **MAP(3), A(4): A(5)})'),
    ('display/dict-dup', "return {V(0, 'k'): A(1), V(2, 'k'): A(3)}"),
    ('display/nested', 'return [(A(0), [A(1), {A(2): A(3)}]), A(4)]'),
    ('cmp/2', 'return A(0) < A(1)'),
    ('cmp/chain3', 'return A(0) < A(1) <= A(2)'),
    ('cmp/chain4', 'return A(0) < A(1) == A(2) >= A(3)'),
    ('cmp/chain-false', 'return B(0, False) < B(1, False) < A(2)'),
    ('cmp/in', 'return A(0) in A(1), A(2) not in A(3)'),
    ('cmp/is', 'return A(0) is A(1), A(2) is not A(3)'),
    ('cmp/in-display', 'return A(0) in (A(1), A(2)), A(3) not in [A(4), A(5)], A(6) in {A(7), A(8)}'),
    ('cmp/in-display-values', 'return V(0, 2) in (V(1, 1), V(2, 2), V(3, 3)), V(4, 5) not in [V(5, 1), V(6, 5)]'),
    ('builtin/minmax', 'return min(V(0, 3), V(1, 2)), max(V(2, 1), V(3, 5), V(4, 2)), min(A(5), A(6))'),
    ('builtin/misc', 'return isinstance(V(0, 1), V(1, int)), getattr(A(2), V(3, "x"), A(4)), len(V(5, [1])), abs(V(6, -1)), divmod(V(7, 7), V(8, 2))'),
    ('builtin/dict-methods', 'd = {}\nd.setdefault(V(0, 1), V(1, 2))\nreturn d.get(V(2, 1), V(3, 0)), d.pop(V(4, 1), V(5, 9)), d'),
    ('builtin/list-methods', 'l = []\nl.append(V(0, 1))\nl.insert(V(1, 0), V(2, 5))\nl.extend(V(3, [7]))\nreturn l.pop(V(4, 0)), l'),
    ('builtin/str-methods', "s = 'abcabc'\nreturn s.startswith(V(0, 'a'), V(1, 0), V(2, 3)), s.find(V(3, 'c'), V(4, 1)), s.replace(V(5, 'a'), V(6, 'x'), V(7, 1)), V(8, '-').join(V(9, ['p', 'q']))"),
    ('cmp/mixed-chain', 'return A(0) in A(1) == A(2)'),
    ('cond/true', 'return A(0) if B(1, True) else A(2)'),
    ('cond/false', 'return A(0) if B(1, False) else A(2)'),
    ('cond/nested', 'return A(0) if B(1, False) else A(2) if B(3, True) else A(4)'),
    ('comp/list', 'return [A(1) for _ in SEQ(0)]'),
    ('comp/list-if', 'return [v for v in SEQ(0) if B(1, True)]'),
    ('comp/nested', 'return [(a, b) for a in SEQ(0) for b in SEQ(1)]'),
    ('comp/dict', 'return len({A(1): A(2) for _ in SEQ(0)})'),
    ('comp/set', 'return len({A(1) for _ in SEQ(0)})'),
    ('comp/gen', 'g = (A(1) for _ in SEQ(0))\nev("made")\nreturn list(g)'),
    ('comp/gen-arg', 'return F(0)(A(2) for _ in SEQ(1))'),
    ('fstring', "return f'{A(0)}{A(1)!r}{A(2):>{A(3)}}'"),
    ('fstring/spec', "return f'{A(0):x{A(1)}y{A(2)}}'"),
    ('binop/tree', 'return A(0) + A(1) * A(2) - A(3)'),
    ('binop/paren', 'return (A(0) + A(1)) * (A(2) - A(3))'),
    ('binop/pow', 'return A(0) ** A(1) ** A(2)'),
    ('binop/unary', 'return -A(0) + ~A(1)'),
    ('binop/mixed', 'return 1 + A(0), A(1) + 1, 2 * A(2) * 3'),
    ('binop/shift', 'return A(0) << A(1) | A(2) & A(3)'),
    ('walrus', 'return (y := A(0)) + A(1) + y'),
    ('lambda/defaults', 'g = lambda a=A(0), *, b=A(1): (a, b)\nev("made")\nreturn g()'),
    ('def/defaults', 'def g(a=A(0), b=A(1), *, c=A(2)) -> None:\n    return a, b, c\nev("made")\nreturn g()'),
    ('def/decorators', '@F(0)\n@F(1)\ndef g(a=A(2)):\n    pass\nreturn g'),
    ('class/header', 'class C(V(0, object), metaclass=V(1, type)):\n    x = A(2)\n    y = A(3)\nreturn C.__name__'),
    ('del/mixed', 'del A(0)[A(1)], A(2).x'),
    ('del/slice', 'del A(0)[A(1):A(2)]'),
    ('del/nested', 'del (A(0).x, [A(1)[A(2)], A(3).y])'),
    ('assert/true', 'assert B(0, True), A(1)\nreturn 1'),
    ('assert/false', 'assert B(0, False), A(1)'),
    ('raise/from', 'raise EXC(0) from EXC(1)'),
    ('raise/from-none', 'raise EXC(0) from V(1, None)'),
    ('with/as-attr', 'with A(0) as A(1).x:\n    A(2)'),
    ('with/two', 'with A(0) as A(1).x, A(2) as A(3)[A(4)]:\n    A(5)'),
    ('with/raise', 'with A(0) as x, A(1) as y:\n    raise EXC(2)'),
    ('with/return', 'with A(0):\n    return A(1)'),
    ('return/tuple', 'return A(0), A(1)[A(2)], A(3).x'),
    ('try/finally', 'try:\n    return A(0)\nfinally:\n    A(1)'),
    ('try/except', 'try:\n    raise EXC(0)\nexcept V(1, E1) as e:\n    return A(2)\nfinally:\n    A(3)'),
    ('for/target', 'for A(0).x in IT(1, 2):\n    A(2)'),
    ('for/target-sub', 'for A(0)[A(1)] in IT(2, 2):\n    pass'),
    ('for/tuple-target', 'for A(0).x, A(1).y in [IT(2, 2), IT(3, 2)]:\n    pass'),
    ('while', 'n = 0\nwhile B(n, n < 2):\n    n += 1\n    A(10 + n)\nelse:\n    A(20)'),
    ('print-like', 'return F(0)(A(1), A(2), sep=A(3), end=A(4))'),
    ('index/protocol', 'return [10, 20, 30][A(0)], (1, 2, 3)[A(1)]'),
    ('index/slice-protocol', 'return [10, 20, 30][A(0):A(1)]'),
    ('str/format', "return '%s %r' % (A(0), A(1)), '{} {}'.format(A(2), A(3))"),
    ('global/assign', 'global G0\nG0 = A(0)\nG0.x = A(1)\nreturn G0'),
    ('starred/call-gen', 'return F(0)(*(A(i) for i in range(1, 3)), A(3))'),
    ('yield/order', 'def g():\n    x = yield A(0)\n    yield (x, A(1))\nit = g()\na = next(it)\nreturn a, it.send(A(2))'),
    ('await-free/lambda-call', 'return (lambda a, b: (a, b))(A(0), A(1))'),
    ('kwonly/call', 'def g(a, *, b, c=A(0)):\n    return a, b, c\nreturn g(A(1), b=A(2)), g(b=A(3), a=A(4), c=A(5))'),
    ('dict/setdefault-order', 'd = {}\nd[A(0)] = A(1)\nd.setdefault(A(2), A(3))\nreturn len(d)'),
    ('augassign/global-like', 'l = [0]\nl[V(0, 0)] += V(1, 5)\nreturn l'),
    ('augassign/dict', 'd = {}\nd[V(0, "k")] = V(1, 1)\nd[V(2, "k")] += V(3, 2)\nreturn d'),
    ('augassign/attr-raise', 'o = A(0)\no[V(1, 0)] //= V(2, 0)'),
]

BOOL_SHAPES = ['{0}', 'not {0}', '{0} and {1}', '{0} or {1}', 'not {0} and {1}', 'not ({0} or {1})', '{0} and not {1}',
               '{0} and {1} and {2}', '{0} or {1} or {2}', '{0} and {1} or {2}', '{0} or {1} and {2}', '({0} or {1}) and {2}',
               '{0} and ({1} or {2})', 'not {0} or {1} and not {2}', 'not ({0} and {1}) or {2}',
               '{0} if {1} else {2}', '({0} and {1}) if {2} else ({1} or {0})']

# expression skeletons for nesting (thorough): {h} is the hole
EXPRS = ['A(0)[{h}]', 'A(0)[{h}:A(1)]', 'F(0)({h}, A(1))', 'F(0)(A(1), k={h})', 'F(0)(*{h}, A(1))', '({h}, A(1))', '[A(0), {h}]',
         '{{A(0): {h}}}', '{{{h}: A(1)}}', 'A(0) + {h} * A(1)', 'A(0) < {h} < A(1)', '{h} if B(0, True) else A(1)',
         'A(0) if B(1, False) else {h}', 'A(0).m({h})', '[{h} for _ in SEQ(0)]', "f'{{A(0)}}{{{h}}}'", '(B(0, True) and {h})',
         '(B(0, False) or {h})']
FILLS = ['A(5)', 'A(5)[A(6)]', 'F(5)(A(6), A(7))', '(A(5), A(6))', 'A(5) + A(6)', 'A(5) < A(6)', 'A(5).x', '(A(5) if B(6, True) else A(7))',
         '[A(6) for _ in SEQ(5)]', '(B(5, True) and A(6))', 'A(5)[A(6):A(7)]', '{A(5): A(6)}']

TYPED_PRELUDE = PRELUDE + '''
@cython.cfunc
def CI(i: cython.int, v: cython.int) -> cython.int:
    ev('leaf', i)
    return v
@cython.cfunc
def CD(i: cython.int, v: cython.double) -> cython.double:
    ev('leaf', i)
    return v
@cython.cfunc
def CS(i: cython.int, v: str) -> str:
    ev('leaf', i)
    return v
@cython.cfunc
def CL(i: cython.int, v: list) -> list:
    ev('leaf', i)
    return v
@cython.cfunc
def CB(i: cython.int, v: cython.bint) -> cython.bint:
    ev('leaf', i)
    return v
'''
TYPED = [
    ('typed/arith-int', 'return CI(0, 7) + CI(1, 3) * CI(2, 2) - CI(3, 1)'),
    ('typed/arith-mixed', 'return CI(0, 7) + CD(1, 1.5) * CI(2, 2), CD(3, 2.0) / CI(4, 4)'),
    ('typed/div-order', 'return CI(0, 7) // CI(1, 0)'),
    ('typed/mod-order', 'return CI(0, 7) % CI(1, 2), CD(2, 7.5) % CD(3, 2.0)'),
    ('typed/shift', 'return CI(0, 1) << CI(1, 3) | CI(2, 4) & CI(3, 6)'),
    ('typed/cmp-chain', 'return CI(0, 1) < CI(1, 2) < CI(2, 3), CI(3, 3) < CI(4, 2) < CI(5, 9)'),
    ('typed/cmp-mixed', 'return CI(0, 1) < CD(1, 1.5) <= CI(2, 2) != CD(3, 2.5)'),
    ('typed/bool', 'return (CI(0, 0) or CI(1, 5)), (CI(2, 3) and CI(3, 0)), (CB(4, True) and CB(5, False) or CB(6, True))'),
    ('typed/cond', 'return CI(0, 1) if CB(1, False) else CD(2, 2.5), CI(3, 1) if CI(4, 1) else CI(5, 2)'),
    ('typed/call-args', 'return F(0)(CI(1, 1), CD(2, 2.5), CS(3, "s"), k=CI(4, 4))'),
    ('typed/list-index', 'l = [10, 20, 30]\nreturn l[CI(0, 1)], CL(1, l)[CI(2, 2)], CL(3, l)[CI(4, -1)]'),
    ('typed/list-set', 'l = [10, 20, 30]\nCL(0, l)[CI(1, 1)] = CI(2, 99)\nreturn l'),
    ('typed/list-aug', 'l = [10, 20, 30]\nCL(0, l)[CI(1, 1)] += CI(2, 5)\nreturn l'),
    ('typed/list-swap', 'l = [10, 20, 30]\nl[CI(0, 0)], l[CI(1, 2)] = l[CI(2, 2)], l[CI(3, 0)]\nreturn l'),
    ('typed/list-swap-local', 'l: list = [10, 20, 30]\ni: cython.int = 0\nj: cython.int = 2\nl[i], l[j] = l[j], l[i]\ni, j = j, i\nreturn l, i, j'),
    ('typed/swap-int', 'a: cython.int = CI(0, 1)\nb: cython.int = CI(1, 2)\na, b = b, a\na, b = b, a + b\nreturn a, b'),
    ('typed/swap-dep', 'l: list = [1, 2, 0]\ni: cython.int = 0\ni, l[i] = l[i], i\nreturn i, l'),
    ('typed/swap-3', 'a: cython.int = 1\nb: cython.int = 2\nc: cython.int = 3\na, b, c = c, a, b\nreturn a, b, c'),
    ('typed/chain-assign', 'a: cython.int\nb: cython.long\nl = [0]\na = b = l[CI(0, 0)] = CI(1, 7)\nreturn a, b, l'),
    ('typed/unpack', 'a: cython.int\nb: cython.long\na, b = CI(0, 1), CI(1, 2)\nc: cython.int\nd: cython.int\nc, d = IT(2, 2)._items and (V(3, 5), V(4, 6))\nreturn a, b, c, d'),
    ('typed/str-concat', 'return CS(0, "a") + CS(1, "b") * CI(2, 2) + CS(3, "c")'),
    ('typed/str-index', 'return CS(0, "abc")[CI(1, 1)], CS(2, "abc")[CI(3, 0):CI(4, 2)]'),
    ('typed/str-cmp', 'return CS(0, "a") == CS(1, "a"), CS(2, "a") < CS(3, "b") < CS(4, "a"), CS(5, "x") in CS(6, "xyz")'),
    ('typed/fstring', "return f'{CI(0, 5)}{CD(1, 1.5):>{CI(2, 6)}}{CS(3, \"s\")!r}'"),
    ('typed/tuple', 'return (CI(0, 1), CD(1, 2.5), CS(2, "s"), CI(3, 4) + CI(4, 5))'),
    ('typed/dict', 'return {CI(0, 1): CD(1, 1.5), CS(2, "k"): CI(3, 3)}'),
    ('typed/aug-int', 'a: cython.int = CI(0, 1)\na += CI(1, 2)\na *= CI(2, 3) + CI(3, 1)\nreturn a'),
    ('typed/return-coerce', 'x: cython.double = CI(0, 3) / CI(1, 2)\ny: cython.int = CI(2, 7) // CI(3, 2)\nreturn x, y'),
    ('typed/abs-minmax', 'return abs(CI(0, -3)), min(CI(1, 4), CI(2, 2)), max(CD(3, 1.5), CD(4, 2.5), CD(5, 0.5))'),
    ('typed/in-literal', 'return CI(0, 2) in (CI(1, 1), CI(2, 2), CI(3, 3)), CI(4, 5) in (1, 2, 3)'),
    ('typed/range-bounds', 'out = []\nfor i in range(CI(0, 1), CI(1, 7), CI(2, 2)):\n    out.append(i)\nreturn out'),
    ('typed/slice-bounds', 'return CL(0, [1, 2, 3, 4])[CI(1, 1):CI(2, 3)]'),
    ('typed/cfunc-args', 'return CI(0, CI(1, CI(2, 5))) + CI(3, CI(4, 1))'),
]



# cdef / @cython.cfunc callees: keyword arguments in non-declared order are mapped to positional C arguments at compile time
# (GeneralCallNode.map_to_simple_call_node); every argument is a logging leaf
CFUNC_PRELUDE = TYPED_PRELUDE + """
@cython.cfunc
def G3(a, b, c):
    ev('G3', a, b, c)
    return (a, b, c)
@cython.cfunc
def G4(a, b, c, d):
    ev('G4', a, b, c, d)
    return (a, b, c, d)
@cython.cfunc
def H3(a: cython.int, b: cython.double, c):
    ev('H3', a, b, c)
    return (a, b, c)
@cython.cfunc
def H4(a: cython.int, b: cython.int, c: cython.int, d: cython.int) -> cython.int:
    ev('H4', a, b, c, d)
    return a * 1000 + b * 100 + c * 10 + d
@cython.cfunc
def D4(a, b=V(90, 'db'), c=V(91, 'dc'), d=V(92, 'dd')):
    ev('D4', a, b, c, d)
    return (a, b, c, d)
"""


def cfunc_calls(tier):
    """All splits positional-prefix / keywords x ALL permutations of the keyword order, for 3- and 4-parameter cfuncs."""
    out = []
    for fname, names, leaf in (('G3', 'abc', 'A(%d)'), ('G4', 'abcd', 'A(%d)'), ('H3', 'abc', None), ('H4', 'abcd', 'CI(%d, %d)')):
        n = len(names)
        for npos in range(n + 1):
            for perm in itertools.permutations(names[npos:]):
                args = []
                k = 0
                def mk(param):
                    nonlocal k
                    k += 1
                    if fname == 'H3':
                        return {'a': 'CI(%d, %d)' % (k, k), 'b': 'CD(%d, %d.5)' % (k, k), 'c': 'A(%d)' % k}[param]
                    return leaf % ((k, k) if leaf.count('%d') == 2 else k)
                for prm in names[:npos]:
                    args.append(mk(prm))
                for prm in perm:
                    args.append('%s=%s' % (prm, mk(prm)))
                out.append(('cfunc-call/%s/pos%d/%s' % (fname, npos, ''.join(perm) or '-'), 'return %s(%s)' % (fname, ', '.join(args)), 'c'))
    # optional parameters: every subset of the optional keywords in every order, after 1 positional
    # (gaps in the optional parameters are a documented limitation of C function calls: only prefixes of b, c, d)
    for r in range(0, 4):
        for perm in itertools.permutations('bcd'[:r], r):
            args = ['A(1)'] + ['%s=A(%d)' % (prm, i + 2) for i, prm in enumerate(perm)]
            out.append(('cfunc-call/D4/opt/%s' % (''.join(perm) or '-'), 'return D4(%s)' % ', '.join(args), 'c'))
        for perm in itertools.permutations('abcd'[:r + 1], r + 1):
            args = ['%s=A(%d)' % (prm, i + 1) for i, prm in enumerate(perm)]
            out.append(('cfunc-call/D4/kw-only/%s' % ''.join(perm), 'return D4(%s)' % ', '.join(args), 'c'))
    out.append(('cfunc-call/nested', 'return G3(c=G3(c=A(1), a=A(2), b=A(3)), b=G3(A(4), c=A(5), b=A(6)), a=A(7))', 'c'))
    return out


def functions(tier):
    out = []          # (tag, body, prelude kind)
    for lay, args in call_layouts(4 if tier == 'thorough' else 3):
        out.append(('call/%s' % lay, 'return F(0)(%s)' % args, 'p'))
        out.append(('mcall/%s' % lay, 'return A(0).m(%s)' % args, 'p'))
    if tier == 'quick':
        for lay, args in call_layouts(4):
            if len(lay) == 4 and lay.count('p') <= 2:
                out.append(('call/%s' % lay, 'return F(0)(%s)' % args, 'p'))
    for tag, body in STMTS:
        out.append((tag, body, 'p'))
    for shape in BOOL_SHAPES:
        n = len(set(re.findall(r'\{(\d)\}', shape)))
        for truth in itertools.product((True, False), repeat=n):
            expr = shape.format(*['B(%d, %s)' % (i, t) for i, t in enumerate(truth)])
            ts = ''.join('T' if t else 'F' for t in truth)
            out.append(('bool/%s/%s' % (shape.replace('{', '').replace('}', ''), ts), 'return ' + expr, 'p'))
            out.append(('bool-if/%s/%s' % (shape.replace('{', '').replace('}', ''), ts),
                        'if %s:\n    return A(7)\nelse:\n    return A(8)' % expr, 'p'))
    for tag, body in TYPED:
        out.append((tag, body, 't'))
    out += cfunc_calls(tier)
    if tier == 'thorough':
        for (i, outer), (j, fill) in itertools.product(enumerate(EXPRS), enumerate(FILLS)):
            out.append(('nest/%d/%d' % (i, j), 'return ' + outer.format(h=fill), 'p'))
        for (i, outer), (j, inner) in itertools.product(enumerate(EXPRS), enumerate(EXPRS)):
            inner_r = re.sub(r'\((\d)', lambda m: '(%d' % (int(m.group(1)) + 5), inner.format(h='A(9)'))
            out.append(('nest2/%d/%d' % (i, j), 'return ' + outer.format(h=inner_r), 'p'))
    return out


def build_key(m, r):
    tags = [f.tag for f in m.funcs]
    t = tags[0] if tags else m.name
    if t.startswith('cfunc-call/'):
        return 'build-failure|%s|cfunc-call' % r.stage
    return 'build-failure|%s|%s' % (r.stage, t)


def keyfn(tag, inp, exp, got):
    """skeleton class (boolean truth assignments and nesting indices collapsed) | first divergent event class | divergence"""
    div = e2.divclass(exp, got)
    where = ''
    try:
        le, lg = exp[-1], got[-1]
        if le != lg:
            k = 0
            while k < len(le) and k < len(lg) and le[k] == lg[k]:
                k += 1
            def cls(l, k):
                if k >= len(l):
                    return 'END'
                e = l[k]
                return 'leaf' if e[0] == 'leaf' else (e[1] if len(e) > 1 else e[0])
            where = '%s->%s' % (cls(le, k), cls(lg, k))
    except Exception:
        where = '?'
    t = tag
    if div == 'exc-args-or-log':
        div = 'log'                      # same exception type in both runs, only the event log differs
    if t.startswith('nest'):
        # nested skeletons: keyed by the outer skeleton; the late attribute lookup of method calls keeps its own family
        t = 'mcall/nested' if where == 'getattr->leaf' else 'nest/' + t.split('/')[1]
    if t.startswith(('bool/', 'bool-if/')):
        t = '/'.join(t.split('/')[:2])
    if t.startswith('cfunc-call/'):
        t = '/'.join(t.split('/')[:2])
        where = 'leaf-order' if where == 'leaf->leaf' else 'passed-arguments' if where else ''
    if t.startswith(('call/', 'mcall/')):
        kinds = ''.join(sorted(set(t.split('/')[1])))
        t = t.split('/')[0] + '/{' + kinds + '}'
    return '%s|%s|%s' % (t, where, div)


def run(ctx):
    fl = functions(ctx.tier)
    flt = os.environ.get('VERIF_G5_FILTER')
    if flt:
        fl = [f for f in fl if flt in f[0]]
    mods = []
    per = 60
    for kind, prelude in (('p', PRELUDE), ('t', TYPED_PRELUDE), ('c', CFUNC_PRELUDE)):
        sub = [f for f in fl if f[2] == kind]
        parts = []
        for n, (tag, body, _) in enumerate(sub):
            name = 'f%d' % n
            src = 'def %s():\n%s\n' % (name, '\n'.join('    ' + l for l in body.split('\n')))
            parts.append(e2.Part(src, [e2.Func(name, tag, 'none')]))
        step = per if kind != 'c' else 8          # small modules: cheap bisection if a call layout is rejected
        for i in range(0, len(parts), step):
            mods.append(e2.Mod('c20%s_%d' % (kind, i // step), prelude, parts[i:i + step], {'none': [()]}, ext='.py', use_log=True))
    ctx.log('%d skeleton functions in %d modules' % (len(fl), len(mods)))
    st = g5.run_diff(ctx, mods, keyfn=keyfn, reach=REACH, timeout=300, build_key=build_key)
    samples = [{'tag': fl[i][0], 'body': fl[i][1]} for i in (0, len(fl) // 3, len(fl) // 2, len(fl) - 1)] if fl else [{'filter': flt}]
    cov = g5.cov_from(st, 'every skeleton is one evaluation; counted once per distinct (skeleton, reference event log + outcome)', samples,
                      {'call_layouts': len(call_layouts(4)), 'statement_skeletons': len(STMTS), 'bool_shapes': len(BOOL_SHAPES),
                       'typed_skeletons': len(TYPED), 'cfunc_call_skeletons': len(cfunc_calls(ctx.tier))})
    return cov, ['__bool__ events are not logged (by design, see DESIGN.md C20)', 'skeleton nesting depth is bounded']


def replay(ctx, case):
    return g5.replay(ctx, case)
