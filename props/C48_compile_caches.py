"""C48 - compilation caches never return stale results.

State space: the input vector of a compilation = (bytes of the source, of a cimported .pxd, of an included
.pxi, of cimported/included files whose names resemble the special 'cython' module (cython_x, cythonx, cy,
Cython_x, cythonpkg/dep, cython_inc.pxi), of a `cdef extern` header; every member of CompilationOptions.default_options that has an alternative
value in OPTION_ALTS (the table is checked against the introspected default_options: members without an
entry are listed in the evidence as uncovered); every compiler directive of Options._directive_defaults
(bool: toggled; None-default: True and False; enumerated: every member); compile_time_env; Extension
language / py_limited_api / libraries (embedded metadata)).

Histories (explicit enumeration, no sampling): from the base vector A with an EMPTY PRIVATE cache directory,
every single component change A->B and the return A->B->A (quick); thorough adds 10 four-step histories
A->Bi->BiBj->Bj: all 6 ordered pairs over the fixed component subset {a.pyx code, b.pxd enum, language_level=2}
and the directive cdivision=True paired in both orders with {a.pyx code, b.pxd enum} (4).
Each step = generated files removed, `cythonize(..., cache=<dir>)` in a fresh forked process.
Oracle after EVERY step: all generated artefacts (.c/.cpp/.h/_api.h/...) are byte-identical to what an
UNCACHED `cythonize(cache=False)` of the same vector produces in the same directory.  A component whose
change leaves the uncached output unchanged may hit or miss freely.  If a step differs although nothing was
served from the cache, the uncached compilation is repeated (up to 10 times): when two uncached outputs of
the vector differ the compiler itself is nondeterministic there - recorded (evidence
uncached_output_nondeterministic, WARN line) and left to C42, not reported as a cache violation.

cython.inline: components code text, text inside a str / bytes / f-string literal, argument
type, language_level, cython_compiler_directives (cdivision, cpow, language_level-as-directive); histories A->B->A
through (i) one process (in-memory _cython_inline_cache + sys.modules) and (ii) a fresh process per call
sharing lib_dir (on-disk module cache); oracle: the value returned for a probe input equals the value an
uncached (force=True, private lib_dir, fresh process) compilation of the same vector returns.
"""
import os, sys, json, shutil, hashlib, copy
from vlib import farm, runner

LEVEL = 'model_checking'
ENGINE = 'E3 histexplore'
TECHNIQUE = ('explicit enumeration of one-component-change histories over the introspected option/directive/input vector; '
             'real cythonize(cache=dir) and cython.inline per step in fresh processes, compared with uncached compilation')
LEVEL_TEXT = ('Every history A->B and A->B->A (thorough: also 10 four-step histories A->Bi->BiBj->Bj over a fixed subset of 3 structural '
              'components and 1 directive) in which one component of the compilation '
              'input vector (source / pxd / pxi / header bytes, each CompilationOptions member with a listed alternative, '
              'every compiler directive value, compile_time_env, Extension flags) changes is executed on the real '
              'cythonize compilation cache with a private empty cache directory per history; after every step all generated '
              'files must be byte-identical to an uncached compilation of the same vector.  Same for cython.inline over '
              'code / argument type / language_level / directives, through the in-process and the '
              'on-disk cache, comparing returned values with an uncached build.')
LEVEL_NOTE = ('Histories have <= 2 changes (3 compilations); probe modules a.pyx (gzip path), p.pyx (public/api: zip path), i.pyx (include). '
              'Options without an alternative in OPTION_ALTS are reported as uncovered, options that make caching raise '
              'NotImplementedError by design (capi_reexport_cincludes, common_utility_include_dir) and annotate (disables '
              'the cache) are excluded.  Directives whose alternative value is rejected at module scope are skipped and '
              'counted.  Each compilation runs in a child forked from a warmed parent (stands for a fresh process); two '
              'cythonize calls in ONE process (process-lifetime file_hash cache) are out of scope.  cache eviction '
              '(cleanup_cache) is not explored.  cython.inline code containing cimports is not in the alphabet (the unbound-symbol '
              'pass of cython_inline cannot resolve project .pxd files), so dependency bytes are not a component for inline.')

# ------------------------------------------------------------------------------------------- probe tree
A_PYX = '''\
cimport cython
from b cimport K, bt
cdef extern from "h.h":
    int HV

IF CTE == 1:
    cte = "one"
ELSE:
    cte = "other"

cdef class E:
    cdef public int v
    cdef object o
    def __init__(self, v):
        self.v = v
    cpdef int get(self):
        return self.v
    def __add__(self, other):
        return 1

cdef int cf(int a, int b):
    """
    >>> 1
    1
    """
    return a // b

def div(int a, int b):
    """
    >>> div(1, 1)
    1
    """
    return cf(a, b) + K

def mul(long a, long b):
    return a * b

def idx(list l, int i):
    return l[i]

def nc(E e):
    return e.v

def power(int a, int b):
    return a ** b

def kw(a, b=2):
    x = a
    return x + b

def ann(x: int) -> int:
    return x + 1

cdef char* cs = "abc"
def cstr():
    return cs

def sw(int x):
    if x == 1 or x == 2 or x == 3:
        return 1
    elif x == 4:
        return 2
    return 0

def unreach():
    return 1
    print("never")

def meth(l):
    return l.append(1)

def inner():
    def g(a):
        return a
    return g(1)

async def co():
    return 1

cdef void unr() noexcept:
    raise ValueError

def inf():
    x = 1
    x = x + 1
    return x

def cplx(double complex z):
    return z * z

def glob():
    return globals()

def ga(o):
    return o.attr
'''
P_PYX = '''\
cdef public int pf(int x):
    return x // 2
cdef api int af(int x):
    return x + 1
'''
BASE_FILES = {
    'a.pyx': A_PYX,
    'b.pxd': 'cdef enum:\n    K = 1\nctypedef int bt\n',
    # the include lives in its own module i.pyx: equal (line, column) positions of two files in one scope make the tracing
    # offsets (profile/linetrace) depend on set iteration order - reported under C42, not the cache's fault
    'd.pxi': 'DV = 3\n',
    'i.pyx': 'include "d.pxi"\ndef iv():\n    return DV\n',
    'h.h': '#define HV 1\n',
    'p.pyx': P_PYX,
}
# dependency files whose NAMES merely resemble the special 'cython' module (prefix, no separator, other case, package)
NAME_DEPS = {
    'cython_x.pxd': ('KA', 'from cython_x cimport KA'),
    'cythonx.pxd': ('KB', 'from cythonx cimport KB'),
    'cy.pxd': ('KC', 'from cy cimport KC'),
    'Cython_x.pxd': ('KD', 'from Cython_x cimport KD'),
    'cythonpkg/dep.pxd': ('KE', 'from cythonpkg.dep cimport KE'),
    'cython_y.pxd': ('KF', 'cimport cython_y'),
    'plain_dep.pxd': ('KG', 'from plain_dep cimport KG'),
}
for _fn, (_k, _stmt) in NAME_DEPS.items():
    BASE_FILES[_fn] = 'cdef enum:\n    %s = 1\n' % _k
BASE_FILES['cythonpkg/__init__.py'] = ''
BASE_FILES['cython_inc.pxi'] = 'NI = 1\n'
BASE_FILES['n.pyx'] = ('\n'.join(st for _k, st in NAME_DEPS.values()) + '\ninclude "cython_inc.pxi"\ndef nv():\n    return ('
                       + ', '.join(('cython_y.KF' if k == 'KF' else k) for k, _st in NAME_DEPS.values()) + ', NI)\n')
BASE_OPTIONS = {'language_level': 3, 'compile_time_env': {'CTE': 1}}

# alternatives for CompilationOptions members (keys of Main.default_options)
OPTION_ALTS = {
    'language_level': [2, '3str'],
    'emit_linenums': [True],
    'c_line_in_traceback': [True, False],
    'relative_path_in_code_position_comments': [False],
    'gdb_debug': [True],
    'compile_time_env': [{'CTE': 2}],
    'legacy_implicit_noexcept': [True],
    'use_listing_file': [1],
    'generate_pxi': [1],
    'evaluate_tree_assertions': [True],
    'verbose': [1],
    'errors_to_stderr': [0],
    'cplus': [1],
    'shared_utility_qualified_name': ['shr._cyutility'],
}
OPTION_SKIP = {
    'show_version': 'prints only', 'output_file': 'set by cythonize', 'depfile': 'handled by cythonize itself',
    'annotate': 'disables the cache', 'annotate_coverage_xml': 'annotation only', 'working_path': 'lookup path',
    'capi_reexport_cincludes': 'caching raises NotImplementedError by design',
    'common_utility_include_dir': 'caching raises NotImplementedError by design',
    'timestamps': 'no influence on a single compile', 'quiet': 'cythonize parameter', 'compiler_directives': 'enumerated per directive',
    'embedded_metadata': 'set by cythonize from the Extension (component ext:libraries)', 'formal_grammar': 'needs the optional grammar module',
    'module_name': 'command line only', 'output_dir': 'moves the output', 'build_dir': 'moves the output', 'cache': 'the cache itself',
    'create_extension': 'callable', 'np_pythran': 'needs pythran', 'shared_c_file_path': 'shared module generation',
    'shared_utility_features_enabled': 'shared module generation', 'shared_utility_features_disabled': 'shared module generation',
}
DIRECTIVE_SKIP = {'test_assert_path_exists', 'test_fail_if_path_exists', 'test_body_needs_exception_handling',
                  'test_assert_c_code_has', 'test_fail_if_c_code_has', 'control_flow.dot_output', 'control_flow.dot_annotate_defs',
                  'np_pythran', 'formal_grammar', 'nogil', 'gil', 'with_gil', 'callspec', 'warn'}
DIRECTIVE_STR_ALTS = {'language_level': ['2', '3str'], 'c_string_encoding': ['utf8'], 'set_initial_path': ['SOURCEFILE'],
                      'c_compile_guard': ['GUARD_X'], 'c_string_type': ['str', 'bytearray']}


def base_vector():
    return {'files': dict(BASE_FILES), 'options': copy.deepcopy(BASE_OPTIONS), 'ext': {}}


def directive_values():
    from Cython.Compiler import Options
    out = []
    for name, default in sorted(Options._directive_defaults.items()):
        if name in DIRECTIVE_SKIP:
            continue
        typ = Options.directive_types.get(name)
        if name in DIRECTIVE_STR_ALTS:
            vals = DIRECTIVE_STR_ALTS[name]
        elif typ is bool:
            vals = [True, False] if default is None else [not default]
        elif getattr(typ, '__name__', '') == 'validate':      # one_of(...)
            cells = [c.cell_contents for c in (typ.__closure__ or ()) if isinstance(c.cell_contents, tuple)]
            vals = [v for v in (cells[0] if cells else ()) if v != default]
        else:
            vals = []
        out.append((name, default, vals))
    return out


def components(tier):
    """-> list of (kind, name, value-label, mutate(vector))"""
    comps = []

    def filemut(fn, text):
        def m(v):
            v['files'][fn] = text
        return m
    comps.append(('file', 'a.pyx', 'code', filemut('a.pyx', A_PYX.replace('return x + 1', 'return x + 2'))))
    comps.append(('file', 'a.pyx', 'comment', filemut('a.pyx', A_PYX + '# trailing comment\n')))
    comps.append(('file', 'b.pxd', 'enum', filemut('b.pxd', 'cdef enum:\n    K = 2\nctypedef int bt\n')))
    comps.append(('file', 'd.pxi', 'value', filemut('d.pxi', 'DV = 4\n')))
    comps.append(('file', 'h.h', 'define', filemut('h.h', '#define HV 2\n')))
    comps.append(('file', 'p.pyx', 'code', filemut('p.pyx', P_PYX.replace('x // 2', 'x // 3'))))
    for fn, (k, _stmt) in NAME_DEPS.items():
        comps.append(('file', fn, 'enum', filemut(fn, 'cdef enum:\n    %s = 2\n' % k)))
    comps.append(('file', 'cython_inc.pxi', 'value', filemut('cython_inc.pxi', 'NI = 2\n')))
    for opt, alts in sorted(OPTION_ALTS.items()):
        for val in alts:
            def m(v, opt=opt, val=val):
                v['options'][opt] = copy.deepcopy(val)
            comps.append(('option', opt, repr(val), m))
    for name, default, vals in directive_values():
        for val in vals:
            def m(v, name=name, val=val):
                v['options'].setdefault('compiler_directives', {})[name] = val
                if name == 'c_string_type':
                    v['options']['compiler_directives']['c_string_encoding'] = 'utf8'
            comps.append(('directive', name, repr(val), m))
    for key, val in (('language', 'c++'), ('py_limited_api', True), ('libraries', ['m'])):
        def m(v, key=key, val=val):
            for mod in ('a.pyx', 'p.pyx', 'i.pyx', 'n.pyx'):
                v['ext'].setdefault(mod, {})[key] = val
        comps.append(('ext', key, repr(val), m))
    return comps


def apply_comp(vec, comp):
    v = copy.deepcopy(vec)
    comp[3](v)
    return v


# ------------------------------------------------------------------------------------------- one real cythonize
def _child_cythonize(treedir, vec, modules, cache_dir):
    os.chdir(treedir)
    import Cython.Build.Dependencies as D
    import Cython.Build.Cache as C
    if D._dep_tree is not None:
        raise RuntimeError('harness: dependency tree exists before cythonize')
    hits = []
    orig = C.Cache.load_from_cache

    def rec(self, c_file, cached):
        hits.append(os.path.basename(c_file))
        return orig(self, c_file, cached)
    C.Cache.load_from_cache = rec
    from distutils.extension import Extension
    mods = []
    for m in modules:
        kw = vec['ext'].get(m)
        mods.append(Extension(os.path.splitext(m)[0], [m], **kw) if kw else m)
    opts = copy.deepcopy(vec['options'])
    D.cythonize(mods, quiet=True, cache=cache_dir if cache_dir else False, **opts)
    return hits


def _write_vector(treedir, vec):
    if os.path.isdir(treedir):
        shutil.rmtree(treedir)
    os.makedirs(treedir)
    for fn, text in vec['files'].items():
        os.makedirs(os.path.dirname(os.path.join(treedir, fn)), exist_ok=True)
        with open(os.path.join(treedir, fn), 'w') as f:
            f.write(text)


def _collect(treedir, vec):
    out = {}
    for dp, dn, fns in os.walk(treedir):
        for fn in fns:
            rel = os.path.relpath(os.path.join(dp, fn), treedir)
            if rel in vec['files']:
                continue
            with open(os.path.join(dp, fn), 'rb') as f:
                out[rel] = f.read()
    return out


def _build(treedir, vec, modules, cache_dir):
    """Fresh tree of the vector, one cythonize in a forked child.  -> (outputs dict | None, hits | error text)"""
    _write_vector(treedir, vec)
    r = runner.forked(_child_cythonize, treedir, vec, modules, cache_dir, timeout=600)
    if r.kind != 'ok':
        return None, '%s: %s\n%s' % (r.kind, str(r.value)[-1200:], r.output[-1200:])
    return _collect(treedir, vec), r.value


def _digest(outs):
    return {k: hashlib.sha1(v).hexdigest()[:12] for k, v in sorted(outs.items())}


def _first_diff(a, b):
    for k in sorted(set(a) | set(b)):
        if a.get(k) != b.get(k):
            if k not in a or k not in b:
                return k, 'file %s only in %s output' % (k, 'cached' if k in a else 'uncached')
            la, lb = a[k].split(b'\n'), b[k].split(b'\n')
            for i, (x, y) in enumerate(zip(la, lb)):
                if x != y:
                    return k, '%s line %d: cached %r / uncached %r' % (k, i + 1, x[:120], y[:120])
            return k, '%s: lengths differ (%d / %d lines)' % (k, len(la), len(lb))
    return None, None


def _read_dir(d):
    out = {}
    for dp, dn, fns in os.walk(d):
        for fn in fns:
            with open(os.path.join(dp, fn), 'rb') as f:
                out[os.path.relpath(os.path.join(dp, fn), d)] = f.read()
    return out


def ref_job(arg):
    """Uncached compilation of one vector in its own directory; outputs are kept in <refdir>/out."""
    key, vec, modules, refroot = arg
    d = os.path.join(refroot, key)
    tree = os.path.join(d, 'tree')
    out, info = _build(tree, vec, modules, None)
    if out is None or not out:
        shutil.rmtree(d, ignore_errors=True)
        return key, None, info if out is None else 'no output'
    od = os.path.join(d, 'out')
    for rel, data in out.items():
        os.makedirs(os.path.dirname(os.path.join(od, rel)), exist_ok=True)
        with open(os.path.join(od, rel), 'wb') as f:
            f.write(data)
    shutil.rmtree(tree, ignore_errors=True)
    return key, od, _digest(out)


def run_history(arg):
    """arg = (hid, vectors [A, B, ...], modules, workdir, refdirs).  refdirs[i] = directory holding the uncached
    output of vectors[i], 'rejected' if the uncached compilation failed, or None = compute it in place (needed
    when the output embeds the absolute path).  Returns dict with per-step results."""
    hid, vectors, modules, workdir, refdirs = arg
    hdir = os.path.join(workdir, 'h%s' % hid)
    tree = os.path.join(hdir, 'tree')
    cache = os.path.join(hdir, 'cache')
    os.makedirs(cache)
    steps = []
    refs = []
    try:
        for si, vec in enumerate(vectors):
            rd = refdirs[si] if refdirs else None
            if rd == 'rejected':
                steps.append({'status': 'rejected', 'error': 'uncached compilation fails'})
                break
            if rd is None:
                ref, info = _build(tree, vec, modules, None)
                if ref is None or not ref:
                    steps.append({'status': 'rejected', 'error': info})
                    break
            else:
                ref = _read_dir(rd)
            got, hits = _build(tree, vec, modules, cache)
            if got is None:
                steps.append({'status': 'cached-build-failed', 'error': hits})
                break
            fn, diff = _first_diff(got, ref)
            dir_dependent = False
            if fn is not None and rd is not None:
                # the shared reference was compiled in another directory: before blaming the cache, recompute the
                # uncached output in THIS directory (output that depends on the directory is C42's business)
                got_files = got
                ref2, info2 = _build(tree, vec, modules, None)
                if ref2:
                    fn2, diff2 = _first_diff(got_files, ref2)
                    dir_dependent = fn2 is None or ref2 != ref
                    ref, fn, diff = ref2, fn2, diff2
                    if fn is not None and not hits:
                        # Nothing was served from the cache: two REAL compilations of one vector differ.  Before blaming
                        # the cache path, find out whether the uncached compiler is deterministic on this vector at all:
                        # up to 10 more uncached compilations in this directory; as soon as two uncached outputs differ the
                        # difference is a determinism defect (C42's property) - counted, not a C48 violation.
                        for _k in range(10):
                            ref3, info3 = _build(tree, vec, modules, None)
                            if ref3 and ref3 != ref2:
                                fn, diff = None, None
                                dir_dependent = 'nondeterministic'
                                break
            st = {'status': 'ok' if fn is None else 'mismatch', 'hits': hits, 'digest': _digest(ref), 'file': fn, 'diff': diff,
                  'dir_dependent': dir_dependent}
            if fn is not None:
                # which earlier vector's output was served?
                st['equals_earlier_step'] = [j for j, r in enumerate(refs) if r.get(fn) == got.get(fn)]
            refs.append(ref)
            steps.append(st)
            if fn is not None:
                break
    finally:
        shutil.rmtree(hdir, ignore_errors=True)
    effect = None
    if len(refs) >= 2:
        effect = refs[0] != refs[1]
    return {'hid': hid, 'steps': steps, 'effect': effect}


# ------------------------------------------------------------------------------------------- cython.inline
INLINE_BASE = {'code': 'return a // b', 'args': {'a': -7, 'b': 2}, 'language_level': None, 'directives': None, 'incfiles': None}


def inline_components():
    def setk(**kw):
        def m(v):
            v.update(copy.deepcopy(kw))
        return m
    return [
        ('code', 'text', setk(code='return a // b + 0 * b - 0')),
        ('argtype', 'float', setk(args={'a': -7.0, 'b': 2.0})),
        ('language_level', '2', setk(code='return a / b', language_level=2)),
        ('directive', 'cdivision', setk(directives={'cdivision': True})),
        ('directive', 'cpow', setk(code='return a ** (b - 3)', directives={'cpow': True})),
        ('directive', 'language_level', setk(code='return a / b', directives={'language_level': 2})),
        # snippets that differ only INSIDE a literal (the key must be built from the original, not the literal-stripped code)
        ('literal', 'str', setk(code="return 'right' + a", args={'a': 'x'})),
        ('literal', 'bytes', setk(code="return b'right' + a", args={'a': {'__bytes__': 'x'}})),
        ('literal', 'fstring', setk(code="return f'right{a}|'", args={'a': 'x'})),
    ]


def inline_base_for(comp):
    """The A vector for a component: the base with the same code/include layout as B where the component needs it."""
    v = copy.deepcopy(INLINE_BASE)
    kind, name, _ = comp
    if (kind, name) in (('language_level', '2'), ('directive', 'language_level')):
        v['code'] = 'return a / b'
    if (kind, name) == ('directive', 'cpow'):
        v['code'] = 'return a ** (b - 3)'
    if (kind, name) == ('literal', 'str'):
        v.update(code="return 'left' + a", args={'a': 'x'})
    if (kind, name) == ('literal', 'bytes'):
        v.update(code="return b'left' + a", args={'a': {'__bytes__': 'x'}})
    if (kind, name) == ('literal', 'fstring'):
        v.update(code="return f'left{a}|'", args={'a': 'x'})
    if kind == 'incfiles':
        v['code'] = 'from dep cimport K\nreturn a + K'
        v['incfiles'] = {'dep.pxd': 'cdef enum:\n    K = 10\n'}
    return v


def _inline_call(vec, lib_dir, incdir, force):
    from Cython.Build.Inline import cython_inline
    kw = {k: (v['__bytes__'].encode() if isinstance(v, dict) else v) for k, v in vec['args'].items()}
    extra = {}
    if vec['language_level'] is not None:
        extra['language_level'] = vec['language_level']
    if vec['directives'] is not None:
        extra['cython_compiler_directives'] = dict(vec['directives'])
    if vec['incfiles'] is not None:
        os.makedirs(incdir, exist_ok=True)
        for fn, text in vec['incfiles'].items():
            with open(os.path.join(incdir, fn), 'w') as f:
                f.write(text)
        extra['cython_include_dirs'] = [incdir]
    try:
        r = cython_inline(vec['code'], lib_dir=lib_dir, quiet=True, force=force, locals={}, globals={}, **extra, **kw)
        return ('value', type(r).__name__, repr(r))
    except Exception as e:
        return ('exc', type(e).__name__, str(e)[:300])


def _child_inline(vectors, lib_dir, incdir, force):
    os.environ['CFLAGS'] = '-O0 -w'
    os.makedirs(os.path.dirname(lib_dir), exist_ok=True)
    os.chdir(os.path.dirname(lib_dir))
    return [_inline_call(v, lib_dir, incdir, force) for v in vectors]


def run_inline_history(arg):
    hid, comp_key, vectors, workdir = arg
    hdir = os.path.join(workdir, 'i%s' % hid)
    os.makedirs(hdir)
    out = {'hid': hid, 'comp': comp_key, 'ref': [], 'inproc': None, 'ondisk': [], 'error': None}
    try:
        # uncached reference per step: fresh process, private lib_dir, force
        for si, v in enumerate(vectors):
            r = runner.forked(_child_inline, [v], os.path.join(hdir, 'ref%d' % si, 'lib'), os.path.join(hdir, 'inc'), True,
                              timeout=900)
            out['ref'].append(r.value[0] if r.kind == 'ok' else ('harness', r.kind, str(r.value)[-800:] + r.output[-800:]))
        # (i) one process, all calls
        os.makedirs(os.path.join(hdir, 'p1'))
        r = runner.forked(_child_inline, vectors, os.path.join(hdir, 'p1', 'lib'), os.path.join(hdir, 'inc'), False, timeout=900)
        out['inproc'] = r.value if r.kind == 'ok' else [('harness', r.kind, str(r.value)[-800:] + r.output[-800:])]
        # (ii) fresh process per call, shared lib_dir
        os.makedirs(os.path.join(hdir, 'p2'))
        for v in vectors:
            r = runner.forked(_child_inline, [v], os.path.join(hdir, 'p2', 'lib'), os.path.join(hdir, 'inc'), False, timeout=900)
            out['ondisk'].append(r.value[0] if r.kind == 'ok' else ('harness', r.kind, str(r.value)[-800:] + r.output[-800:]))
    finally:
        shutil.rmtree(hdir, ignore_errors=True)
    return out


# ------------------------------------------------------------------------------------------- driver
def _warm(ctx):
    wd = ctx.workdir('warm')
    farm.build('warm0', 'cimport cython\ncdef int f(int x):\n    return x\ndef g(x):\n    return f(x)\n',
               wd, cc=False)
    import Cython.Build.Dependencies as D
    import Cython.Build.Cache, Cython.Build.Inline
    import concurrent.futures.process  # noqa
    from distutils.extension import Extension  # noqa
    from Cython import Utils
    Utils.clear_function_caches()
    assert D._dep_tree is None


def _vec_key(v):
    return hashlib.sha1(json.dumps(v, sort_keys=True).encode()).hexdigest()[:10]


def _histories(tier):
    comps = components(tier)
    base = base_vector()
    hists = []
    for c in comps:
        b = apply_comp(base, c)
        mods = ['a.pyx']
        if c[0] == 'ext' or (c[0], c[1]) in (('directive', 'cdivision'), ('option', 'language_level'), ('option', 'generate_pxi')):
            mods = ['a.pyx', 'p.pyx']
        if c[0] == 'file' and c[1] == 'p.pyx':
            mods = ['p.pyx']
        if c[0] == 'file' and c[1] == 'd.pxi':
            mods = ['i.pyx']
        if c[0] == 'file' and (c[1] in NAME_DEPS or c[1] == 'cython_inc.pxi'):
            mods = ['n.pyx']
        hists.append({'shape': 'ABA', 'comps': [c[:3]], 'vectors': [base, b, base], 'modules': mods})
    if tier == 'thorough':
        # fixed subsets (the full pair product does not fit the tier budget): 3 structural components -> 6 ordered
        # pairs; 1 directive x 2 anchors x both orders -> 4; 10 four-step histories in all
        PAIR_SET = (('file', 'a.pyx', 'code'), ('file', 'b.pxd', 'enum'), ('option', 'language_level', '2'))
        DIRECTIVE_SET = (('directive', 'cdivision', 'True'),)
        structural = [c for c in comps if c[:3] in PAIR_SET]
        anchors = [c for c in comps if c[:3] in PAIR_SET[:2]]
        pairs = [(c1, c2) for c1 in structural for c2 in structural if c1[:3] != c2[:3]]
        for d in [c for c in comps if c[:3] in DIRECTIVE_SET]:
            for a in anchors:
                pairs.append((d, a))
                pairs.append((a, d))
        for c1, c2 in pairs:
            b1 = apply_comp(base, c1)
            b12 = apply_comp(b1, c2)
            b2 = apply_comp(base, c2)
            # A -> B1 -> B1B2 -> B2 (drop the first change again): every step changes one component
            hists.append({'shape': 'A/B1/B1B2/B2', 'comps': [c1[:3], c2[:3]], 'vectors': [base, b1, b12, b2],
                          'modules': (['a.pyx', 'p.pyx'] if 'ext' in (c1[0], c2[0]) or 'p.pyx' in (c1[1], c2[1]) else ['a.pyx'])
                          + (['i.pyx'] if 'd.pxi' in (c1[1], c2[1]) and not {'profile', 'linetrace'} & {c1[1], c2[1]} else [])
                          + (['n.pyx'] if any(c[0] == 'file' and (c[1] in NAME_DEPS or c[1] == 'cython_inc.pxi') for c in (c1, c2)) else [])})
    return hists


def _classify(step, si):
    if step['status'] == 'cached-build-failed':
        return 'cached-build-failed'
    if step.get('hits') and step.get('equals_earlier_step'):
        return 'stale-hit'
    if step.get('hits'):
        return 'wrong-hit'
    return 'mismatch-without-hit'


def run(ctx):
    only = os.environ.get('C48_PARTS')     # debugging aid only (evidence then says exhaustive: false)
    parts = set(only.split(',')) if only else {'cythonize', 'inline'}
    _warm(ctx)
    from Cython.Compiler import Main
    uncovered = sorted(k for k in Main.default_options if k not in OPTION_ALTS and k not in OPTION_SKIP)
    if uncovered:
        ctx.log('WARN: CompilationOptions members without an alternative value in OPTION_ALTS: %r' % uncovered)
    hists = _histories(ctx.tier) if 'cythonize' in parts else []
    flt = os.environ.get('C48_COMPS')      # debugging aid only (evidence then says exhaustive: false)
    if flt:
        only = only or 'filtered'
        hists = [h for h in hists if any(f in '%s:%s=%s' % c for c in h['comps'] for f in flt.split(','))]
        if os.environ.get('C48_MAXH'):
            hists = hists[-int(os.environ['C48_MAXH']):]
    wd = ctx.workdir('hist')
    order = list(range(len(hists)))
    if ctx.seed and order:
        k = ctx.seed % len(order)
        order = order[k:] + order[:k]
    # uncached reference of every distinct (vector, module list); vectors whose output embeds absolute paths are
    # referenced in place inside the history
    refroot = ctx.workdir('ref')
    refjobs = {}
    for h in hists:
        h['refkeys'] = []
        for v in h['vectors']:
            if v['options'].get('relative_path_in_code_position_comments', True) is False or v['options'].get('gdb_debug'):
                h['refkeys'].append(None)
                continue
            k = _vec_key([v, h['modules']])
            h['refkeys'].append(k)
            refjobs.setdefault(k, (k, v, h['modules'], refroot))
    rres = farm.pmap(ref_job, list(refjobs.values()))
    refdir = {}
    for k, od, info in rres:
        refdir[k] = od if od else 'rejected'
    # path independence of the uncached output (justifies sharing references between directories)
    if hists:
        k2, od2, info2 = ref_job(('pathaudit', hists[0]['vectors'][0], hists[0]['modules'], os.path.join(refroot, 'elsewhere', 'deeper')))
        k1 = hists[0]['refkeys'][0]
        if od2 is None or refdir.get(k1) in (None, 'rejected') or _read_dir(od2) != _read_dir(refdir[k1]):
            ctx.violation('cythonize|harness|uncached-output-depends-on-directory', 'uncached output of the base vector differs '
                          'between two directories (or failed): %r' % (info2,), {'part': 'cythonize', 'vectors': hists[0]['vectors'][:1],
                                                                                 'modules': hists[0]['modules'], 'label': 'base'})
    ctx.log('%d reference compilations (%d rejected)' % (len(rres), sum(1 for v in refdir.values() if v == 'rejected')))
    # a component whose change leaves the uncached output unchanged can hit or miss freely: its history cannot violate
    # the property and is not executed (it is counted in components_without_effect_on_probe)
    refdig = {k: info for k, od, info in rres if od}
    prescreened = []
    runnable = []
    for i in order:
        ks = hists[i]['refkeys']
        if all(k and k in refdig for k in ks) and len({json.dumps(refdig[k], sort_keys=True) for k in ks}) == 1:
            prescreened.append('/'.join('%s:%s=%s' % c for c in hists[i]['comps']))
        else:
            runnable.append(i)
    order = runnable
    res = farm.pmap(run_history, [(i, hists[i]['vectors'], hists[i]['modules'], wd,
                                   [refdir[k] if k else None for k in hists[i]['refkeys']]) for i in order])
    states = set()
    transitions = 0
    rejected = []
    no_effect = list(prescreened)
    effective = []
    hits_total = 0
    dir_dependent = []
    nondeterministic = []
    outcome_kinds = set()
    for i, r in zip(order, res):
        h = hists[i]
        label = '/'.join('%s:%s=%s' % c for c in h['comps'])
        present = set()
        for si, st in enumerate(r['steps']):
            transitions += 1
            vk = _vec_key(h['vectors'][si])
            present.add(vk)
            states.add((vk, tuple(sorted(present))))
            outcome_kinds.add((st['status'], bool(st.get('hits'))))
            if st['status'] == 'rejected':
                rejected.append(label)
                break
            hits_total += len(st.get('hits') or ())
            if st.get('dir_dependent') == 'nondeterministic':
                nondeterministic.append(label)
            elif st.get('dir_dependent'):
                dir_dependent.append(label)
            if st['status'] != 'ok':
                c = ('base', '', '') if not si else h['comps'][0] if si in (1, 3) or len(h['comps']) == 1 else h['comps'][1]
                cls = _classify(st, si)
                comp_kind = c[0] if c[0] == 'directive' else '%s:%s' % (c[0], c[1])
                ext = os.path.splitext(st.get('file') or '')[1] or '-'
                key = 'cythonize|component=%s|%s|step=%d/%s|artifact=%s' % (
                    'compiler_directives' if c[0] == 'directive' else comp_kind, cls, si + 1, h['shape'], ext)
                ctx.violation(key, '%s step %d (hits %r): %s' % (label, si + 1, st.get('hits'), st.get('diff') or st.get('error')),
                              {'part': 'cythonize', 'vectors': h['vectors'][:si + 1], 'modules': h['modules'], 'label': label})
        if r['effect'] is False:
            no_effect.append(label)
        elif r['effect']:
            effective.append(label)
    if nondeterministic:
        ctx.log('WARN: uncached compilation of the same vector in the same directory is not deterministic for %r - '
                'attributed to C42 (deterministic compilation), not counted as a cache violation' % sorted(set(nondeterministic)))
    ctx.log('cythonize cache: %d histories, %d steps, %d cache hits, %d components change the output, %d do not, %d rejected'
            % (len(hists), transitions, hits_total, len(effective), len(no_effect), len(rejected)))

    # ---- inline
    istats = {'histories': 0, 'calls': 0, 'distinct_values': 0}
    if 'inline' in parts:
        icomps = inline_components()
        ihists = []
        for c in icomps:
            a = inline_base_for(c)
            b = copy.deepcopy(a)
            c[2](b)
            ihists.append((c[:2], [a, b, a]))
        iwd = ctx.workdir('inline')
        ires = farm.pmap(run_inline_history, [(i, list(h[0]), h[1], iwd) for i, h in enumerate(ihists)])
        vals = set()
        for (ck, vectors), r in zip(ihists, ires):
            istats['histories'] += 1
            if any(x[0] == 'harness' for x in r['ref']):
                ctx.violation('inline|harness|reference-failed', repr(r['ref'])[:600], {'part': 'inline', 'comp': list(ck), 'vectors': vectors})
                continue
            comp_name = ck[0] if ck[0] != 'directive' else 'cython_compiler_directives'
            for path, got in (('in-process', r['inproc']), ('on-disk', r['ondisk'])):
                for si, (g, want) in enumerate(zip(got, r['ref'])):
                    istats['calls'] += 1
                    transitions += 1
                    states.add(('inline', path, ck, si))
                    vals.add(tuple(g))
                    if tuple(g[:2] if g[0] == 'exc' else g) != tuple(want[:2] if want[0] == 'exc' else want):
                        stale = si > 0 and tuple(g) in [tuple(x) for x in r['ref'][:si]]
                        ctx.violation('inline|component=%s|%s|%s' % (comp_name, 'stale-hit' if stale else 'mismatch', path),
                                      '%s:%s call %d via %s cache returned %r, uncached compilation returns %r'
                                      % (ck[0], ck[1], si + 1, path, g, want),
                                      {'part': 'inline', 'comp': list(ck), 'vectors': vectors, 'path': path, 'step': si})
                        break
        istats['distinct_values'] = len(vals)
        ctx.log('inline: %r' % istats)

    samples = []
    for h in hists[:1] + hists[len(hists) // 2: len(hists) // 2 + 1]:
        samples.append({'history': h['shape'], 'changed': [list(c) for c in h['comps']], 'modules': h['modules'],
                        'options_per_step': [v['options'] for v in h['vectors']]})
    samples.append({'inline_history': 'A -> B -> A', 'A': INLINE_BASE, 'B': 'directives={"cdivision": True}', 'probe': 'a=-7, b=2'})
    cov = {
        'states': len(states), 'transitions': transitions, 'traces_validated_against_impl': len(order) + istats['histories'] * 2,
        'histories': len(hists), 'histories_executed': len(order), 'cache_hits_observed': hits_total,
        'components': len(hists) if ctx.quick else None,
        'components_changing_output': len(set(effective)), 'components_without_effect_on_probe': sorted(set(no_effect)),
        'components_rejected_by_compiler': sorted(set(rejected)),
        'uncached_output_depends_on_directory': sorted(set(dir_dependent)),
        'uncached_output_nondeterministic': sorted(set(nondeterministic)),
        'uncovered_options': uncovered, 'skipped_options': OPTION_SKIP,
        'distinct_outcomes': sorted('%s/hit=%s' % o for o in outcome_kinds),
        'inline': istats, 'samples': samples, 'exhaustive': not only,
    }
    return cov, ['uncached cythonize(cache=False) in the same directory is the reference for every vector',
                 'a forked child of a warmed parent with cleared function caches stands for a fresh process',
                 'gcc -O0 builds of cython.inline modules behave like the default optimisation level for the probe values']


def replay(ctx, case):
    _warm(ctx)
    if case.get('part') == 'cythonize':
        wd = ctx.workdir('replay')
        shutil.rmtree(os.path.join(wd, 'h0'), ignore_errors=True)
        r = run_history((0, case['vectors'], case['modules'], wd, None))
        for si, st in enumerate(r['steps']):
            if st['status'] not in ('ok', 'rejected'):
                return '%s step %d (hits %r): %s' % (case.get('label'), si + 1, st.get('hits'), st.get('diff') or st.get('error'))
        return False
    if case.get('part') == 'inline':
        wd = ctx.workdir('replay-inline')
        shutil.rmtree(os.path.join(wd, 'i0'), ignore_errors=True)
        r = run_inline_history((0, case['comp'], case['vectors'], wd))
        for path, got in (('in-process', r['inproc']), ('on-disk', r['ondisk'])):
            for si, (g, want) in enumerate(zip(got, r['ref'])):
                if tuple(g[:2] if g[0] == 'exc' else g) != tuple(want[:2] if want[0] == 'exc' else want):
                    return 'call %d via %s cache returned %r, uncached compilation returns %r' % (si + 1, path, g, want)
        return False
    return 'unknown case'
