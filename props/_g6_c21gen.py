"""Program generator for C21: all function bodies of a small statement grammar over the variables x, y.

A program is a tuple of statements; a statement is an atom ('A',) or a compound (form, body, body, ...)
whose bodies are tuples of statements (the empty tuple renders as `pass`).  Size = number of nodes
(atoms + compounds).  Every branch decision reads its own digit d[i] of the input tuple; `radix` lists the
digit ranges so that the caller can enumerate ALL input vectors.
"""

# atoms -------------------------------------------------------------------------------------------
#  A  x = 1; V(k)               assignment of a literal (lets type inference pick a C type when it dares), logged
#  AV x = V(k, 1)               assignment of a call result (always an object)
#  X  x; V(k)                   bare expression statement reading x
#  D  del x; V(k)               deletion (logged after success)
#  R  V(k, x)                   read
#  Y  y = V(k, x)               read of x feeding an assignment of y (y is probed in the epilogue)
#  C  RZ(k, d[i])               conditional raise of ValueError (explicit atom; besides, the body of every try
#                               statement and of the suppressing `with` is interleaved with such conditional raises
#                               at EVERY position for free, so every exception edge out of a try body is exercised)
#  B  if d[i]: break            (loop bodies only)
#  K  if d[i]: continue         (loop bodies only)
#  T  if d[i]: return V(k)      conditional return (through finally blocks)
#  F  def g(): return x / V(k, g())   closure read
# compounds: if, if/else, while[/else] (0..2 iterations), for x in range / sequence [/else], try/except [as x],
#  try/finally, try/except/else/finally, with (plain, suppressing, as x), match: mt (literal / wildcard), mtx (literal /
#  capture x), ms (sequence pattern / wildcard), mc (literal / class pattern)
#  M  V(k, (lambda: x)())       lambda read
#  Q  V(k, [x for _ in (0,)])   comprehension read
ATOMS_CORE = ('A', 'D', 'R', 'Y')
ATOMS_LOOP = ('B', 'K')
ATOMS_EXTRA = ('AV', 'X', 'C', 'T', 'F', 'M', 'Q')

# compound forms: name -> (number of body slots, loop slots (indices whose body is a loop body))
FORMS = {
    'if': (1, ()), 'ife': (2, ()),
    'wh': (1, (0,)), 'whe': (2, (0,)),
    'forx': (1, (0,)), 'forxe': (2, (0,)), 'forl': (1, (0,)),
    'te': (2, ()), 'tf': (2, ()), 'tfp': (2, ()), 'tex': (2, ()), 'teef': (4, ()),
    'wn': (1, ()), 'ws': (1, ()), 'wx': (1, ()),
    'mt': (2, ()), 'mtx': (2, ()), 'ms': (2, ()), 'mc': (2, ()),
}
FORM_ORDER = ('if', 'ife', 'wh', 'whe', 'forx', 'forxe', 'forl', 'te', 'tf', 'tex', 'teef', 'wn', 'ws', 'wx', 'mt', 'mtx', 'ms', 'mc')


def _stmts(depth, budget, in_loop, atoms, forms, inner_len):
    """Yield (stmt, size) for every statement of nesting <= depth and size <= budget."""
    if budget < 1:
        return
    for a in atoms:
        yield (a,), 1
    if in_loop:
        for a in ATOMS_LOOP:
            yield (a,), 1
    if depth < 1 or budget < 2:
        return
    for f in forms:
        nslots, loops = FORMS[f]
        for bodies, used in _slots(nslots, 0, loops, depth - 1, budget - 1, in_loop, atoms, forms, inner_len):
            if used:            # at least one non-empty body
                yield (f,) + bodies, used + 1


def _slots(nslots, idx, loops, depth, budget, in_loop, atoms, forms, inner_len):
    if idx == nslots:
        yield (), 0
        return
    loop_here = in_loop or idx in loops
    # empty body
    for rest, u2 in _slots(nslots, idx + 1, loops, depth, budget, in_loop, atoms, forms, inner_len):
        yield ((),) + rest, u2
    for body, u in _seqs(depth, budget, inner_len, loop_here, atoms, forms, inner_len):
        for rest, u2 in _slots(nslots, idx + 1, loops, depth, budget - u, in_loop, atoms, forms, inner_len):
            yield (body,) + rest, u + u2


def _seqs(depth, budget, maxlen, in_loop, atoms, forms, inner_len):
    """Non-empty statement sequences of length <= maxlen and total size <= budget."""
    if maxlen < 1 or budget < 1:
        return
    for s, u in _stmts(depth, budget, in_loop, atoms, forms, inner_len):
        yield (s,), u
        for rest, u2 in _seqs(depth, budget - u, maxlen - 1, in_loop, atoms, forms, inner_len):
            yield (s,) + rest, u + u2


def _walk(prog):
    for s in prog:
        yield s
        for b in s[1:]:
            yield from _walk(b)


BINDERS = {'A', 'AV', 'forx', 'forxe', 'forl', 'tex', 'wx', 'mtx'}
DIGIT_USERS = {'C': 2, 'B': 2, 'K': 2, 'T': 2, 'if': 2, 'ife': 2, 'wh': 3, 'whe': 3, 'forx': 3, 'forxe': 3, 'forl': 3,
               'mt': 2, 'mtx': 2}


def admissible(prog, init, max_digits):
    kinds = [s[0] for s in _walk(prog)]
    ks = set(kinds)
    if not init and not (ks & BINDERS):
        return False                      # x would be a global name: nothing about locals is exercised
    if ('F' in ks or 'M' in ks) and ('D' in ks or 'tex' in ks):
        return False    # Cython rejects `del` (also the implicit one of `except .. as x`) of a variable referenced in a nested scope (by design)
    r = _R()
    r.body(1, prog, 'top')
    if len(r.radix) > max_digits:
        return False
    return True


def programs(size, top_len=3, inner_len=2, depth=2, atoms=ATOMS_CORE + ATOMS_EXTRA, forms=FORM_ORDER, max_digits=6):
    """All admissible (init, program) pairs: init in (False, True) = `x = 1` prologue present."""
    out = []
    for prog, used in _seqs(depth, size, top_len, False, atoms, forms, inner_len):
        for init in (False, True):
            if admissible(prog, init, max_digits):
                out.append((init, prog))
    return out


# ------------------------------------------------------------------------------------------------- rendering
class _R:
    def __init__(self):
        self.lines = []
        self.site = 0
        self.radix = []
        self.sites = {}     # line number (1-based within function) -> site id
        self.paths = {}     # site id -> 'form.slot/form.slot/kind'
        self.path = []

    def k(self, kind):
        self.site += 1
        self.paths[self.site] = '/'.join(self.path + [kind])
        return self.site

    def digit(self, r):
        self.radix.append(r)
        return 'd[%d]' % (len(self.radix) - 1)

    def emit(self, ind, text, site=None):
        self.lines.append('    ' * ind + text)
        if site is not None:
            self.sites[len(self.lines)] = site

    def body(self, ind, stmts, slot):
        self.path.append(slot)
        if not stmts:
            self.emit(ind, 'pass')
        for s in stmts:
            self.stmt(ind, s)
        self.path.pop()

    def trybody(self, ind, stmts, slot):
        """Body of a try / suppressing with: a conditional raise before every statement and at the end."""
        self.path.append(slot)
        for s in stmts:
            k = self.k('raise'); self.emit(ind, 'RZ(%d, %s)' % (k, self.digit(2)), k)
            self.stmt(ind, s)
        k = self.k('raise'); self.emit(ind, 'RZ(%d, %s)' % (k, self.digit(2)), k)
        self.path.pop()

    def stmt(self, ind, s):
        f = s[0]
        e = self.emit
        if f == 'A':
            k = self.k(f); e(ind, 'x = 1; V(%d)' % k, k)
        elif f == 'AV':
            k = self.k(f); e(ind, 'x = V(%d, 1)' % k, k)
        elif f == 'X':
            k = self.k(f); e(ind, 'x; V(%d)' % k, k)
        elif f == 'D':
            k = self.k(f); e(ind, 'del x; V(%d)' % k, k)
        elif f == 'R':
            k = self.k(f); e(ind, 'V(%d, x)' % k, k)
        elif f == 'Y':
            k = self.k(f); e(ind, 'y = V(%d, x)' % k, k)
        elif f == 'C':
            k = self.k(f); e(ind, 'RZ(%d, %s)' % (k, self.digit(2)), k)
        elif f == 'B':
            e(ind, 'if %s: break' % self.digit(2))
        elif f == 'K':
            e(ind, 'if %s: continue' % self.digit(2))
        elif f == 'T':
            k = self.k(f); e(ind, 'if %s: return V(%d)' % (self.digit(2), k), k)
        elif f == 'F':
            k = self.k(f)
            e(ind, 'def g%d(): return x' % k)
            e(ind, 'V(%d, g%d())' % (k, k), k)
        elif f == 'M':
            k = self.k(f); e(ind, 'V(%d, (lambda: x)())' % k, k)
        elif f == 'Q':
            k = self.k(f); e(ind, 'V(%d, [x for _ in (0,)])' % k, k)
        elif f in ('if', 'ife'):
            e(ind, 'if %s:' % self.digit(2)); self.body(ind + 1, s[1], f + '.0')
            if f == 'ife':
                e(ind, 'else:'); self.body(ind + 1, s[2], f + '.1')
        elif f in ('wh', 'whe'):
            k = self.k(f)
            e(ind, 'n%d = %s' % (k, self.digit(3)))
            e(ind, 'while n%d:' % k)
            e(ind + 1, 'n%d -= 1' % k)
            self.body(ind + 1, s[1], f + '.0')
            if f == 'whe':
                e(ind, 'else:'); self.body(ind + 1, s[2], f + '.1')
        elif f in ('forx', 'forxe'):
            k = self.k(f)
            e(ind, 'for x in range(%s):' % self.digit(3), k); self.body(ind + 1, s[1], f + '.0')
            if f == 'forxe':
                e(ind, 'else:'); self.body(ind + 1, s[2], f + '.1')
        elif f == 'forl':
            k = self.k(f)
            e(ind, 'for x in (1, 1)[:%s]:' % self.digit(3), k); self.body(ind + 1, s[1], f + '.0')
        elif f in ('te', 'tex'):
            e(ind, 'try:'); self.trybody(ind + 1, s[1], f + '.0')
            e(ind, 'except Exception as x:' if f == 'tex' else 'except Exception:'); self.body(ind + 1, s[2], f + '.1')
        elif f == 'tf':
            e(ind, 'try:'); self.trybody(ind + 1, s[1], f + '.0')
            e(ind, 'finally:'); self.body(ind + 1, s[2], f + '.1')
        elif f == 'tfp':    # plain try/finally: NO interleaved conditional raises (used by the nested-finally family,
            #                 whose subject is the break/continue path; keeps its input space small)
            e(ind, 'try:'); self.body(ind + 1, s[1], f + '.0')
            e(ind, 'finally:'); self.body(ind + 1, s[2], f + '.1')
        elif f == 'teef':
            e(ind, 'try:'); self.trybody(ind + 1, s[1], f + '.0')
            e(ind, 'except Exception:'); self.body(ind + 1, s[2], f + '.1')
            e(ind, 'else:'); self.body(ind + 1, s[3], f + '.2')
            e(ind, 'finally:'); self.body(ind + 1, s[4], f + '.3')
        elif f in ('wn', 'ws', 'wx'):
            k = self.k(f)
            cm = {'wn': 'NS(%d)', 'ws': 'SUP(%d)', 'wx': 'NS(%d) as x'}[f] % k
            e(ind, 'with %s:' % cm)
            if f == 'ws':
                self.trybody(ind + 1, s[1], f + '.0')
            else:
                self.body(ind + 1, s[1], f + '.0')
        elif f in ('mt', 'mtx'):
            e(ind, 'match %s:' % self.digit(2))
            e(ind + 1, 'case 0:'); self.body(ind + 2, s[1], f + '.0')
            e(ind + 1, 'case x:' if f == 'mtx' else 'case _:'); self.body(ind + 2, s[2], f + '.1')
        elif f == 'ms':     # structural pattern first, then a case the compiler rewrites into a plain `if`
            e(ind, 'match (%s,):' % self.digit(2))
            e(ind + 1, 'case (0,):'); self.body(ind + 2, s[1], f + '.0')
            e(ind + 1, 'case _:'); self.body(ind + 2, s[2], f + '.1')
        elif f == 'mc':     # rewritten literal case first, then a structural (class) pattern
            e(ind, 'match %s:' % self.digit(2))
            e(ind + 1, 'case 0:'); self.body(ind + 2, s[1], f + '.0')
            e(ind + 1, 'case int():'); self.body(ind + 2, s[2], f + '.1')
        else:
            raise ValueError(f)


def render(name, init, prog):
    """Returns (source text, radix tuple, {relative line -> site}, {site -> path})."""
    r = _R()
    r.emit(0, 'def %s(d):' % name)
    if init:
        r.emit(1, 'x = 1')
    r.body(1, prog, 'top')
    r.path = []
    # epilogue: probe the final state of x (and y) without ending the function
    r.emit(1, 'try: x; V("bx")', 'bx')
    r.emit(1, 'except NameError: V("nx")')
    r.emit(1, 'try: V("fx", x)', 'fx')
    r.emit(1, 'except NameError: V("ux")')
    has_y = any(s[0] == 'Y' for s in _walk(prog))
    if has_y:
        r.emit(1, 'try: V("fy", y)', 'fy')
        r.emit(1, 'except NameError: V("uy")')
    r.paths.update({'bx': 'epilogue-bare-x', 'nx': 'epilogue-bare-x', 'fx': 'epilogue-x', 'ux': 'epilogue-x', 'fy': 'epilogue-y', 'uy': 'epilogue-y'})
    return '\n'.join(r.lines) + '\n', tuple(r.radix), r.sites, r.paths


def tag(init, prog):
    def t(s):
        if len(s) == 1:
            return s[0]
        return s[0] + '(' + '|'.join(','.join(t(c) for c in b) for b in s[1:]) + ')'
    return ('x1;' if init else '') + ';'.join(t(s) for s in prog)


def shape(prog):
    """Reduced key: multiset-free structure = the tag with atoms kept (programs are already tiny)."""
    return tag(False, prog)


if __name__ == '__main__':
    import sys
    for size in (2, 3, 4):
        for il in (1, 2):
            ps = programs(size, inner_len=il)
            print(size, il, len(ps))
    ps = programs(3)
    for init, p in ps[::997]:
        print(tag(init, p)); print(render('f', init, p)[0])
