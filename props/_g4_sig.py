"""Run-time helpers for C25: symbolic operands, function description, embedded-signature parsing, AST normalisation."""
import ast, inspect
from vlib.diff import canon


class Sym:
    """Operand whose every operation builds a structural record, so that default VALUES reveal expression structure."""
    __slots__ = ('s',)

    def __init__(self, s):
        self.s = s

    def __repr__(self):
        return self.s

    def __hash__(self):
        return hash(self.s)

    def __bool__(self):
        return True

    def __call__(self, *a, **k):
        return Sym('call(%s;%s;%s)' % (self.s, ','.join(map(repr, a)), ','.join('%s=%r' % kv for kv in sorted(k.items()))))

    def __getitem__(self, i):
        return Sym('idx(%s,%r)' % (self.s, i))

    def __getattr__(self, n):
        if n.startswith('__'):
            raise AttributeError(n)
        return Sym('attr(%s,%s)' % (self.s, n))

    def __contains__(self, x):
        return True

    def __iter__(self):
        return iter((Sym('it0(%s)' % self.s), Sym('it1(%s)' % self.s)))

    def keys(self):
        return ['k']


def _bin(name):
    def f(self, o):
        return Sym('%s(%r,%r)' % (name, self, o))

    def r(self, o):
        return Sym('%s(%r,%r)' % (name, o, self))
    return f, r


for _n in ('add', 'sub', 'mul', 'truediv', 'floordiv', 'mod', 'matmul', 'pow', 'lshift', 'rshift', 'and', 'or', 'xor'):
    _f, _r = _bin(_n)
    setattr(Sym, '__%s__' % _n, _f)
    setattr(Sym, '__r%s__' % _n, _r)
for _n in ('lt', 'le', 'gt', 'ge', 'eq', 'ne'):
    setattr(Sym, '__%s__' % _n, _bin(_n)[0])
for _n in ('neg', 'pos', 'invert'):
    setattr(Sym, '__%s__' % _n, (lambda nm: lambda self: Sym('%s(%r)' % (nm, self)))(_n))


def dcanon(v, depth=0):
    """canon() that is stable for functions/lambdas/classes (no addresses)"""
    if depth < 6 and type(v) in (tuple, list):
        return (type(v).__name__, tuple(dcanon(x, depth + 1) for x in v))
    if depth < 6 and type(v) is dict:
        return ('dict', tuple((dcanon(k, depth + 1), dcanon(x, depth + 1)) for k, x in v.items()))
    if depth < 6 and type(v) in (set, frozenset):
        return (type(v).__name__, tuple(sorted((dcanon(x, depth + 1) for x in v), key=repr)))
    if isinstance(v, type):
        return ('class', v.__name__)
    if callable(v) and not isinstance(v, Sym):
        name = getattr(v, '__name__', '?').strip('<>')
        if name.startswith('lambda') and name[6:].isdigit() or name == 'lambda':
            name = 'lambda'             # Cython names lambdas 'lambda', 'lambda1', ... (CPython: '<lambda>')
        return ('callable', name)
    return canon(v)


def describe(f, modnames=()):
    """JSON/pickle friendly description of a function object's public identity."""
    d = {}
    for a in ('__name__', '__qualname__', '__module__', '__doc__'):
        try:
            d[a] = getattr(f, a)
        except Exception as e:
            d[a] = '<%s>' % type(e).__name__
    if d['__module__'] in modnames:
        d['__module__'] = 'M'
    try:
        sig = inspect.signature(f)
        d['params'] = [(p.name, p.kind.name, None if p.default is p.empty else dcanon(p.default)) for p in sig.parameters.values()]
    except Exception as e:
        d['params'] = ('exc', type(e).__name__, str(e)[:100])
    for a in ('__defaults__', '__kwdefaults__'):
        try:
            d[a] = dcanon(getattr(f, a))
        except Exception as e:
            d[a] = ('exc', type(e).__name__)
    return d


# ------------------------------------------------------------------------------------------------ AST normalisation
class _Norm(ast.NodeTransformer):
    def visit_BoolOp(self, node):
        self.generic_visit(node)
        vals = []
        for v in node.values:
            if isinstance(v, ast.BoolOp) and type(v.op) is type(node.op):
                vals.extend(v.values)       # (a and b) and c == a and (b and c): same evaluation, same result
            else:
                vals.append(v)
        node.values = vals
        return node


def norm_dump(node_or_text):
    if isinstance(node_or_text, str):
        node = ast.parse(node_or_text.strip(), mode='eval').body
    else:
        node = node_or_text
    node = _Norm().visit(node)
    return ast.dump(node, annotate_fields=False, include_attributes=False)


def has_names(text):
    return any(isinstance(n, (ast.Name, ast.Lambda)) for n in ast.walk(ast.parse(text.strip(), mode='eval')))


def parse_sigline(line, strip_class=True):
    """'K.f(self, a, b=1, *, c=(1,)) -> x'  ->  list of (name, kind, default ast node or None)"""
    head = line.split('(', 1)[0]
    if strip_class and '.' in head:
        line = line[len(head) - len(head.split('.')[-1]):]
    mod = ast.parse('def ' + line.strip() + ': pass')
    a = mod.body[0].args
    out = []
    pos = a.posonlyargs + a.args
    dflt = [None] * (len(pos) - len(a.defaults)) + list(a.defaults)
    for i, (p, d) in enumerate(zip(pos, dflt)):
        out.append((p.arg, 'POSITIONAL_ONLY' if i < len(a.posonlyargs) else 'POSITIONAL_OR_KEYWORD', d))
    if a.vararg:
        out.append((a.vararg.arg, 'VAR_POSITIONAL', None))
    for p, d in zip(a.kwonlyargs, a.kw_defaults):
        out.append((p.arg, 'KEYWORD_ONLY', d))
    if a.kwarg:
        out.append((a.kwarg.arg, 'VAR_KEYWORD', None))
    return mod.body[0].name, out


def check_default_text(orig_text, emb_node, namespace):
    """-> None if the embedded default denotes the original one, 'placeholder' for the documented '...' stand-in,
    else a short description."""
    if '...' not in orig_text and any(isinstance(n, ast.Constant) and n.value is Ellipsis for n in ast.walk(emb_node)):
        return 'placeholder'        # documented stand-in for nodes the writer does not know (lambda, starred, ...)
    try:
        same = norm_dump(orig_text) == norm_dump(emb_node)
    except Exception as e:
        return 'unparsable original? %s' % e
    if same:
        return None
    if not has_names(orig_text):
        # literal-only expressions may be printed constant-folded: compare by value
        try:
            v1 = eval(compile(ast.Expression(ast.parse(orig_text.strip(), mode='eval').body), '<o>', 'eval'), dict(namespace))
            v2 = eval(compile(ast.fix_missing_locations(ast.Expression(emb_node)), '<e>', 'eval'), dict(namespace))
            if dcanon(v1) == dcanon(v2):
                return None
            return 'value %r != %r' % (dcanon(v2), dcanon(v1))
        except Exception as e:
            return 'cannot evaluate embedded text: %s: %s' % (type(e).__name__, e)
    return 'structure differs: embedded %r' % ast.unparse(emb_node)


# ------------------------------------------------------------------------------------------------ root-cause classes for keys
_PREC = {ast.Or: 1, ast.And: 2, ast.BitOr: 5, ast.BitXor: 6, ast.BitAnd: 7, ast.LShift: 8, ast.RShift: 8, ast.Add: 9, ast.Sub: 9,
         ast.Mult: 10, ast.MatMult: 10, ast.Div: 10, ast.FloorDiv: 10, ast.Mod: 10, ast.Pow: 12}


def root_class(text):
    """Syntactic feature of an expression that a printer most plausibly got wrong, in priority order; used only to group
    violation keys (one printer defect -> one key), never to decide whether something is a violation."""
    try:
        tree = ast.parse(text.strip(), mode='eval').body
    except SyntaxError:
        return 'unparsable-original'
    nodes = list(ast.walk(tree))
    operators = (ast.BinOp, ast.BoolOp, ast.UnaryOp, ast.Compare, ast.IfExp, ast.Lambda)
    for n in nodes:
        if isinstance(n, ast.Tuple) and len(n.elts) == 1:
            return 'one-tuple'
    for n in nodes:
        if isinstance(n, ast.BinOp) and isinstance(n.op, ast.Mult) and (isinstance(n.left, (ast.List, ast.Tuple)) or
                                                                      isinstance(n.right, (ast.List, ast.Tuple))):
            return 'sequence-multiplication'
    for n in nodes:
        if isinstance(n, ast.Compare) and (len(n.ops) > 1 or isinstance(n.left, ast.Compare) or
                                           any(isinstance(c, ast.Compare) for c in n.comparators)):
            return 'comparison-chain'
    for n in nodes:
        for field, child in ast.iter_fields(n):
            kids = child if isinstance(child, list) else [child]
            for k in kids:
                if isinstance(k, ast.IfExp) and not (isinstance(n, ast.IfExp) and field == 'orelse') and \
                        isinstance(n, operators + (ast.Attribute, ast.Subscript, ast.Call)) and \
                        not (isinstance(n, ast.Subscript) and field == 'slice') and not (isinstance(n, ast.Call) and field != 'func'):
                    return 'conditional-operand'
    for n in nodes:
        base = n.value if isinstance(n, (ast.Attribute, ast.Subscript)) else n.func if isinstance(n, ast.Call) else None
        if isinstance(base, operators):
            return 'postfix-base'
    for n in nodes:
        if isinstance(n, ast.BinOp):
            p = _PREC[type(n.op)]
            if isinstance(n.op, ast.Pow):
                if isinstance(n.left, ast.BinOp) and isinstance(n.left.op, ast.Pow):
                    return 'same-precedence'
                if isinstance(n.left, ast.UnaryOp) or (isinstance(n.left, ast.Constant) and False):
                    return 'pow-of-unary'
            elif isinstance(n.right, ast.BinOp) and _PREC[type(n.right.op)] == p:
                return 'same-precedence'
    return None
