"""Run-time helpers imported by the compiled test modules of C19/C20 (and their CPython reference runs).

Everything logs into vlib.support.LOG, which the driver compares between the compiled and the
interpreted run.  `__bool__`, `__hash__` and `__index__` deliberately do NOT log (CPython may test the truth of an already
evaluated operand twice, see DESIGN.md C20 calibration) - truth tests only steer control flow.
"""
from vlib.support import LOG


def ev(*what):
    LOG.append(tuple(w if isinstance(w, str) else repr(w) for w in what))


class O:
    """Logging object: every special method logs (name, event, operands) and returns a fresh O or a plain value."""
    def __init__(self, name, truth=True, items=None):
        object.__setattr__(self, '_n', name)
        object.__setattr__(self, '_t', truth)
        object.__setattr__(self, '_items', items)

    def __repr__(self): return 'O(%s)' % (self._n,)
    def __bool__(self): return bool(self._t)
    def __hash__(self):
        return hash(self._n)        # implicit protocol call, not an evaluation of a sub-expression: not logged

    def __eq__(self, o):
        ev(self._n, 'eq', o)
        return O('%s==%s' % (self._n, _nm(o)), self._t) if not isinstance(o, O) or o._n != self._n else True
    def __ne__(self, o):
        ev(self._n, 'ne', o)
        return O('%s!=%s' % (self._n, _nm(o)), self._t)
    def __lt__(self, o):
        ev(self._n, 'lt', o)
        return O('%s<%s' % (self._n, _nm(o)), self._t)
    def __le__(self, o):
        ev(self._n, 'le', o)
        return O('%s<=%s' % (self._n, _nm(o)), self._t)
    def __gt__(self, o):
        ev(self._n, 'gt', o)
        return O('%s>%s' % (self._n, _nm(o)), self._t)
    def __ge__(self, o):
        ev(self._n, 'ge', o)
        return O('%s>=%s' % (self._n, _nm(o)), self._t)
    def __contains__(self, o):
        ev(self._n, 'contains', o)
        return self._t

    def __getattr__(self, a):
        if a.startswith('__') and a.endswith('__'):
            raise AttributeError(a)
        ev(self._n, 'getattr', a)
        return O('%s.%s' % (self._n, a))
    def __setattr__(self, a, v):
        ev(self._n, 'setattr', a, v)
    def __delattr__(self, a):
        ev(self._n, 'delattr', a)
    def __getitem__(self, k):
        ev(self._n, 'getitem', k)
        return O('%s[%s]' % (self._n, _nm(k)))
    def __setitem__(self, k, v):
        ev(self._n, 'setitem', k, v)
    def __delitem__(self, k):
        ev(self._n, 'delitem', k)
    def __call__(self, *a, **k):
        ev(self._n, 'call', a, sorted(k.items(), key=lambda kv: kv[0]))
        return O('%s()' % (self._n,))
    def __iter__(self):
        ev(self._n, 'iter')
        return iter(self._items if self._items is not None else (O(self._n + '.0'), O(self._n + '.1'), O(self._n + '.2')))
    def __enter__(self):
        ev(self._n, 'enter')
        return O(self._n + '.enter')
    def __exit__(self, *a):
        ev(self._n, 'exit', a[0].__name__ if a[0] else None)
        return False
    def __index__(self):
        return 1                    # implicit conversion, not logged (CPython converts slice bounds late, typed code early)
    def __format__(self, spec):
        ev(self._n, 'format', spec)
        return 'fmt(%s)' % self._n
    def __str__(self):
        ev(self._n, 'str')
        return 'str(%s)' % self._n
    def keys(self):
        ev(self._n, 'keys')
        return ['k' + str(self._n)]


def _nm(o):
    if isinstance(o, O):
        return o._n
    r = repr(o)
    if ' at 0x' in r:
        t = type(o).__name__
        return '<function>' if 'function' in t else '<generator>' if 'generator' in t else '<%s>' % t
    return r


def _binop(name):
    def f(self, o):
        ev(self._n, name, o)
        return O('(%s %s %s)' % (self._n, name, _nm(o)))
    return f


for _op in ('add', 'sub', 'mul', 'truediv', 'floordiv', 'mod', 'and', 'or', 'xor', 'lshift', 'rshift', 'matmul', 'pow'):
    setattr(O, '__%s__' % _op, _binop(_op))
    setattr(O, '__r%s__' % _op, _binop('r' + _op))
    setattr(O, '__i%s__' % _op, _binop('i' + _op))
for _op in ('neg', 'pos', 'invert'):
    def _un(self, _n=_op):
        ev(self._n, _n)
        return O('%s(%s)' % (_n, self._n))
    setattr(O, '__%s__' % _op, _un)


def A(i):
    """Leaf: logs its evaluation and returns logging object number i."""
    ev('leaf', i)
    return O(i)


def B(i, t):
    """Leaf with the given truth value."""
    ev('leaf', i)
    return O(i, truth=t)


def V(i, v):
    """Leaf returning a plain value."""
    ev('leaf', i)
    return v


def SEQ(i):
    ev('leaf', i)
    return (O('s%d.0' % i), O('s%d.1' % i))


def MAP(i):
    ev('leaf', i)
    return {'m%d' % i: O('m%d' % i)}


def IT(i, n=3):
    ev('leaf', i)
    return O(i, items=[O('%d.%d' % (i, k)) for k in range(n)])


class E1(Exception):
    pass


def EXC(i):
    ev('leaf', i)
    return E1(i)


def F(i):
    ev('leaf', i)
    def callee(*a, **k):
        ev('callee', [_nm(x) for x in a], sorted((kk, _nm(vv)) for kk, vv in k.items()))
        return O('r%d' % i)
    return callee


class RC:
    """Rich-compare operand for C19: comparisons log and return a configured value or raise."""
    def __init__(self, mode, name='rc'):
        self.mode, self.name = mode, name
    def _r(self, op, o):
        ev(self.name, op, _nm(o) if isinstance(o, O) else (o.name if isinstance(o, RC) else repr(o)))
        if self.mode == 'raise':
            raise ZeroDivisionError(op)
        return {'t': 'yes', 'f': [], 'ni': NotImplemented, 'T': True, 'F': False, 'one': 1, 'zero': 0.0}[self.mode]
    def __eq__(self, o): return self._r('eq', o)
    def __ne__(self, o): return self._r('ne', o)
    def __lt__(self, o): return self._r('lt', o)
    def __le__(self, o): return self._r('le', o)
    def __gt__(self, o): return self._r('gt', o)
    def __ge__(self, o): return self._r('ge', o)
    def __contains__(self, o): return self._r('contains', o)
    def __hash__(self):
        ev(self.name, 'hash')
        return 1
    def __repr__(self): return 'RC(%r)' % (self.mode,)
