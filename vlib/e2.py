"""E2 diffexplore: small-scope differential execution of compiled programs against a reference.

A check builds a list of Mod objects (packed modules of many small functions), each function paired
with a complete finite input set; run_diff() compiles them with the staged compiler, runs every
(function, input) in crash-isolated children against the reference and reports mismatches.

Reference kinds:
  ('exec', None)            the module source itself executed by CPython (pure-Python sources)
  ('exec', other_source)    a different source text executed by CPython (e.g. cdef stripped)
  ('model', 'pkg.mod:fn')   fn(tag, *args) returns the expected value or raises the expected exception
"""
import os, sys, importlib, traceback, hashlib, itertools
from . import farm, runner, support
from .diff import canon, short


class Func:
    __slots__ = ('name', 'tag', 'inputs')

    def __init__(self, name, tag, inputs):
        self.name, self.tag, self.inputs = name, tag, inputs   # inputs: key into Mod.input_sets


class Part:
    """A piece of module source defining one or more functions (unit of bisection)."""
    __slots__ = ('src', 'funcs')

    def __init__(self, src, funcs):
        self.src, self.funcs = src, list(funcs)


class Mod:
    def __init__(self, name, prelude, parts, input_sets, ext='.py', ref=('exec', None), directives=None,
                 cflags=(), cplus=False, options=None, module_options=None, extra_files=None,
                 exc_args=False, use_log=False, includes=(), ldflags=(), opt='-O0', ref_prelude=None,
                 env=None):
        self.name, self.prelude, self.parts, self.input_sets = name, prelude, list(parts), input_sets
        self.ext, self.ref, self.directives, self.cflags, self.cplus = ext, ref, directives, tuple(cflags), cplus
        self.options, self.module_options, self.extra_files = options, module_options, extra_files
        self.exc_args, self.use_log = exc_args, use_log
        self.includes, self.ldflags, self.opt = tuple(includes), tuple(ldflags), opt
        self.ref_prelude = ref_prelude
        self.env = env
        self.so = None
        self.c_file = None

    @property
    def source(self):
        return self.prelude + '\n' + '\n'.join(p.src for p in self.parts) + '\n'

    @property
    def funcs(self):
        return [f for p in self.parts for f in p.funcs]

    def job(self, workdir):
        return dict(name=self.name, source=self.source, workdir=workdir, ext=self.ext, directives=self.directives,
                    cflags=self.cflags, cplus=self.cplus, options=self.options, module_options=self.module_options,
                    extra_files=self.extra_files, includes=self.includes, ldflags=self.ldflags, opt=self.opt)

    def split(self):
        h = len(self.parts) // 2
        out = []
        for i, ps in enumerate((self.parts[:h], self.parts[h:])):
            m = Mod.__new__(Mod)
            m.__dict__.update(self.__dict__)
            m.name = '%s_%d' % (self.name, i)
            m.parts = ps
            m.so = m.c_file = None
            out.append(m)
        return out

    def light(self):
        """Picklable description for the child."""
        ref = self.ref
        if ref[0] == 'exec':
            src = ref[1] if ref[1] is not None else self.source
            if ref[1] is None and self.ref_prelude is not None:
                src = self.ref_prelude + '\n' + '\n'.join(p.src for p in self.parts) + '\n'
            ref = ('exec', src)
        return dict(name=self.name, so=self.so, ref=ref, exc_args=self.exc_args, use_log=self.use_log, env=self.env)


# --------------------------------------------------------------------------------- child side
_loaded = {}


def _get(light):
    k = light['so']
    if k not in _loaded:
        if light.get('env'):
            os.environ.update(light['env'])
        mod = farm.load(light['so'], light['name'])
        kind, what = light['ref']
        if kind == 'exec':
            g = {'__name__': light['name'] + '_ref', '__builtins__': __builtins__}
            exec(compile(what, '<ref:%s>' % light['name'], 'exec'), g)
            ref = g.get
        else:
            m, fn = what.split(':')
            model = getattr(importlib.import_module(m), fn)
            ref = lambda name, _model=model: _model
        _loaded[k] = (mod, ref, kind)
    return _loaded[k]


def _outcome(f, args, exc_args, use_log):
    support.reset_log()
    try:
        v = f(*args)
        o = ('ok', canon(v))
    except BaseException as e:
        if isinstance(e, (KeyboardInterrupt, SystemExit)):
            raise
        o = ('exc', type(e).__name__, repr(e.args)) if exc_args else ('exc', type(e).__name__)
    if use_log:
        o = o + (support.take_log(),)
    return o


def _sweep(case):
    """case: (light, [(fname, tag, [input tuples])...]).  Returns summary dict."""
    light, work = case
    mod, ref, kind = _get(light)
    ns = support.namespace()
    evals = 0
    mism = []
    pairs = set()
    ea, ul = light['exc_args'], light['use_log']
    for fname, tag, inputs in work:
        fc = getattr(mod, fname)
        fr = ref(fname)
        for inp in inputs:
            try:
                a1 = [eval(e, ns) for e in inp]
                a2 = [eval(e, ns) for e in inp]
            except Exception:
                raise RuntimeError('bad operand expression %r' % (inp,))
            if kind == 'model':
                exp = _outcome(fr, [tag] + a2, ea, ul)
            else:
                exp = _outcome(fr, a2, ea, ul)
            got = _outcome(fc, a1, ea, ul)
            evals += 1
            pairs.add(hash((fname, exp)))
            if got != exp:
                if len(mism) < 400:
                    mism.append((fname, tag, inp, exp, got))
                else:
                    mism.append(None)
    n_more = sum(1 for m in mism if m is None)
    return {'evals': evals, 'mismatches': [m for m in mism if m is not None], 'more': n_more, 'pairs': len(pairs)}


# --------------------------------------------------------------------------------- parent side
def divclass(exp, got):
    if got[0] == 'crash':
        return 'crash'
    if exp[0] == 'ok' and got[0] == 'exc':
        return 'extra-exc:' + got[1]
    if exp[0] == 'exc' and got[0] == 'ok':
        return 'missing-exc:' + exp[1]
    if exp[0] == 'exc' and got[0] == 'exc':
        return 'exc-type:%s->%s' % (exp[1], got[1]) if exp[1] != got[1] else 'exc-args-or-log'
    if exp[:2] == got[:2]:
        return 'log'
    if exp[1][0] != got[1][0]:
        return 'type:%s->%s' % (exp[1][0], got[1][0])
    return 'value'


def default_key(tag, inp, exp, got):
    return '%s|%s|%s' % (tag, ','.join(support.classify(e) for e in inp), divclass(exp, got))


def build_all(ctx, mods, workdir, allow_reject=False):
    """Build all mods; bisect packed modules that fail.  Returns (built mods, failures[(mod, BuildResult)])."""
    built, failures = [], []
    todo = list(mods)
    rounds = 0
    while todo:
        res = farm.build_many([m.job(workdir) for m in todo])
        nxt = []
        for m, r in zip(todo, res):
            if r.ok:
                m.so, m.c_file = r.so, r.c_file
                built.append(m)
            elif len(m.parts) > 1:
                nxt.extend(m.split())
            else:
                failures.append((m, r))
        todo = nxt
        rounds += 1
    return built, failures


def run_diff(ctx, mods, keyfn=default_key, on_build_failure='violation', workdir=None, timeout=900,
             reach=None):
    """Compile and sweep.  Returns stats dict (evals, pairs, programs, modules, mismatches, crashes,
    build_failures, reach).  Violations are reported through ctx.violation()."""
    workdir = workdir or ctx.workdir('e2')
    built, failures = build_all(ctx, mods, workdir)
    stats = {'evaluations': 0, 'pairs': 0, 'programs': 0, 'modules_built': len(built), 'mismatches': 0,
             'crashes': 0, 'build_failures': len(failures), 'rejected': []}
    ctx.log('built %d modules (%d failures)' % (len(built), len(failures)))
    for m, r in failures:
        tags = [f.tag for f in m.funcs]
        if on_build_failure == 'violation':
            ctx.violation('build-failure|%s|%s' % (r.stage, tags[0] if tags else m.name),
                          'program does not build (%s): %s' % (r.stage, r.errors[-800:]),
                          {'kind': 'build', 'source': m.source, 'ext': m.ext, 'directives': m.directives,
                           'cflags': list(m.cflags), 'cplus': m.cplus, 'stage': r.stage, 'errors': r.errors[-3000:]})
        else:
            stats['rejected'].append((tags, r.stage, r.errors[-500:]))
    # reach: scan emitted C for helper names
    if reach:
        found = {k: 0 for k in reach}
        for m in built:
            try:
                with open(m.c_file, encoding='utf-8', errors='replace') as f:
                    txt = f.read()
            except OSError:
                continue
            for k in reach:
                if k in txt:
                    found[k] += 1
        stats['reach'] = found
        stats['reach_gaps'] = sorted(k for k, v in found.items() if not v)
        for k in stats['reach_gaps']:
            ctx.log('WARN reach gap: no built module mentions %s' % k)
    # sweep: one case per (module, function) group, sized so that the work spreads across cores
    cases, owners = [], []
    for m in built:
        light = m.light()
        fl = m.funcs
        stats['programs'] += len(fl)
        total = sum(len(m.input_sets[f.inputs]) for f in fl)
        # split a module's functions in groups of roughly equal evaluation counts
        target = max(1, total // 4)
        cur, curn = [], 0
        for f in fl:
            ins = m.input_sets[f.inputs]
            cur.append((f.name, f.tag, ins)); curn += len(ins)
            if curn >= target:
                cases.append((light, cur)); owners.append(m); cur, curn = [], 0
        if cur:
            cases.append((light, cur)); owners.append(m)
    results = runner.run_cases(_sweep, cases, chunk=1, timeout=timeout, scratch=ctx.scratch)

    def handle(m, r):
        stats['evaluations'] += r['evals']
        stats['pairs'] += r['pairs']
        stats['mismatches'] += len(r['mismatches']) + r['more']
        for fname, tag, inp, exp, got in r['mismatches']:
            ctx.violation(keyfn(tag, inp, exp, got),
                          '%s%r: expected %s got %s' % (tag, tuple(inp), short(exp), short(got)),
                          _replay_case(m, fname, tag, inp, exp, got))

    # A group whose child died (crash/timeout) is refined in two bounded stages so that a crash *storm*
    # (a defect that makes thousands of evaluations kill their child) cannot make the check run for hours:
    # stage 1 re-runs the group one function per case; stage 2 re-runs at most MAX_REFINE_INPUTS inputs of at
    # most MAX_REFINE_FUNCS crashing functions one evaluation per case.  Whatever is cut is reported (violation
    # at function level, stats['crash_storm_cut'], exhaustive False in the caller's evidence via stats).
    MAX_REFINE_FUNCS, MAX_REFINE_INPUTS = 60, 64
    stage1 = []
    for (light, work), m, r in zip(cases, owners, results):
        if r[0] == 'ok':
            handle(m, r[1])
        elif r[0] == 'exc':
            ctx.violation('harness-exc|%s' % m.name, 'driver exception: %s' % r[1][-1500:],
                          {'kind': 'harness', 'source': m.source, 'trace': r[1][-3000:]})
        else:
            for fname, tag, ins in work:
                stage1.append(((light, [(fname, tag, ins)]), m, fname, tag, ins, light))
    refine = []
    if stage1:
        ctx.log('refining %d functions after crash/timeout' % len(stage1))
        r1 = runner.run_cases(_sweep, [x[0] for x in stage1], timeout=max(120, timeout // 4), scratch=ctx.scratch)
        crashed_funcs = 0
        for (case, m, fname, tag, ins, light), r in zip(stage1, r1):
            if r[0] == 'ok':
                handle(m, r[1])
            elif r[0] == 'exc':
                ctx.violation('harness-exc|%s' % m.name, 'driver exception: %s' % r[1][-1500:],
                              {'kind': 'harness', 'source': m.source, 'trace': r[1][-3000:]})
            else:
                crashed_funcs += 1
                if crashed_funcs <= MAX_REFINE_FUNCS:
                    for inp in ins[:MAX_REFINE_INPUTS]:
                        refine.append(((light, [(fname, tag, [inp])]), m, fname, tag, inp, r[0]))
                    if len(ins) > MAX_REFINE_INPUTS:
                        stats['crash_storm_cut'] = stats.get('crash_storm_cut', 0) + len(ins) - MAX_REFINE_INPUTS
                else:
                    stats['crash_storm_cut'] = stats.get('crash_storm_cut', 0) + len(ins)
                    stats['crashes'] += 1
                    got = ('crash', r[0], r[1])
                    ctx.violation(keyfn(tag, ins[0], ('ok', ('?', '?')), got),
                                  '%s: %s %s somewhere in its %d inputs (crash storm: not refined further)' % (
                                      tag, r[0], r[1], len(ins)),
                                  _replay_case(m, fname, tag, ins[0], None, got))
    if refine:
        ctx.log('refining %d evaluations after crash/timeout' % len(refine))
        rr = runner.run_cases(_sweep, [x[0] for x in refine], timeout=60, scratch=ctx.scratch)
        reproduced = set()
        for (case, m, fname, tag, inp, why), r in zip(refine, rr):
            if r[0] == 'ok':
                handle(m, r[1])
            elif r[0] in ('crash', 'timeout'):
                stats['crashes'] += 1
                stats['evaluations'] += 1
                reproduced.add((m.name, fname))
                got = ('crash', r[0], r[1])
                ctx.violation(keyfn(tag, inp, ('ok', ('?', '?')), got),
                              '%s%r: %s %s; output tail: %s' % (tag, tuple(inp), r[0], r[1], (r[2] or '')[-400:]),
                              _replay_case(m, fname, tag, inp, None, got))
            else:
                ctx.violation('harness-exc|%s' % m.name, 'driver exception: %s' % r[1][-1500:],
                              {'kind': 'harness', 'source': m.source, 'trace': r[1][-3000:]})
        # a function that crashed as a whole but none of whose refined single evaluations crashed:
        # history-dependent crash (or beyond the input cap) -> still a violation, attributed to the function
        seen_f = set()
        for (case, m, fname, tag, inp, why) in refine:
            if (m.name, fname) in reproduced or (m.name, fname) in seen_f:
                continue
            seen_f.add((m.name, fname))
            stats['crashes'] += 1
            got = ('crash', why, 'not reproduced on single evaluations')
            ctx.violation(keyfn(tag, inp, ('ok', ('?', '?')), got),
                          '%s: child died (%s) while sweeping this function; no single evaluation reproduces it' % (tag, why),
                          _replay_case(m, fname, tag, inp, None, got))
    return stats


def _replay_case(m, fname, tag, inp, exp, got):
    light = m.light()
    return {'kind': 'e2', 'name': m.name, 'source': m.source, 'ext': m.ext, 'directives': m.directives,
            'cflags': list(m.cflags), 'cplus': m.cplus, 'options': m.options, 'module_options': m.module_options,
            'extra_files': m.extra_files, 'includes': list(m.includes), 'ldflags': list(m.ldflags), 'opt': m.opt,
            'ref': list(light['ref']), 'exc_args': m.exc_args, 'use_log': m.use_log, 'env': m.env,
            'fname': fname, 'tag': tag, 'input': list(inp), 'expected': exp, 'got': got}


def replay(ctx, case):
    """Generic replay of an E2 violation: rebuild the module and re-run the single evaluation."""
    if case.get('kind') == 'build':
        r = farm.build('replay_mod', case['source'], ctx.workdir('replay'), ext=case['ext'],
                       directives=case.get('directives'), cflags=case.get('cflags') or (), cplus=case.get('cplus', False))
        return False if r.ok else 'still does not build (%s): %s' % (r.stage, r.errors[-600:])
    if case.get('kind') != 'e2':
        return 'not replayable generically'
    name = case['name']
    r = farm.build(name, case['source'], ctx.workdir('replay'), ext=case['ext'], directives=case.get('directives'),
                   cflags=case.get('cflags') or (), cplus=case.get('cplus', False), options=case.get('options'),
                   module_options=case.get('module_options'), extra_files=case.get('extra_files'),
                   includes=case.get('includes') or (), ldflags=case.get('ldflags') or (), opt=case.get('opt', '-O0'))
    if not r.ok:
        return 'does not build (%s): %s' % (r.stage, r.errors[-600:])
    light = dict(name=name, so=r.so, ref=tuple(case['ref']), exc_args=case['exc_args'], use_log=case['use_log'],
                 env=case.get('env'))
    res = runner.run_cases(_sweep, [(light, [(case['fname'], case['tag'], [tuple(case['input'])])])],
                           timeout=120, scratch=ctx.scratch)[0]
    if res[0] == 'ok':
        mm = res[1]['mismatches']
        if mm:
            return '%s%r: expected %s got %s' % (case['tag'], tuple(case['input']), short(mm[0][3]), short(mm[0][4]))
        return False
    return '%s: %r' % (res[0], res[1:])
