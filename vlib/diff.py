"""Outcome capture and comparison helpers shared by the differential checks."""
import math


def canon(v, depth=0):
    """(type qualname, repr) recursively for containers; distinguishes 0.0/-0.0, bool/int, nan."""
    t = type(v).__qualname__
    if depth < 6 and type(v) in (tuple, list):
        return (t, tuple(canon(x, depth + 1) for x in v))
    if depth < 6 and type(v) is dict:
        return (t, tuple((canon(k, depth + 1), canon(x, depth + 1)) for k, x in v.items()))
    if depth < 6 and type(v) in (set, frozenset):
        return (t, tuple(sorted((canon(x, depth + 1) for x in v), key=repr)))
    try:
        r = repr(v)
    except Exception as e:  # repr may raise for hostile objects
        r = '<repr raised %s>' % type(e).__name__
    return (t, r)


def outcome(fn, *args, exc_args=False, **kw):
    """Run fn(*args) and return a comparable outcome:
    ('ok', canon(value)) or ('exc', exception type name[, repr(args)])."""
    try:
        v = fn(*args, **kw)
    except BaseException as e:
        if isinstance(e, (KeyboardInterrupt, SystemExit)):
            raise
        if exc_args:
            try:
                a = repr(e.args)
            except Exception:
                a = '<args repr failed>'
            return ('exc', type(e).__name__, a)
        return ('exc', type(e).__name__)
    return ('ok', canon(v))


def pyref(source, name='ref', filename='<ref>', extra_globals=None):
    """Execute `source` with CPython and return its module namespace (a dict)."""
    g = {'__name__': name, '__builtins__': __builtins__}
    if extra_globals:
        g.update(extra_globals)
    exec(compile(source, filename, 'exec'), g)
    return g


def short(x, n=300):
    s = repr(x)
    return s if len(s) <= n else s[:n] + '...'
