"""Isolated execution of (possibly crashing) compiled code in forked children.

forked(func, *args)       -> run func in a fork; returns Result(kind, value)
run_cases(func, cases...) -> run func(case) for every case in forked children, in parallel,
                             attributing a crash (death by signal) to the case that was running.
"""
import os, sys, pickle, signal, tempfile, time, traceback, multiprocessing, select


class Result:
    """kind: 'ok' (value = return value), 'exc' (value = traceback text),
    'crash' (value = signal number), 'timeout' (value = seconds)"""
    __slots__ = ('kind', 'value', 'progress', 'output')

    def __init__(self, kind, value, progress=None, output=''):
        self.kind, self.value, self.progress, self.output = kind, value, progress, output

    @property
    def ok(self):
        return self.kind == 'ok'

    def __repr__(self):
        return 'Result(%s, %r, progress=%r)' % (self.kind, self.value if self.kind != 'ok' else '...', self.progress)


class Progress:
    """Written by the child before each case; read by the parent after a crash."""
    def __init__(self, path):
        self.fd = os.open(path, os.O_RDWR | os.O_CREAT, 0o600)

    def __call__(self, token):
        b = repr(token).encode()[:4000]
        os.pwrite(self.fd, b + b'\n' + b' ' * 16, 0)

    @staticmethod
    def read(path):
        try:
            with open(path, 'rb') as f:
                line = f.readline().decode(errors='replace').strip()
            return line or None
        except OSError:
            return None


def forked(func, *args, timeout=300, scratch=None, capture=True, env=None, **kwargs):
    """Run func(*args, progress=<callable>, **kwargs) in a forked child if func accepts `progress`,
    else func(*args, **kwargs).  Returns a Result."""
    import inspect
    scratch = scratch or os.environ.get('VERIF_SCRATCH_DIR') or tempfile.gettempdir()
    base = tempfile.mktemp(prefix='fk-', dir=scratch)
    res_path, prog_path, out_path = base + '.res', base + '.prog', base + '.out'
    wants_progress = False
    try:
        wants_progress = 'progress' in inspect.signature(func).parameters
    except (TypeError, ValueError):
        pass
    sys.stdout.flush(); sys.stderr.flush()
    pid = os.fork()
    if pid == 0:
        code = 0
        try:
            if env:
                os.environ.update(env)
            if capture:
                fd = os.open(out_path, os.O_WRONLY | os.O_CREAT | os.O_TRUNC, 0o600)
                os.dup2(fd, 1); os.dup2(fd, 2)
            if wants_progress:
                kwargs['progress'] = Progress(prog_path)
            try:
                val = ('ok', func(*args, **kwargs))
            except BaseException:
                val = ('exc', traceback.format_exc())
            sys.stdout.flush(); sys.stderr.flush()
            with open(res_path + '.tmp', 'wb') as f:
                try:
                    pickle.dump(val, f)
                except Exception:
                    f.seek(0); f.truncate()
                    pickle.dump(('exc', 'unpicklable result: ' + traceback.format_exc()), f)
            os.rename(res_path + '.tmp', res_path)
        except BaseException:
            code = 3
        finally:
            os._exit(code)
    # parent
    deadline = time.time() + timeout
    status = None
    while True:
        wpid, st = os.waitpid(pid, os.WNOHANG)
        if wpid:
            status = st
            break
        if time.time() > deadline:
            try:
                os.kill(pid, signal.SIGKILL)
            except ProcessLookupError:
                pass
            os.waitpid(pid, 0)
            break
        time.sleep(0.002 if time.time() - (deadline - timeout) < 0.5 else 0.02)
    out = ''
    if capture:
        try:
            with open(out_path, 'r', errors='replace') as f:
                out = f.read(200000)
        except OSError:
            pass
    prog = Progress.read(prog_path) if wants_progress else None
    try:
        if status is None:
            return Result('timeout', timeout, prog, out)
        if os.WIFSIGNALED(status):
            return Result('crash', os.WTERMSIG(status), prog, out)
        if os.path.exists(res_path):
            with open(res_path, 'rb') as f:
                kind, val = pickle.load(f)
            return Result(kind, val, prog, out)
        return Result('crash', -os.WEXITSTATUS(status), prog, out)
    finally:
        for p in (res_path, prog_path, out_path, res_path + '.tmp'):
            try:
                os.unlink(p)
            except OSError:
                pass


def _run_chunk(arg):
    """Run one chunk to completion, restarting after crashes.  Returns list of ('ok', v) |
    ('crash', signum, output) | ('timeout', s, output) | ('exc', text) per case."""
    func, setup, setup_args, cases, timeout, scratch = arg
    results = [None] * len(cases)
    start = 0
    while start < len(cases):
        r = forked(_chunk_worker_partial, func, setup, setup_args, cases, start, scratch,
                   timeout=timeout, scratch=scratch)
        if r.kind == 'ok':
            vals = r.value
            for j, v in enumerate(vals):
                results[start + j] = ('ok', v)
            start = len(cases)
        else:
            # recover the cases completed before the failure
            done, part = _read_partial(scratch, os.getpid())
            for j, v in enumerate(part):
                results[start + j] = ('ok', v)
            bad = start + len(part)
            if r.kind == 'exc' and r.progress is None:
                # setup failed: every remaining case fails the same way
                for j in range(start, len(cases)):
                    results[j] = ('exc', r.value)
                break
            if bad < len(cases):
                if r.kind == 'crash':
                    results[bad] = ('crash', r.value, r.output[-3000:])
                elif r.kind == 'timeout':
                    results[bad] = ('timeout', r.value, r.output[-3000:])
                else:
                    results[bad] = ('exc', r.value)
            start = bad + 1
    return results


def _partial_path(scratch, ppid):
    return os.path.join(scratch, 'partial-%d.pkl' % ppid)


def _read_partial(scratch, ppid):
    p = _partial_path(scratch, ppid)
    vals = []
    try:
        with open(p, 'rb') as f:
            while True:
                try:
                    vals.append(pickle.load(f))
                except EOFError:
                    break
                except Exception:
                    break
    except OSError:
        pass
    return len(vals), vals


def _chunk_worker_partial(func, setup, setup_args, cases, start, scratch, progress):
    """Child body: results are appended to a per-parent partial file so that a crash loses nothing."""
    p = _partial_path(scratch, os.getppid())
    out = []
    with open(p, 'wb') as f:
        state = setup(*setup_args) if setup else None
        for i in range(start, len(cases)):
            progress(i)
            v = func(state, cases[i]) if setup else func(cases[i])
            out.append(v)
            pickle.dump(v, f)
            f.flush()
    return out


def run_cases(func, cases, setup=None, setup_args=(), procs=None, chunk=None, timeout=600, scratch=None):
    """Evaluate func(state, case) (or func(case) when setup is None) for every case in forked children.

    setup(*setup_args) runs once per child (e.g. import the compiled module) and returns `state`.
    func/setup must be module-level (picklable) functions.  A case whose execution kills the child is
    reported as ('crash', signum, output) and the remaining cases continue in a fresh child.
    Returns a list aligned with cases: ('ok', value) | ('crash', sig, out) | ('timeout', s, out) | ('exc', tb).
    """
    from . import farm
    cases = list(cases)
    if not cases:
        return []
    scratch = scratch or os.environ.get('VERIF_SCRATCH_DIR') or tempfile.gettempdir()
    procs = procs or farm.NPROC
    if chunk is None:
        chunk = max(1, min(2000, -(-len(cases) // (procs * 2))))
    chunks = [cases[i:i + chunk] for i in range(0, len(cases), chunk)]
    args = [(func, setup, setup_args, c, timeout, scratch) for c in chunks]
    if len(chunks) == 1 or procs <= 1:
        res = [_run_chunk(a) for a in args]
    else:
        res = farm._pool_map(_run_chunk, args, min(procs, len(chunks)), 1)
    out = []
    for r in res:
        out.extend(r)
    return out


def py_subprocess(code, env=None, timeout=300, cwd=None, args=()):
    """Run `code` in a fresh interpreter (same python, staged PYTHONPATH inherited).  Returns
    (returncode, stdout, stderr)."""
    import subprocess
    e = dict(os.environ)
    if env:
        e.update(env)
    p = subprocess.run([sys.executable, '-c', code] + list(args), env=e, cwd=cwd,
                       stdout=subprocess.PIPE, stderr=subprocess.PIPE, text=True, errors='replace',
                       timeout=timeout)
    return p.returncode, p.stdout, p.stderr
