"""Source-only staging of /repo/Cython.

/repo/Cython holds pre-built, git-ignored extension modules (Code, Parsing, Scanning, LineTable,
Plex.*, StringIOTree, Utils, LZSS, ...) that shadow the .py sources.  A check must run what the
*working tree* says, so it stages a copy without any binary/generated artefact and imports from it.
"""
import os, sys, subprocess, hashlib, shutil, atexit, tempfile, signal

REPO = os.environ.get('VERIF_REPO', '/repo')
SCRATCH_ROOT = os.environ.get('VERIF_SCRATCH', '/dev/shm')
PREFIX = 'cyverif-'

_stage_dir = None


def _sweep_stale():
    """Remove scratch dirs whose owning pid is dead."""
    try:
        names = os.listdir(SCRATCH_ROOT)
    except OSError:
        return
    for n in names:
        if not n.startswith(PREFIX):
            continue
        try:
            pid = int(n[len(PREFIX):].split('-')[0])
        except ValueError:
            continue
        if pid == os.getpid():
            continue
        try:
            os.kill(pid, 0)
        except ProcessLookupError:
            shutil.rmtree(os.path.join(SCRATCH_ROOT, n), ignore_errors=True)
        except PermissionError:
            pass


def scratch():
    """Private scratch dir of this check process (removed at exit)."""
    global _stage_dir
    if _stage_dir is None:
        _sweep_stale()
        owner = os.getpid()
        _stage_dir = tempfile.mkdtemp(prefix='%s%d-' % (PREFIX, owner), dir=SCRATCH_ROOT)

        def _cleanup(d=_stage_dir, owner=owner):
            if os.getpid() == owner and not os.environ.get('VERIF_KEEP'):
                shutil.rmtree(d, ignore_errors=True)
        atexit.register(_cleanup)

        def _on_term(signum, frame):
            sys.exit(143)
        try:
            signal.signal(signal.SIGTERM, _on_term)
        except ValueError:
            pass
    return _stage_dir


def stage():
    """Copy /repo/Cython (sources only) into scratch()/stage/Cython; return the stage root."""
    root = os.path.join(scratch(), 'stage')
    if os.path.isdir(os.path.join(root, 'Cython')):
        return root
    os.makedirs(root)
    subprocess.run(
        ['rsync', '-a',
         '--exclude', '*.so', '--exclude', '__pycache__', '--exclude', '*.pyc',
         '--include', 'Utility/***', '--include', 'Debugger/Tests/***',
         '--exclude', '*.c', '--exclude', '*.cpp', '--exclude', '*.html',
         os.path.join(REPO, 'Cython') + '/', os.path.join(root, 'Cython') + '/'],
        check=True)
    shutil.copy(os.path.join(REPO, 'cython.py'), os.path.join(root, 'cython.py'))
    subprocess.run(['rsync', '-a', '--exclude', '__pycache__', '--exclude', 'test',
                    os.path.join(REPO, 'pyximport') + '/', os.path.join(root, 'pyximport') + '/'], check=True)
    return root


def digest(root):
    h = hashlib.sha256()
    base = os.path.join(root, 'Cython')
    for dp, dn, fn in sorted(os.walk(base)):
        dn.sort()
        for f in sorted(fn):
            p = os.path.join(dp, f)
            h.update(os.path.relpath(p, base).encode())
            with open(p, 'rb') as fh:
                h.update(hashlib.sha256(fh.read()).digest())
    return h.hexdigest()


def activate():
    """Stage, put the stage first on sys.path and in PYTHONPATH, verify the binding."""
    root = stage()
    for k in [k for k in sys.modules if k == 'Cython' or k.startswith('Cython.') or k == 'cython']:
        del sys.modules[k]
    if root in sys.path:
        sys.path.remove(root)
    sys.path.insert(0, root)
    os.environ['PYTHONPATH'] = root + os.pathsep + os.path.dirname(os.path.dirname(os.path.abspath(__file__)))
    os.environ.setdefault('PYTHONHASHSEED', '0')
    os.environ['PYTHONDONTWRITEBYTECODE'] = '1'
    os.environ['LC_ALL'] = 'C.UTF-8'
    os.environ['TZ'] = 'UTC'
    home = os.path.join(scratch(), 'home')
    os.makedirs(home, exist_ok=True)
    os.environ['HOME'] = home
    os.environ['CYTHON_CACHE_DIR'] = os.path.join(scratch(), 'cycache')
    sys.dont_write_bytecode = True
    import Cython
    import Cython.Compiler.Code as _code
    import Cython.Plex.Scanners as _sc
    for m in (Cython, _code, _sc):
        f = os.path.realpath(m.__file__)
        if not f.startswith(os.path.realpath(root)) or not f.endswith('.py'):
            raise RuntimeError('staging failed: %s resolves to %s' % (m.__name__, f))
    return root
