"""Build farm: source text -> staged Cython compiler -> C -> gcc/g++ -> extension module.

All functions assume vlib.stage.activate() ran in this process (the staged compiler is importable).
Workers are forked from the calling process, so they inherit the warm, staged compiler.
"""
import os, sys, io, subprocess, sysconfig, traceback, multiprocessing, hashlib, contextlib

PY_INC = sysconfig.get_paths()['include']
EXT_SUFFIX = sysconfig.get_config_var('EXT_SUFFIX')
def _default_procs():
    n = os.cpu_count() or 4
    try:
        load = os.getloadavg()[0]
    except OSError:
        load = 0
    if load > 2 * n:        # heavily shared machine: do not pile on (affects speed only, never the set of cases)
        return max(4, n // 4)
    if load > n:
        return max(4, n // 2)
    return n


NPROC = int(os.environ.get('VERIF_JOBS', '0')) or _default_procs()


def numpy_include():
    import numpy
    return numpy.get_include()


class BuildResult:
    """ok, so (path or None), c_file, stage ('cython'|'cc'|'internal'), errors (text), name"""
    def __init__(self, name, ok, so=None, c_file=None, stage=None, errors='', warnings=''):
        self.name, self.ok, self.so, self.c_file = name, ok, so, c_file
        self.stage, self.errors, self.warnings = stage, errors, warnings

    def c_text(self):
        with open(self.c_file, encoding='utf-8', errors='replace') as f:
            return f.read()

    def __repr__(self):
        return 'BuildResult(%s ok=%s stage=%s %s)' % (self.name, self.ok, self.stage, self.errors[:200])


def cython_compile(src_path, directives=None, cplus=False, options=None, module_options=None,
                   include_path=None):
    """Run the staged compiler on src_path.  Returns (c_file or None, num_errors, stderr_text, crashed).

    crashed is a traceback string when the compiler raised a non-CompileError exception."""
    from Cython.Compiler import Main, Options, Errors
    saved = {}
    for k, v in (module_options or {}).items():
        saved[k] = getattr(Options, k)
        setattr(Options, k, v)
    err = io.StringIO()
    old_stderr = sys.stderr
    sys.stderr = err
    crashed = None
    c_file = None
    nerr = 0
    try:
        kw = dict(language_level=3)
        kw.update(options or {})
        if include_path:
            kw['include_path'] = list(include_path)
        d = Options.get_directive_defaults().copy()
        d.update(kw.pop('compiler_directives', {}))
        d.update(directives or {})
        opts = Main.CompilationOptions(Main.default_options, compiler_directives=d, cplus=cplus, **kw)
        try:
            res = Main.compile_single(src_path, opts, kw.get('full_module_name'))
            nerr = res.num_errors
            c_file = res.c_file if not nerr else None
        except Errors.CompileError as e:
            nerr = max(1, Errors.get_errors_count())
            err.write(str(e) + '\n')
        except Exception:
            crashed = traceback.format_exc()
    finally:
        sys.stderr = old_stderr
        for k, v in saved.items():
            setattr(Options, k, v)
    return c_file, nerr, err.getvalue(), crashed


def cc_compile(c_file, so_path, cflags=(), cplus=False, includes=(), ldflags=(), opt='-O0'):
    cc = 'g++' if cplus else 'gcc'
    cmd = [cc, '-shared', '-fPIC', opt, '-w', '-fwrapv', '-fno-strict-aliasing', '-I' + PY_INC]
    cmd += ['-I' + i for i in includes]
    cmd += list(cflags) + [c_file, '-o', so_path] + list(ldflags)
    p = subprocess.run(cmd, stdout=subprocess.PIPE, stderr=subprocess.STDOUT, text=True, errors='replace')
    return p.returncode == 0, p.stdout


def build(name, source, workdir, ext='.pyx', directives=None, cflags=(), cplus=False, options=None,
          module_options=None, extra_files=None, includes=(), ldflags=(), opt='-O0', cc=True,
          include_path=None):
    """Compile `source` (text) as module `name` inside workdir/<name>/ and return a BuildResult.

    extra_files: {relative filename: text} written next to the source (pxd, pxi, headers).
    cc=False stops after C generation (so is None, ok reflects the Cython stage)."""
    d = os.path.join(workdir, name)
    os.makedirs(d, exist_ok=True)
    src = os.path.join(d, name + ext)
    with open(src, 'w', encoding='utf-8', newline='') as f:
        f.write(source)
    for fn, text in (extra_files or {}).items():
        p = os.path.join(d, fn)
        os.makedirs(os.path.dirname(p), exist_ok=True)
        mode = 'wb' if isinstance(text, bytes) else 'w'
        with open(p, mode) as f:
            f.write(text)
    c_file, nerr, msgs, crashed = cython_compile(src, directives, cplus, options, module_options, include_path)
    if crashed:
        return BuildResult(name, False, stage='internal', errors=crashed + msgs)
    if nerr or not c_file:
        return BuildResult(name, False, stage='cython', errors=msgs)
    if not cc:
        return BuildResult(name, True, c_file=c_file, stage=None, warnings=msgs)
    so = os.path.join(d, name + EXT_SUFFIX)
    ok, out = cc_compile(c_file, so, cflags, cplus, [d] + list(includes), ldflags, opt)
    if not ok:
        return BuildResult(name, False, c_file=c_file, stage='cc', errors=out, warnings=msgs)
    return BuildResult(name, True, so=so, c_file=c_file, warnings=msgs)


def _build_job(job):
    try:
        return build(**job)
    except Exception:
        return BuildResult(job.get('name'), False, stage='internal', errors=traceback.format_exc())


def build_many(jobs, procs=None):
    """jobs: list of kwargs dicts for build().  Returns BuildResults in order (parallel, forked)."""
    jobs = list(jobs)
    if not jobs:
        return []
    procs = min(procs or NPROC, len(jobs))
    if procs <= 1:
        return [_build_job(j) for j in jobs]
    return _pool_map(_build_job, jobs, procs, 1)


def _pool_map(func, items, procs, chunksize=1):
    """Ordered parallel map in forked workers.  Unlike multiprocessing.Pool this fails loudly
    (BrokenProcessPool) instead of hanging when a worker process dies."""
    from concurrent.futures import ProcessPoolExecutor
    ctx = multiprocessing.get_context('fork')
    with ProcessPoolExecutor(max_workers=procs, mp_context=ctx) as ex:
        return list(ex.map(func, items, chunksize=chunksize))


def pmap(func, items, procs=None, chunksize=1):
    """Parallel map over forked workers (func must be a module-level function)."""
    items = list(items)
    if not items:
        return []
    procs = min(procs or NPROC, len(items))
    if procs <= 1:
        return [func(i) for i in items]
    return _pool_map(func, items, procs, chunksize)


def load(so_path, name=None):
    """Import an extension module from its path (fresh name -> fresh module object)."""
    import importlib.machinery, importlib.util
    if name is None:
        name = os.path.basename(so_path).split('.')[0]
    loader = importlib.machinery.ExtensionFileLoader(name, so_path)
    spec = importlib.util.spec_from_file_location(name, so_path, loader=loader)
    mod = importlib.util.module_from_spec(spec)
    sys.modules[name] = mod
    loader.exec_module(mod)
    return mod
