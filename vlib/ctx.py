"""Check context: violations, known findings, replay files, evidence writing."""
import os, sys, json, time, hashlib, fnmatch

VERIF = os.path.dirname(os.path.dirname(os.path.abspath(__file__)))
EVIDENCE_DIR = os.path.join(VERIF, 'evidence')
if os.path.realpath(os.environ.get('VERIF_REPO', '/repo')) != '/repo':
    # a run against a scratch copy (mutation trial) must not overwrite the evidence of the real tree
    EVIDENCE_DIR = os.path.join(VERIF, '.mut_evidence')
REPLAY_DIR = os.path.join(VERIF, 'replays')
FINDINGS = os.path.join(VERIF, 'findings', 'known_findings.json')

MAX_REPLAY_FILES = 25


def load_findings():
    try:
        with open(FINDINGS) as f:
            return json.load(f).get('findings', [])
    except FileNotFoundError:
        return []


def _jsonable(x):
    try:
        json.dumps(x)
        return x
    except (TypeError, ValueError):
        if isinstance(x, dict):
            return {str(k): _jsonable(v) for k, v in x.items()}
        if isinstance(x, (list, tuple, set, frozenset)):
            return [_jsonable(v) for v in x]
        return repr(x)


class Ctx:
    def __init__(self, pid, tier, seed, level, stage_root=None, stage_digest=None, scratch=None):
        self.pid = pid
        self.tier = tier
        self.seed = seed
        self.level = level
        self.stage_root = stage_root
        self.stage_digest = stage_digest
        self.scratch = scratch
        self.t0 = time.time()
        self.violations = {}      # key -> dict(what, replay, count)
        self.known_hits = {}      # finding key -> count
        self.notes = []
        self._known = [f for f in load_findings()
                       if f.get('property') == pid and f.get('status') == 'known']
        self.quiet = False

    # ------------------------------------------------------------------ work dirs
    def workdir(self, name):
        d = os.path.join(self.scratch, name)
        os.makedirs(d, exist_ok=True)
        return d

    @property
    def quick(self):
        return self.tier == 'quick'

    def log(self, msg):
        if not self.quiet:
            print('[%s %6.1fs] %s' % (self.pid, time.time() - self.t0, msg), flush=True)

    # ------------------------------------------------------------------ violations
    def violation(self, key, what, case):
        """Record a violation with normalised root `key` (string), a one-line `what`, and a
        JSON-able `case` holding everything needed to replay it.  Known findings (matched on the
        key with fnmatch patterns from findings/known_findings.json) are only counted."""
        key = str(key)
        for f in self._known:
            if fnmatch.fnmatchcase(key, f['key']):
                n = self.known_hits.setdefault(f['key'], 0)
                self.known_hits[f['key']] = n + 1
                if n == 0:
                    print('KNOWN-FINDING: property=%s %s' % (self.pid, f.get('what', f['key'])), flush=True)
                return False
        v = self.violations.get(key)
        if v is not None:
            v['count'] += 1
            return True
        path = None
        if len(self.violations) < MAX_REPLAY_FILES:
            os.makedirs(REPLAY_DIR, exist_ok=True)
            h = hashlib.sha1(key.encode()).hexdigest()[:12]
            path = os.path.join(REPLAY_DIR, '%s-%s.json' % (self.pid, h))
            with open(path, 'w') as fh:
                json.dump({'property': self.pid, 'key': key, 'what': what, 'tier': self.tier,
                           'seed': self.seed, 'case': _jsonable(case)}, fh, indent=1, sort_keys=True)
        self.violations[key] = {'what': what, 'replay': path, 'count': 1}
        print('VIOLATION property=%s replay=%s' % (self.pid, path or 'replays/(cap reached; key=%s)' % key), flush=True)
        print('  key : %s' % key, flush=True)
        print('  what: %s' % str(what)[:600], flush=True)
        return True

    # ------------------------------------------------------------------ evidence
    def finish(self, coverage, assumptions=()):
        cov = dict(coverage)
        cov.setdefault('exhaustive', True)
        cov['known_finding_hits'] = dict(self.known_hits)
        cov['violation_keys'] = sorted(self.violations)[:50]
        if self.stage_digest:
            cov['stage_digest'] = self.stage_digest
        if self.notes:
            cov['notes'] = self.notes
        ev = {
            'property_id': self.pid,
            'tier': self.tier,
            'seed': self.seed,
            'level': self.level,
            'coverage': _jsonable(cov),
            'assumptions': list(assumptions) + [
                'checked tree: source-only stage of /repo/Cython working tree (pre-built .so ignored)',
                'CPython %s is the reference interpreter' % sys.version.split()[0]],
            'wall_s': round(time.time() - self.t0, 2),
            'violations': len(self.violations),
        }
        os.makedirs(EVIDENCE_DIR, exist_ok=True)
        path = os.path.join(EVIDENCE_DIR, '%s.json' % self.pid)
        tmp = path + '.tmp%d' % os.getpid()
        with open(tmp, 'w') as fh:
            json.dump(ev, fh, indent=1, sort_keys=True)
            fh.write('\n')
        os.replace(tmp, path)
        summary = {k: v for k, v in cov.items() if isinstance(v, (int, float, bool))}
        self.log('done: violations=%d known=%d %s' % (len(self.violations), sum(self.known_hits.values()), summary))
        return 1 if self.violations else 0
