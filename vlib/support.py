"""Run-time support shared by test programs, reference runs and drivers.

Importable from compiled test modules (PYTHONPATH contains /verif): `from vlib.support import L, LOG`.
Also holds the boundary alphabets (as *expression strings*, evaluated freshly for every call so that
the compiled run and the reference run never share a mutable operand)."""
import math, fractions, decimal

LOG = []


def L(tag, value=None):
    """Logging leaf: records (tag, repr(value)) and returns value."""
    LOG.append((tag, type(value).__name__, repr(value)))
    return value


def reset_log():
    del LOG[:]


def take_log():
    out = tuple(LOG)
    del LOG[:]
    return out


# ------------------------------------------------------------------ operand classes
class IntSub(int):
    def __repr__(self):
        return 'IntSub(%d)' % int(self)


class FloatSub(float):
    def __repr__(self):
        return 'FloatSub(%r)' % float(self)


class StrSub(str):
    pass


class IndexOnly:
    def __init__(self, v): self.v = v
    def __index__(self): return self.v
    def __repr__(self): return 'IndexOnly(%r)' % (self.v,)


class IntOnly:
    def __init__(self, v): self.v = v
    def __int__(self): return self.v
    def __repr__(self): return 'IntOnly(%r)' % (self.v,)


class FloatOnly:
    def __init__(self, v): self.v = v
    def __float__(self): return self.v
    def __repr__(self): return 'FloatOnly(%r)' % (self.v,)


class Refl:
    """Only reflected dunders: every binary op with Refl on the right returns a tagged tuple."""
    def __repr__(self): return 'Refl()'


def _mk_refl(name):
    def r(self, other):
        return ('Refl', name, repr(other))
    return r


for _n in ('add', 'sub', 'mul', 'truediv', 'floordiv', 'mod', 'and', 'or', 'xor', 'lshift', 'rshift', 'pow'):
    setattr(Refl, '__r%s__' % _n, _mk_refl(_n))
Refl.__eq__ = lambda self, other: ('Refl', 'eq', repr(other))
Refl.__ne__ = lambda self, other: ('Refl', 'ne', repr(other))
Refl.__hash__ = lambda self: 7


class NotImpl:
    """Every dunder logs and returns NotImplemented."""
    def __repr__(self): return 'NotImpl()'


def _mk_ni(name):
    def r(self, *a):
        LOG.append(('NotImpl', name, ''))
        return NotImplemented
    return r


for _n in ('add', 'sub', 'mul', 'truediv', 'floordiv', 'mod', 'and', 'or', 'xor', 'lshift', 'rshift', 'pow'):
    for _p in ('', 'r', 'i'):
        setattr(NotImpl, '__%s%s__' % (_p, _n), _mk_ni(_p + _n))
NotImpl.__eq__ = _mk_ni('eq')
NotImpl.__ne__ = _mk_ni('ne')
NotImpl.__hash__ = lambda self: 11


# ------------------------------------------------------------------ alphabets (expression strings)
_K = [0, 1, 7, 8, 14, 15, 16, 29, 30, 31, 32, 45, 59, 60, 61, 62, 63, 64, 65, 89, 90, 91, 119, 120, 121, 127, 128]


def _ints():
    vals = set([0, 1, -1, 2, -2, 3, -3, 5, -5, 7, -7, 10, -10, 100, -100])
    for k in _K:
        for s in (1, -1):
            for d in (-1, 0, 1):
                vals.add(s * (2 ** k) + d)
    return sorted(vals)


INT_VALUES = _ints()
INTS = [repr(v) for v in INT_VALUES]

FLOATS = ['0.0', '-0.0', '1.0', '-1.0', '0.5', '-0.5', '1.5', '-1.5', '2.5', '-2.5', "float('inf')",
          "float('-inf')", "float('nan')", '5e-324', '-5e-324', '2.2250738585072014e-308',
          '-2.2250738585072014e-308', '1.7976931348623157e+308', '-1.7976931348623157e+308',
          '9007199254740991.0', '9007199254740992.0', '9007199254740994.0', '1e16', '-1e16', '1e22', '1e23',
          '0.1', '-7.25', '3.0', '4.0', '-4.0']

OBJS = ['True', 'False', 'None', "''", "'a'", "b'a'", '()', '[]', 'IntSub(5)', 'IntSub(2**70)', 'IntSub(-3)',
        'FloatSub(1.5)', 'Fraction(1, 3)', "Decimal('1.5')", 'IndexOnly(3)', 'IntOnly(3)', 'FloatOnly(2.5)',
        'Refl()', 'NotImpl()', '[1, 2]', "'ab'", '(1, 2)', '1j']

STRS = ["''", "'a'", "'ab'", "'abc'", "'abcdefgh'", "'\\xe9'", "'a\\xe9'", "'\\u20ac'", "'a\\u20acb'",
        "'\\U0001f600'", "'a\\U0001f600'", "'\\udc80'", "'a\\x00b'", "'\\x00'", "'\\xe9\\u20ac\\U0001f600'"]


def namespace():
    """Namespace in which operand expression strings are evaluated."""
    ns = {'IntSub': IntSub, 'FloatSub': FloatSub, 'StrSub': StrSub, 'IndexOnly': IndexOnly, 'IntOnly': IntOnly,
          'FloatOnly': FloatOnly, 'Refl': Refl, 'NotImpl': NotImpl, 'Fraction': fractions.Fraction,
          'Decimal': decimal.Decimal, 'math': math, 'L': L}
    return ns


def classify(expr):
    """Input class of an operand expression: used to normalise violation keys."""
    try:
        v = eval(expr, namespace())
    except Exception:
        return 'expr'
    t = type(v)
    if t is bool:
        return 'bool'
    if t is int or t is IntSub:
        n = abs(int(v))
        d = 0 if n == 0 else (n.bit_length() + 29) // 30
        return '%s:%s%dd' % (t.__name__, '-' if v < 0 else '+', d)
    if t is float or t is FloatSub:
        if v != v:
            return 'float:nan'
        if v in (float('inf'), float('-inf')):
            return 'float:inf'
        if v == 0:
            return 'float:' + ('-0' if math.copysign(1, v) < 0 else '+0')
        return 'float:' + ('-' if v < 0 else '+')
    return t.__name__
